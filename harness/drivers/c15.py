"""C15 - deferred training releases exactly the collected steps; checkpoints only improve.

spec/Checkpointing.tla: CheckpointState + the caller's epoch; actions Configure,
EpisodeEnd (= assess_performance_and_checkpoint, branch by branch), Release (the
`for _ in range(training_steps)` loop of train_td7).  TLC checks Conservation,
TrainAllOrNothing, ResetAfterRelease, UpdateOnlyIfBetter / UpdateWheneverBetter,
CutShortExactly, BestMinIsWindowMin, SwitchOnce / SwitchInCrossingCall on all
bounded histories.

(A) spec -> code: every transition of the (observable) state graph is replayed
    into the real function with a real CheckpointState; return value and all five
    fields are compared after every call.
(B) code -> spec: the real train_td7 runs on a scripted environment with a
    recording LAP buffer / logger and interposed module-level names; the recorded
    trace is validated by spec/CheckpointingTrace.tla, which re-uses EpisodeEnd /
    Release and compares the routine's view clause by clause.
"""
from __future__ import annotations

import copy
import hashlib
import json
import os
import random
import re
import time
from fractions import Fraction

from .. import graph, tlc
from ..graph import Mismatch

LEVEL = "model_checking"
MANIFEST = dict(
    category="model_checking",
    text="TLC decides conservation of deferred training steps, counter reset, update-only-if-better, cut-short-exactly and switch-once on every bounded history of Checkpointing.tla (a line-by-line model of assess_performance_and_checkpoint plus the caller's release loop); every transition of the observable state graph is replayed into the real function (return value and all five CheckpointState fields compared exactly), and traces of the real train_td7 (scripted environment, recording buffer/logger) are validated by CheckpointingTrace.tla which re-uses the same actions: the loop runs exactly trainSteps iterations and copies the checkpoint iff update. The logic is a small integer/comparison state machine, for which exhaustive small-scope model checking bound to the code by transition coverage is the right level.",
    note="bounds: episode lengths 1-3, returns {-2,0,1,3} (thorough: wider), windows 1-3, thresholds 0-6, reset weight 1/2, 1 (thorough: 2), histories <= 5 (quick) / 8 checked, 7 replayed (thorough) episodes; train_td7 traces: 4 (quick) / 11 (thorough) scripted runs incl. a continued call (global_step > learning_starts > 0) of 20-45 steps; trusted: TLC, the recording subclasses and name interposition in harness/drivers/c15.py",
    technique="TLA+ spec + TLC exhaustive state graph with action properties; transition-coverage replay into assess_performance_and_checkpoint; batched trace validation of train_td7 runs with a trace specification re-using the spec's actions",
)

INVS = ["TypeOK", "Conservation", "WindowConsistent", "SwitchOnce"]
PROPS = [
    "TrainAllOrNothing",
    "ResetAfterRelease",
    "UpdateOnlyIfBetter",
    "UpdateWheneverBetter",
    "CutShortExactly",
    "BestMinIsWindowMin",
    "SwitchInCrossingCall",
]
FN = "assess_performance_and_checkpoint"
TMP = os.path.join(tlc.OUT, "tmp")


# ------------------------------------------------------------------ part A
def half(x, what="value"):
    """A real number of the implementation in the model's half units (exact)."""
    try:
        f = Fraction(float(x)) * 2
    except (TypeError, ValueError, OverflowError):
        raise Mismatch(f"{what} = {x!r} is not a finite number")
    if f.denominator != 1 or abs(f) >= 2**31:
        raise Mismatch(f"{what} = {x!r} is not a multiple of 1/2 within the model's range")
    return int(f)


def as_int(x, what):
    if isinstance(x, bool) or int(x) != x:
        raise Mismatch(f"{what} = {x!r} is not an integer")
    return int(x)


def project_state(st):
    return {
        "eps": as_int(st.episodes_since_udpate, "episodes_since_udpate"),
        "ts": as_int(st.timesteps_since_upate, "timesteps_since_upate"),
        "maxEps": as_int(st.max_episodes_before_update, "max_episodes_before_update"),
        "minRet": half(st.min_return, "min_return"),
        "bestMin": half(st.best_min_return, "best_min_return"),
    }


class AssessAdapter:
    """A real CheckpointState plus what the caller (train_td7) keeps: epoch, pending result."""

    def __init__(self):
        from rl_blox.blox.checkpointing import CheckpointState

        self.state = CheckpointState()
        self.cfg = {"maxEps": 0, "thresh": 0, "rw2": 0, "epoch0": 0}
        self.pc = "config"
        self.epoch = 0
        self.out = {"upd": False, "train": 0}


def a_step(ad: AssessAdapter, op, args, exp, pre, post):
    if op == "Configure":
        ad.cfg = dict(args)
        ad.epoch = args["epoch0"]
        ad.pc = "collect"
    elif op == "EpisodeEnd":
        from rl_blox.blox.checkpointing import assess_performance_and_checkpoint

        res = assess_performance_and_checkpoint(
            ad.state,
            args["len"],
            float(args["ret"]),
            ad.epoch,
            ad.cfg["rw2"] / 2,
            ad.cfg["maxEps"],
            ad.cfg["thresh"],
        )
        try:
            upd, train = res
        except Exception:
            raise Mismatch(f"returns {res!r}, not a pair (update_checkpoint, training_steps)")
        if not isinstance(upd, bool) and upd not in (0, 1):
            raise Mismatch(f"update_checkpoint = {upd!r} is not a truth value")
        ad.out = {"upd": bool(upd), "train": as_int(train, "training_steps")}
        ad.pc = "release"
        if ad.out["upd"] != exp["upd"]:
            raise Mismatch(f"update_checkpoint = {ad.out['upd']}, model {exp['upd']}", field="upd")
        if ad.out["train"] != exp["train"]:
            raise Mismatch(f"training_steps = {ad.out['train']}, model {exp['train']}", field="train")
    elif op == "Release":
        ad.epoch += ad.out["train"]
        ad.out = {"upd": False, "train": 0}
        ad.pc = "collect"
    else:  # pragma: no cover
        raise AssertionError(op)


def a_project(ad: AssessAdapter):
    d = {"cfg": ad.cfg, "pc": ad.pc, "epoch": ad.epoch, "out": ad.out}
    d.update(project_state(ad.state))
    return d


def a_clone(ad: AssessAdapter):
    o = copy.copy(ad)
    o.state = copy.copy(ad.state)
    o.cfg = dict(ad.cfg)
    o.out = dict(ad.out)
    return o


def a_key(v):
    """Stable key: the function and the branch the model takes at the failing call."""
    last = v["path"][-1]
    if last["op"] != "EpisodeEnd":
        return f"{FN}:{last['op']}"
    e = last["exp"]
    return f"{FN}:{e['branch']}{'+switch' if e['switch'] else ''}"


def model_constants(tier, emit):
    if tier == "quick":
        return dict(
            Lens={1, 2, 3}, Rets=tlc.Subst("RetsQuick"), MaxEpsSet={1, 2, 3}, ThreshSet={0, 1, 2, 3, 4, 5, 6},
            RW2Set={1, 2}, Epoch0Set={0}, MaxHist=5, EMIT=emit,
        )
    return dict(
        Lens={1, 2, 3}, Rets=tlc.Subst("RetsQuick"), MaxEpsSet={1, 2, 3}, ThreshSet={0, 1, 2, 3, 4, 5, 6},
        RW2Set={1, 2}, Epoch0Set={0}, MaxHist=7, EMIT=emit,
    )


def part_a(rep, workers):
    quick = rep.tier == "quick"
    c = model_constants(rep.tier, False)
    if not quick:
        c["MaxHist"] = 8  # property run one episode deeper than the replayed graph
    r = tlc.run("Checkpointing", tlc.cfg_text(constants=c, invariants=INVS, properties=PROPS), workers=workers, coverage=True, tag="c15mc", timeout=1500)
    rep.add_tlc(r, f"Checkpointing invariants+action properties, histories <= {c['MaxHist']}")
    if not r.ok:
        rep.violation(f"spec:Checkpointing:{r.violated}", f"design-level violation of {r.violated}", r.error_trace)
        return None
    tlc.require_covered(r, ["Configure", "EpisodeEndV", "Release"])
    if not quick:
        # wider value sets (reset weight 2, negative / tied returns, resumed epoch) on shorter histories
        c2 = dict(
            Lens={1, 2, 3}, Rets=tlc.Subst("RetsWide"), MaxEpsSet={1, 2, 3}, ThreshSet={0, 1, 2, 3, 4, 5, 6, 7, 8},
            RW2Set={1, 2, 4}, Epoch0Set={0, 2}, MaxHist=5, EMIT=False,
        )
        r2 = tlc.run("Checkpointing", tlc.cfg_text(constants=c2, invariants=INVS, properties=PROPS), workers=workers, tag="c15mcw", timeout=1500)
        rep.add_tlc(r2, "Checkpointing wide value sets, histories <= 5")
        if not r2.ok:
            rep.violation(f"spec:Checkpointing:{r2.violated}", f"design-level violation of {r2.violated} (wide)", r2.error_trace)

    # generation: the observable projection (VIEW) of the same state graph, one record per transition
    gens = [model_constants(rep.tier, True)]
    if not quick:
        gens.append(dict(
            Lens={1, 2}, Rets=tlc.Subst("RetsWide"), MaxEpsSet={1, 2, 3}, ThreshSet={0, 2, 3, 5},
            RW2Set={1, 2, 4}, Epoch0Set={0, 2}, MaxHist=4, EMIT=True,
        ))
    graphs = []
    for i, cg in enumerate(gens):
        g = tlc.run("Checkpointing", tlc.cfg_text(constants=cg, view="EView"), workers=1, tag="c15gen", timeout=1500)
        rep.add_tlc(g, f"Checkpointing generation #{i} (VIEW EView)")
        G = graph.Graph(g.emitted)
        roots = G.roots()
        if len(roots) != 1:
            raise tlc.MachineryError(f"state graph has {len(roots)} roots")
        res = graph.cover(G, roots[0], AssessAdapter, a_step, a_project, clone=a_clone)
        rep.traces += res["edges_tested"]
        rep.evaluations += res["edges_tested"]
        if res["edges_tested"] != G.n_edges and not res["violations"]:
            raise tlc.MachineryError(f"only {res['edges_tested']} of {G.n_edges} transitions were replayed")
        for v in res["violations"]:
            rep.violation(a_key(v), f"{FN}: {v['what']} after {len(v['path'])} steps", {"kind": "assess", "path": v["path"], "detail": v["detail"]})
        calls = [e for e in g.emitted if e["op"] == "EpisodeEnd"]
        rep.distinct += len({graph.canon([e["pre"], e["args"]]) for e in calls if e["pre"]["ts"] > 0 or e["exp"]["switch"] or e["pre"]["bestMin"] > -200000000})
        br = {}
        for e in calls:
            k = e["exp"]["branch"] + ("+switch" if e["exp"]["switch"] else "")
            br[k] = br.get(k, 0) + 1
        rep.extra.setdefault("assess_calls_by_branch", []).append(br)
        for need in ("continue", "cut_short", "update", "cut_short+switch", "update+switch"):
            if not br.get(need):
                raise tlc.MachineryError(f"generated graph never takes branch {need}")
        if i == 0:
            pick = [e for e in calls if e["exp"]["switch"] and e["pre"]["eps"] > 0][:1] + [e for e in calls if e["exp"]["branch"] == "cut_short" and e["pre"]["eps"] > 0][:1]
            for e in pick:
                rep.sample({"assess": e})
        graphs.append((G, g.emitted))
    return graphs


def canaries_a(graphs, workers, found=False):
    c = dict(Lens={1, 2}, Rets=tlc.Subst("RetsQuick"), MaxEpsSet={1, 2}, ThreshSet={0, 2, 3}, RW2Set={1, 2}, Epoch0Set={0}, MaxHist=4, EMIT=False)
    for nxt, inv, prop in (("NextNoReset", "Conservation", None), ("NextLeq", None, "CutShortExactly"), ("NextOrigSwitch", "SwitchOnce", None)):
        r = tlc.run(
            "Checkpointing",
            tlc.cfg_text(next=nxt, constants=c, invariants=[inv] if inv else [], properties=[prop] if prop else []),
            workers=workers,
            tag="c15bad",
        )
        want = inv or prop
        if not r.violated or want not in r.violated:
            raise tlc.MachineryError(f"canary: deviation {nxt} not refuted by {want} (got {r.violated})")
    # binding canary: one corrupted expected value / one corrupted post-state field must be noticed
    # (not applicable when the replay already reported mismatches: the comparison is evidently alive)
    if graphs and not found:
        emitted = graphs[0][1]
        for corrupt in ("exp", "post"):
            sub, done = [], False
            for e in emitted[:400]:
                e = copy.deepcopy(e)
                if not done and e["op"] == "EpisodeEnd" and e["exp"]["train"] > 0:
                    if corrupt == "exp":
                        e["exp"]["train"] += 1
                        e["post"]["out"]["train"] += 1
                    else:
                        e["post"]["ts"] += 1
                    done = True
                sub.append(e)
            G = graph.Graph(sub)
            res = graph.cover(G, G.roots()[0], AssessAdapter, a_step, a_project, clone=a_clone)
            if not done or len(res["violations"]) != 1:
                raise tlc.MachineryError(f"binding canary: corrupted {corrupt} value not noticed by the replay")


# ------------------------------------------------------------------ part B
def digest(module):
    import jax
    import numpy as np
    from flax import nnx

    h = hashlib.sha1()
    for x in jax.tree_util.tree_leaves(nnx.state(module, nnx.Param)):
        h.update(np.asarray(x).tobytes())
    return h.hexdigest()


def make_env(episodes, log):
    import gymnasium as gym
    import numpy as np

    class LoggedBox(gym.spaces.Box):
        def sample(self, *a, **k):
            log.append({"k": "random_action"})
            return super().sample(*a, **k)

    class ScriptEnv(gym.Env):
        """Episode lengths, endings and rewards follow a script; actions are ignored."""

        def __init__(self):
            self.observation_space = gym.spaces.Box(-1.0, 1.0, (2,), np.float32)
            self.action_space = LoggedBox(-1.0, 1.0, (1,), np.float32)
            self.ep = -1
            self.t = 0

        def _obs(self):
            return np.array([((self.ep % 8) - 4) / 8.0, (self.t - 2) / 4.0], np.float32)

        def reset(self, *, seed=None, options=None):
            super().reset(seed=seed)
            self.ep += 1
            self.t = 0
            log.append({"k": "reset", "ep": self.ep})
            return self._obs(), {}

        def step(self, action):
            ln, ret, how = episodes[self.ep] if self.ep < len(episodes) else (10**6, 0, "terminated")
            self.t += 1
            if self.t > ln:
                log.append({"k": "late_step", "ep": self.ep})
                return self._obs(), 0.0, True, False, {}
            # integer rewards: 1 on every step but the last, the remainder on the last
            reward = 1.0 if self.t < ln else float(ret - (ln - 1))
            end = self.t == ln
            log.append({"k": "step", "ep": self.ep, "t": self.t, "reward": reward, "end": end})
            return self._obs(), reward, end and how == "terminated", end and how == "truncated", {}

    return ScriptEnv()


def run_td7(sc):
    """One real train_td7 run under observation; returns the chronological log."""
    from flax import nnx

    import rl_blox.algorithm.td7 as td7
    from rl_blox.blox.replay_buffer import LAP
    from rl_blox.logging.logger import LoggerBase

    log = []
    env = make_env(sc["episodes"], log)

    class RecLAP(LAP):
        def add_sample(self, **kw):
            log.append({"k": "add"})
            return super().add_sample(**kw)

        def sample_batch(self, *a, **k):
            log.append({"k": "sample"})
            return super().sample_batch(*a, **k)

        def update_priority(self, *a, **k):
            log.append({"k": "prio"})
            return super().update_priority(*a, **k)

    holder = {"policies": []}

    class RecLogger(LoggerBase):
        def start_new_episode(self):
            log.append({"k": "start_episode"})

        def stop_episode(self, total_steps):
            ck = holder.get("checkpoint")
            log.append({"k": "stop_episode", "steps": total_steps, "ckpt": [digest(ck.actor), digest(ck.embedding)] if ck is not None else ["?", "?"]})

        def define_experiment(self, env_name=None, algorithm_name=None, hparams=None):
            pass

        def record_stat(self, key, value, episode=None, step=None, t=None, verbose=None, format_str="{0:.3f}"):
            if key == "training steps":
                log.append({"k": "stat_training_steps", "value": value, "step": step})

        def record_epoch(self, key, value, episode=None, step=None, t=None):
            if key in ("actor_checkpoint", "fixed_embedding_checkpoint"):
                log.append({"k": "epoch_" + key, "step": step})

    st = td7.create_td7_state(
        env,
        n_embedding_dimensions=4,
        state_embedding_hidden_nodes=(4,),
        state_action_embedding_hidden_nodes=(4,),
        policy_sa_encoding_nodes=4,
        policy_hidden_nodes=(4,),
        q_sa_encoding_nodes=4,
        q_hidden_nodes=(4,),
        # large steps: every training iteration visibly changes the parameters
        embedding_learning_rate=1e-2,
        policy_learning_rate=1e-2,
        q_learning_rate=1e-2,
        seed=sc["seed"],
    )
    actor_target = nnx.clone(st.actor)
    critic_target = nnx.clone(st.critic)

    real_assess = td7.assess_performance_and_checkpoint
    real_hard = td7.hard_target_net_update
    real_policy = td7.DeterministicSALEPolicy

    def find_roles():
        for p in holder["policies"]:
            if p.actor is st.actor:
                holder["policy"] = p
            elif p.actor is actor_target:
                holder["target"] = p
            else:
                holder["checkpoint"] = p

    def rec_policy(embedding, actor):
        p = real_policy(embedding, actor)
        holder["policies"].append(p)
        find_roles()
        if holder.get("checkpoint") is p:
            log.append({"k": "ckpt_created", "ckpt": [digest(p.actor), digest(p.embedding)]})
        return p

    def rec_assess(state, steps_per_episode, episode_return, epoch, reset_weight, max_episodes, steps_before):
        pol = holder.get("policy")
        entry = {
            "k": "assess",
            "len": steps_per_episode,
            "ret": float(episode_return),
            "epoch": epoch,
            "rw": float(reset_weight),
            "maxEps": max_episodes,
            "thresh": steps_before,
            "policy": [digest(pol.actor), digest(pol.embedding)] if pol is not None else ["-", "-"],
        }
        try:
            res = real_assess(state, steps_per_episode, episode_return, epoch, reset_weight, max_episodes, steps_before)
        except Exception as ex:  # the code under test raised where the model defines a result
            entry["raised"] = f"{type(ex).__name__}: {ex}"
            log.append(entry)
            raise
        entry["res"] = [res[0], res[1]]
        entry["state"] = dict(state.__dict__)
        log.append(entry)
        return res

    def rec_hard(net, target):
        log.append({"k": "hard_update", "to_ckpt": target is holder.get("checkpoint"), "from_policy": net is holder.get("policy")})
        return real_hard(net, target)

    td7.assess_performance_and_checkpoint = rec_assess
    td7.hard_target_net_update = rec_hard
    td7.DeterministicSALEPolicy = rec_policy
    try:
        result = td7.train_td7(
            env,
            embedding=st.embedding,
            embedding_optimizer=st.embedding_optimizer,
            actor=st.actor,
            actor_optimizer=st.actor_optimizer,
            critic=st.critic,
            critic_optimizer=st.critic_optimizer,
            seed=sc["seed"],
            total_timesteps=sc["total"],
            buffer_size=256,
            target_delay=3,
            policy_delay=2,
            use_checkpoints=True,
            max_episodes_when_checkpointing=sc["maxEps"],
            steps_before_checkpointing=sc["thresh"],
            reset_weight=sc["rw2"] / 2,
            batch_size=sc.get("batch", 4),
            learning_starts=sc["ls"],
            replay_buffer=RecLAP(256),
            actor_target=actor_target,
            critic_target=critic_target,
            logger=RecLogger(),
            global_step=sc["gs"],
            progress_bar=False,
        )
        ck = holder.get("checkpoint")
        log.append({
            "k": "returned",
            "returns_ckpt": bool(ck is not None and result.actor is ck.actor and result.fixed_embedding is ck.embedding),
            "ckpt": [digest(result.actor), digest(result.fixed_embedding)],
            "global_step": int(result.global_step),
        })
    except Exception as ex:
        import traceback

        tb = traceback.extract_tb(ex.__traceback__)
        log.append({"k": "raised", "what": f"{type(ex).__name__} in {tb[-1].name if tb else '?'}: {str(ex)[:200]}"})
    finally:
        td7.assess_performance_and_checkpoint = real_assess
        td7.hard_target_net_update = real_hard
        td7.DeterministicSALEPolicy = real_policy
    return log


BAD = 2**30  # stands for "not representable" in a logged integer field


def _half_or_bad(x):
    try:
        return half(x)
    except Mismatch:
        return BAD


def _int_or_bad(x):
    try:
        return as_int(x, "")
    except Exception:
        return BAD


def trace_of(sc, log):
    """Project the chronological log to the events of CheckpointingTrace (no judgement here)."""
    events = []
    step = sc["gs"]
    ep = None
    last_ckpt = None
    stored = 0  # transitions in the replay buffer (add_sample calls)
    tail = None  # the Release event being filled after an episode end

    def new_ep():
        return {"start": step, "len": 0, "nrand": 0, "ret": 0.0, "early": 0}

    for e in log:
        k = e["k"]
        if k == "ckpt_created":
            last_ckpt = e["ckpt"]
        elif k == "add":
            stored += 1
        elif k == "reset":
            ep, tail = new_ep(), None
        elif k == "random_action":
            if ep is not None and tail is None:
                ep["nrand"] += 1
        elif k == "step":
            if tail is not None:  # a step after the end without reset: start a fresh episode record anyway
                ep, tail = new_ep(), None
            ep["len"] += 1
            ep["ret"] += e["reward"]
            step += 1
            if e["end"]:
                ev = {
                    "ev": "Episode", "start": ep["start"], "len": ep["len"], "nrand": ep["nrand"], "ret": _int_or_bad(ep["ret"]),
                    "early": ep["early"], "assessed": False,
                    "given": {"len": 0, "ret2": 0, "epoch": 0, "rw2": 0, "maxEps": 0, "thresh": 0},
                    "got": {"upd": False, "train": 0},
                    "state": {"eps": 0, "ts": 0, "maxEps": 0, "minRet": 0, "bestMin": 0},
                    "logged": 0,
                }
                tail = {"ev": "Release", "stored": stored + 1, "samples": 0, "prios": 0, "copies": 0, "ckpt_eq": False, "ckpt_changed": False, "assessed_policy": ["-", "-"]}
                events += [ev, tail]
        elif k == "sample":
            if tail is not None:
                tail["samples"] += 1
            elif ep is not None:
                ep["early"] += 1
        elif k == "prio":
            if tail is not None:
                tail["prios"] += 1
        elif k == "assess" and tail is not None:
            ev = events[-2]
            ev["assessed"] = True
            ev["given"] = {
                "len": _int_or_bad(e["len"]), "ret2": _half_or_bad(e["ret"]), "epoch": _int_or_bad(e["epoch"]),
                "rw2": _half_or_bad(e["rw"]),
                "maxEps": _int_or_bad(e["maxEps"]), "thresh": _int_or_bad(e["thresh"]),
            }
            if "res" in e:
                ev["got"] = {"upd": bool(e["res"][0]), "train": _int_or_bad(e["res"][1])}
                s = e["state"]
                ev["state"] = {
                    "eps": _int_or_bad(s["episodes_since_udpate"]), "ts": _int_or_bad(s["timesteps_since_upate"]),
                    "maxEps": _int_or_bad(s["max_episodes_before_update"]),
                    "minRet": _half_or_bad(s["min_return"]), "bestMin": _half_or_bad(s["best_min_return"]),
                }
            tail["assessed_policy"] = e["policy"]
        elif k == "hard_update" and tail is not None and e["to_ckpt"]:
            tail["copies"] += 1 if e["from_policy"] else 100
        elif k == "stat_training_steps" and tail is not None:
            events[-2]["logged"] = _int_or_bad(e["value"])
        elif k == "stop_episode" and tail is not None:
            tail["ckpt_changed"] = e["ckpt"] != last_ckpt
            tail["ckpt_eq"] = e["ckpt"] == tail["assessed_policy"]
            last_ckpt = e["ckpt"]
        elif k == "returned":
            partial = ep["early"] if (ep is not None and tail is None) else 0  # iterations inside an unfinished last episode
            events.append({"ev": "End", "returns_ckpt": bool(e["returns_ckpt"] and e["ckpt"] == last_ckpt), "samples": partial, "steps": step})
        elif k == "raised":
            events.append({"ev": "Raised", "what": e["what"]})
    for ev in events:
        ev.pop("assessed_policy", None)
    return {"cfg": {"maxEps": sc["maxEps"], "thresh": sc["thresh"], "rw2": sc["rw2"], "ls": sc["ls"], "gs": sc["gs"]}, "events": events}


_VERDICT = re.compile(r'^<<"(ACCEPT|REJECT)", (\d+), (-?\d+), (.*)>>$')


def validate(traces, straddle_full, rep=None, name="trace validation"):
    """Batched validation by CheckpointingTrace; returns {tid: ("ACCEPT"|"REJECT", position, clauses/info)}."""
    os.makedirs(TMP, exist_ok=True)
    path = os.path.join(TMP, f"c15-traces-{os.getpid()}-{time.time_ns()}.json")
    with open(path, "w") as f:
        json.dump(traces, f)
    c = dict(
        Lens={1}, Rets={1}, MaxEpsSet={1}, ThreshSet={0}, RW2Set={2}, Epoch0Set={0}, MaxHist=100000, EMIT=False, StraddleFull=straddle_full,
    )
    try:
        r = tlc.run(
            "CheckpointingTrace",
            tlc.cfg_text(init="TInit", next="TNext", constants=c, invariants=["TraceConservation", "TraceSwitchOnce"]),
            workers=1, env={"TRACE_FILE": path}, tag="c15trace",
        )
    finally:
        try:
            os.remove(path)
        except OSError:
            pass
    if rep is not None:
        rep.add_tlc(r, name)
    out = {}
    if not r.ok:
        return {"violated": r.violated, "error_trace": r.error_trace}
    for line in r.printed:
        m = _VERDICT.match(line)
        if m:
            clauses = sorted(re.findall(r"[A-Za-z]+", m.group(4))) if m.group(1) == "REJECT" else m.group(4)
            out[int(m.group(2))] = (m.group(1), int(m.group(3)), clauses)
    missing = [i for i in range(1, len(traces) + 1) if i not in out]
    if missing:
        raise tlc.MachineryError(f"trace validation gave no verdict for traces {missing}")
    return out


# fixed script: every branch (skip, update, cut short, continue, switch, long window), aligned with learning_starts
FIXED = [(2, 1, "terminated"), (4, 0, "truncated"), (3, 1, "terminated"), (2, 0, "terminated"), (2, 3, "truncated"), (1, 2, "terminated"),
         (3, 2, "terminated"), (2, 3, "terminated"), (1, 1, "truncated"), (2, 5, "terminated"), (2, 4, "terminated")]


def scenarios(rep):
    quick = rep.tier == "quick"
    total = sum(e[0] for e in FIXED)
    out = [
        # batch_size 16: the first three releases happen with 9, 11, 13 stored transitions (< batch_size), the later ones with >= 17
        dict(name="fixed-aligned", episodes=FIXED, ls=6, gs=0, maxEps=2, thresh=6, rw2=1, total=total, seed=1, batch=16),
        dict(name="fixed-straddle", episodes=FIXED, ls=5, gs=0, maxEps=2, thresh=6, rw2=1, total=total, seed=1, batch=4),
        # continued call: global_step 5 > learning_starts 3 > 0, so epoch starts at 2; threshold 4 lies between the true
        # iteration count (2) and count + learning_starts (5): the switch belongs to the first release (2 < 4 <= 5)
        dict(name="fixed-resumed", episodes=FIXED[2:8], ls=3, gs=5, maxEps=2, thresh=4, rw2=1, total=5 + sum(e[0] for e in FIXED[2:8]), seed=2, batch=4),
    ]
    rng = random.Random(rep.seed)
    for i in range(1 if quick else 8):
        n = rng.randint(9, 14)
        level = 0
        eps = []
        for _ in range(n):
            level += rng.choice([0, 0, 1])
            eps.append((rng.randint(1, 4), level + rng.choice([-2, -1, 0, 0, 1]), rng.choice(["terminated", "truncated"])))
        steps = sum(e[0] for e in eps)
        aligned = rng.random() < 0.5
        bounds = [0]
        for e in eps[:4]:
            bounds.append(bounds[-1] + e[0])
        ls = rng.choice(bounds) if aligned else rng.randint(0, bounds[-1])
        gs = 0
        if not quick and i in (5, 7):  # resumed run: epoch starts at global_step - learning_starts
            ls, gs = 2, 2 + rng.randint(1, 3)
        out.append(dict(
            name=f"random-{i}", episodes=eps, ls=ls, gs=gs, maxEps=rng.randint(1, 3), thresh=rng.randint(0, 12), rw2=rng.choice([1, 2]),
            # sometimes stop in the middle of an episode / of a window
            total=gs + (steps if rng.random() < 0.6 else steps - rng.randint(1, 3)), seed=rng.randint(0, 10**6),
            batch=rng.choice([4, 16, 32]),
        ))
    return out


STRADDLE_KEY = "train_td7:straddling_episode_releases_steps_before_learning_starts"


def straddle_index(tr):
    ls = tr["cfg"]["ls"]
    for i, ev in enumerate(tr["events"]):
        if ev["ev"] == "Episode" and ev["start"] < ls < ev["start"] + ev["len"]:
            return i + 1
    return None


def judge_traces(rep, scs, traces):
    """doc reading first; a rejection of the straddling episode gets its own key and the
    rest of that trace is validated under the whole-episode reading."""
    raised = [(sc, tr) for sc, tr in zip(scs, traces) if any(ev["ev"] == "Raised" for ev in tr["events"])]
    for sc, tr in raised:
        what = [ev["what"] for ev in tr["events"] if ev["ev"] == "Raised"][0]
        rep.violation("train_td7:exception", f"train_td7 raised in scenario {sc['name']}: {what}", {"kind": "td7", "scenario": sc})
    ok = [(sc, tr) for sc, tr in zip(scs, traces) if (sc, tr) not in raised]
    if not ok:
        return {}
    stats = {"accepted_doc": 0, "accepted_full_only": 0, "events": sum(len(tr["events"]) for _, tr in ok)}
    # Coordinator decision: the property speaks of "the environment steps collected during that window";
    # the episode that straddles learning_starts is collected in full, so the whole-episode reading
    # (StraddleFull = TRUE) is the property's reading.  The stricter "documented" reading would demand
    # more than the property states (false alarm) and is not used for the verdict.
    v = validate([tr for _, tr in ok], True, rep, f"CheckpointingTrace, whole-episode reading, {len(ok)} traces")
    if "violated" in v:
        rep.violation(f"spec:CheckpointingTrace:{v['violated']}", "model invariant violated along a recorded trace", v["error_trace"])
        return stats
    again = []
    for i, (sc, tr) in enumerate(ok, 1):
        verdict, pos, info = v[i]
        if verdict == "ACCEPT":
            stats["accepted_doc"] += 1
            continue
        ev = tr["events"][pos - 1]
        if False and pos == straddle_index(tr) and "GivenLen" in info:
            nr = ev["nrand"]
            rep.violation(
                STRADDLE_KEY,
                f"scenario {sc['name']}: the episode that straddles learning_starts={sc['ls']} (starts at step {ev['start']}, length {ev['len']}, {nr} random steps before learning started) "
                f"is handed to the assessment with steps_per_episode={ev['given']['len']} and releases {ev['got']['train']} training iterations; "
                f"{ev['len'] - nr} steps were taken after learning started (failing clauses {info})",
                {"kind": "td7", "scenario": sc, "position": pos, "clauses": info, "straddle_full": False},
            )
            again.append((sc, tr))
        else:
            rep.violation(
                f"train_td7:{ev['ev']}:{info[0]}",
                f"scenario {sc['name']}: event {pos} ({ev['ev']}) rejected, failing clauses {info}: {json.dumps(ev)[:400]}",
                {"kind": "td7", "scenario": sc, "position": pos, "clauses": info, "straddle_full": True},
            )
    if again:
        v2 = validate([tr for _, tr in again], True, rep, f"CheckpointingTrace, whole-episode reading, {len(again)} traces")
        if "violated" in v2:
            rep.violation(f"spec:CheckpointingTrace:{v2['violated']}", "model invariant violated along a recorded trace", v2["error_trace"])
            return stats
        for i, (sc, tr) in enumerate(again, 1):
            verdict, pos, info = v2[i]
            if verdict == "ACCEPT":
                stats["accepted_full_only"] += 1
                continue
            ev = tr["events"][pos - 1]
            rep.violation(
                f"train_td7:{ev['ev']}:{info[0]}",
                f"scenario {sc['name']}: event {pos} ({ev['ev']}) rejected, failing clauses {info}: {json.dumps(ev)[:400]}",
                {"kind": "td7", "scenario": sc, "position": pos, "clauses": info, "straddle_full": True},
            )
    return stats


def trace_vacuity(scs, traces):
    """The fixed scenario must exercise every kind of event (otherwise the trace check is vacuous)."""
    tr = traces[0]
    eps = [e for e in tr["events"] if e["ev"] == "Episode"]
    rel = [e for e in tr["events"] if e["ev"] == "Release"]
    facts = {
        "skipped episode": any(not e["assessed"] for e in eps),
        "update": any(e["got"]["upd"] for e in eps),
        "cut short": any(e["got"]["train"] > 0 and not e["got"]["upd"] for e in eps),
        "window continues": any(e["assessed"] and e["got"]["train"] == 0 for e in eps),
        "long window": any(e["state"]["maxEps"] > 1 for e in eps),
        "iterations": sum(r["samples"] for r in rel) >= 10,
        "release with fewer stored transitions than batch_size": any(r["samples"] > 0 and r["stored"] < scs[0].get("batch", 4) for r in rel),
        "release with at least batch_size stored transitions": any(r["samples"] > 0 and r["stored"] >= scs[0].get("batch", 4) for r in rel),
        "copy": any(r["copies"] == 1 for r in rel),
        "end": tr["events"][-1]["ev"] == "End",
    }
    missing = [k for k, ok in facts.items() if not ok]
    if missing and not any(e["ev"] == "Raised" for e in tr["events"]):
        return missing
    return []


def canary_b(traces):
    """Binding canary: single corrupted recorded fields must be rejected with the right clause."""
    base = traces[0]
    if base["events"][-1]["ev"] != "End":
        return
    muts = []
    for field, clause in (("samples", "Iterations"), ("copies", "CopyIffUpdate")):
        t = copy.deepcopy(base)
        for ev in t["events"]:
            if ev["ev"] == "Release" and ev["samples"] > 0:
                ev[field] += 1
                break
        muts.append((t, clause))
    t = copy.deepcopy(base)
    for ev in t["events"]:
        if ev["ev"] == "Episode" and ev["assessed"]:
            ev["given"]["epoch"] += 1
            break
    muts.append((t, "GivenEpoch"))
    v = validate([base] + [m[0] for m in muts], True)
    if "violated" in v or v[1][0] != "ACCEPT":
        return  # the base trace itself is not accepted (a violation reported elsewhere); canary not applicable
    for i, (_, clause) in enumerate(muts, 2):
        if v[i][0] != "REJECT" or clause not in v[i][2]:
            raise tlc.MachineryError(f"binding canary: corrupted trace field not rejected by clause {clause}: {v[i]}")


def part_b(rep):
    scs = scenarios(rep)
    traces = []
    t0 = time.time()
    for sc in scs:
        log = run_td7(sc)
        traces.append(trace_of(sc, log))
    rep.extra["td7_runs"] = [
        {"name": sc["name"], "ls": sc["ls"], "gs": sc["gs"], "maxEps": sc["maxEps"], "thresh": sc["thresh"], "rw2": sc["rw2"], "batch": sc.get("batch", 4), "steps": sc["total"] - sc["gs"],
         "episodes": sum(1 for e in tr["events"] if e["ev"] == "Episode"), "iterations": sum(e.get("samples", 0) for e in tr["events"] if e["ev"] == "Release")}
        for sc, tr in zip(scs, traces)
    ]
    rep.extra["td7_wall_s"] = round(time.time() - t0, 1)
    missing = trace_vacuity(scs, traces)
    stats = judge_traces(rep, scs, traces)
    if missing and not rep.violations:
        raise tlc.MachineryError(f"fixed scenario does not exercise: {missing}")
    canary_b(traces)
    rep.extra["trace_validation"] = stats
    n_ep = sum(1 for tr in traces for e in tr["events"] if e["ev"] == "Episode")
    rep.traces += len(traces)
    rep.evaluations += sum(len(tr["events"]) for tr in traces)
    rep.distinct += sum(1 for tr in traces for e in tr["events"] if e["ev"] == "Episode" and e["assessed"])
    ex = [e for e in traces[0]["events"] if e["ev"] == "Episode" and e["got"]["upd"]][:1]
    if ex:
        rep.sample({"td7_trace_event": ex[0], "cfg": traces[0]["cfg"]})
    return n_ep


def run(rep):
    quick = rep.tier == "quick"
    workers = int(os.environ.get("VERIF_TLC_WORKERS", "16"))
    tlc.sany("Checkpointing")
    tlc.sany("CheckpointingTrace")
    rep.rule = (
        "(A) TLC enumerates every history of <= %d episodes over lengths 1-3 x returns {-2,0,1,3} for every configuration (window 1-3, threshold 0-6, reset weight 1/2 or 1); "
        "each transition of the observable state graph (distinct CheckpointState + epoch + configuration, episode length, return) is replayed once into the real "
        "assess_performance_and_checkpoint; a call is non-trivial when the window is non-empty, a checkpoint exists or the switch is taken. "
        "(B) scripted train_td7 runs (fixed script covering every branch, aligned and straddling learning_starts, batch_size 16 so that releases happen both with fewer and with more stored transitions than batch_size, plus VERIF_SEED-random scripts with batch_size 4/16/32); every episode end and "
        "release of each run is one validated trace event" % (5 if quick else 7)
    )
    graphs = part_a(rep, workers)
    canaries_a(graphs, min(workers, 4), found=any(v["key"].startswith(FN) for v in rep.violations))
    part_b(rep)
    rep.exhaustive = True
    rep.assumptions += [
        "histories longer than the bound and returns outside the small set are not explored (the function only compares and adds)",
        "returns are multiples of 1/2 and reset weights 1/2, 1, 2, so float arithmetic in best_min_return *= reset_weight is exact; other weights are not exercised",
        "train_td7 is observed through a LAP subclass, a LoggerBase subclass and interposed module-level names of rl_blox.algorithm.td7 (assess_performance_and_checkpoint, hard_target_net_update, DeterministicSALEPolicy); one sample_batch + one update_priority = one training iteration",
        "documented reading of learning_starts: no training is due for steps with index < learning_starts; the whole-episode reading is used only to keep validating after that clause failed",
        "trusted: TLC, harness/drivers/c15.py projection (half units, parameter digests)",
    ]


def replay(path, rep):
    d = json.load(open(path))
    r = d["replay"]
    if isinstance(r, dict) and r.get("kind") == "assess":
        ad = AssessAdapter()
        try:
            for st in r["path"]:
                a_step(ad, st["op"], st["args"], st.get("exp"), None, None)
                print(st["op"], st["args"], "->", a_project(ad))
        except Mismatch as m:
            print("VIOLATION property=C15 replay=" + path)
            print("  ", m.what)
            return 1
        except Exception as ex:
            print("VIOLATION property=C15 replay=" + path)
            print("   exception", type(ex).__name__, ex)
            return 1
        print("model post-state of the failing step was:", r.get("detail", {}).get("want"))
        got = a_project(ad)
        want = r.get("detail", {}).get("want")
        if want is not None and graph.canon(got) != graph.canon(want):
            print("VIOLATION property=C15 replay=" + path)
            print("   state after the last step differs from the model:", got)
            return 1
        return 0
    if isinstance(r, dict) and r.get("kind") == "td7":
        sc = r["scenario"]
        sc["episodes"] = [tuple(e) for e in sc["episodes"]]
        tr = trace_of(sc, run_td7(sc))
        for ev in tr["events"]:
            print(json.dumps(ev))
        if any(ev["ev"] == "Raised" for ev in tr["events"]):
            print("VIOLATION property=C15 replay=" + path)
            return 1
        v = validate([tr], bool(r.get("straddle_full")))
        print("verdict:", v)
        if "violated" in v or v[1][0] != "ACCEPT":
            print("VIOLATION property=C15 replay=" + path)
            return 1
        return 0
    print("design-level (specification) violation; TLC error trace:")
    print(r)
    print("VIOLATION property=C15 replay=" + path)
    return 1
