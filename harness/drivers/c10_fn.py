"""C10, function-level clauses - computed actions respect the action-space bounds.

spec/BoundsOps.tla  the arithmetic (exact rationals, D2) of scale_output, sample_actions,
                    sample_target_actions, cem_sample, cem_update and their realistic wrong variants
spec/Bounds.tla     staged choice of one sampler test vector; invariants ExploreInBox, SmoothInBox,
                    PolicyInBox, PolicyFaces, SmoothNoiseBounded, ExploreEquation, SmoothEquation, ...
spec/BoundsCem.tla  the same for the cross-entropy planner (CandidateInBox, NewMeanInBox, ...)
spec/BoundsFacts.tla order predicates on float32 ordinals (D4) over tables recorded from the real code

Binding (spec -> code).  The standard-normal draw of a sampler is key-determined: the harness
calls jax.random.normal / jax.random.truncated_normal itself with the key and shape the sampler
will use, converts the float32 draws to exact rationals and hands them to TLC (environment
variable C10_NOISE); TLC computes, for every (box, levels, policy output, draw), the exact action;
the real sampler is called with that key and compared.  float32 evaluates
`a + sigma*s*n` with at most two roundings (the product, the sum); the comparison allows half an
ulp of each (counted, absolute), clipped components must be equal.  Rows of a draw whose
rationals do not fit TLC's 32-bit integers are only checked against the bounds (BoundsFacts).

The coordinator's driver calls run_fn(rep) and replay_fn(replay_obj, rep).
VERIF_TLC_WORKERS caps the TLC workers (default 16).
"""
from __future__ import annotations

import json
import math
import os
import time
import traceback
from fractions import Fraction

import numpy as np

from .. import exact, tlc

ALL_BOXES = ["sym1", "asym1", "pos1", "neg1", "tiny1", "huge1", "hugeasym1", "mix2", "wide3", "mix3", "sym3"]
QUICK_BOXES = ["asym1", "pos1", "tiny1", "hugeasym1", "mix2", "mix3"]
SAMPLER_INVS = ["TypeOK", "ExploreInBox", "SmoothInBox", "PolicyInBox", "PolicyFaces", "SmoothNoiseBounded",
                "ExploreEquation", "SmoothEquation", "ClipIsProjection", "NoNoiseIsPolicy"]
# deviation -> (boxes, the invariant that must refute it)
SAMPLER_CANARIES = {
    "clip_unscaled": (["pos1"], "SmoothNoiseBounded"),   # noise clipped at c instead of c*s
    "unit_box": (["pos1"], "ExploreInBox"),               # final clip to [-1, 1] instead of [low, high]
    "full_range": (["sym1"], "ExploreEquation"),         # noise scaled by high-low instead of half of it
    "no_outer_clip": (["sym1"], "SmoothInBox"),
}
SAT = {"zero": 0.0, "pos9": 9.0, "neg9": -9.0, "pos40": 40.0, "neg40": -40.0, "pos2p60": 2.0**60, "neg2p60": -(2.0**60),
       "posinf": float("inf"), "neginf": float("-inf")}
BATCH = 16
DEN_MAX = 2**23  # draws with a larger denominator do not fit TLC's integers after scaling


def _workers():
    return max(1, min(16, int(os.environ.get("VERIF_TLC_WORKERS", "16") or 16)))


# ------------------------------------------------------------------ exact helpers
def fr(v) -> Fraction:
    return Fraction(float(v))


def qf(x, e=0) -> Fraction:
    """TLC rational [num, den] at unit scale, times 2^e."""
    return Fraction(int(x[0]), int(x[1])) * (Fraction(2) ** int(e))


def ulp_at(x: Fraction) -> Fraction:
    """float32 spacing in the binade of |x| (normal range)."""
    x = abs(x)
    if x == 0:
        return Fraction(0)
    k = x.numerator.bit_length() - x.denominator.bit_length()
    if Fraction(2) ** k > x:
        k -= 1
    return Fraction(2) ** (k - 23)


def representable(x: Fraction) -> bool:
    return x == 0 or Fraction(float(np.float32(float(x)))) == x


def f32(x: Fraction):
    return np.float32(float(x))


def qualifies(row) -> bool:
    for v in row:
        f = fr(v)
        if f.denominator > DEN_MAX or abs(f) >= 4:
            return False
    return True


def ratio(v):
    f = fr(v)
    return [f.numerator, f.denominator]


# ------------------------------------------------------------------ real objects
class _Lazy:
    """jax / rl_blox imports (slow) happen once, after the first TLC runs were started."""

    def __init__(self):
        self.ready = False

    def load(self):
        if self.ready:
            return self
        import gymnasium as gym
        import jax
        import jax.numpy as jnp
        from flax import nnx

        from rl_blox.algorithm import ddpg, td3
        from rl_blox.blox import cross_entropy_method as cem
        from rl_blox.blox.function_approximator.policy_head import DeterministicTanhPolicy

        class Ident(nnx.Module):
            """The 'network': returns its input, so the observation IS the pre-activation / the action."""

            def __call__(self, x):
                return x

        self.gym, self.jax, self.jnp, self.nnx = gym, jax, jnp, nnx
        self.ddpg, self.td3, self.cem = ddpg, td3, cem
        self.Tanh, self.Ident = DeterministicTanhPolicy, Ident
        self.ready = True
        return self


L = _Lazy()


def make_key(seed, kid):
    return L.jax.random.fold_in(L.jax.random.key(int(seed) % (2**31)), int(kid))


def space_of(dims):
    lo = np.asarray([float(qf(d["lo"], d["e"])) for d in dims], dtype=np.float32)
    hi = np.asarray([float(qf(d["hi"], d["e"])) for d in dims], dtype=np.float32)
    for d, a, b in zip(dims, lo, hi):
        if fr(a) != qf(d["lo"], d["e"]) or fr(b) != qf(d["hi"], d["e"]):
            raise tlc.MachineryError("a lattice bound is not a float32")
    return L.gym.spaces.Box(low=lo, high=hi, dtype=np.float32)


def unjitted(f):
    """The functools.partial a make_* factory built (its bound arguments are the factory's work)."""
    return getattr(f, "__wrapped__", None)


# ------------------------------------------------------------------ the draws
def noise_calls(seed, dims_wanted, quick):
    """Real draws of jax.random.normal.  One batched call (BATCH, d) and one unbatched call (d,) per
    dimension count; keys are scanned (deterministically from the seed) until enough rows fit TLC."""
    jr = L.jax.random
    calls, entries = [], []
    kid = 0
    for d in dims_wanted:
        for shape, want in [((BATCH, d), 3), ((d,), 1)] if quick else [((BATCH, d), 4), ((BATCH, d), 4), ((d,), 1), ((d,), 1)]:
            for _ in range(400):
                kid += 1
                n = np.asarray(jr.normal(make_key(seed, kid), shape), dtype=np.float32)
                rows = n.reshape(-1, d)
                good = [i for i in range(rows.shape[0]) if qualifies(rows[i])]
                if len(good) >= want:
                    break
            else:  # pragma: no cover
                raise tlc.MachineryError("no key with enough exactly representable draws found")
            ci = len(calls)
            calls.append({"kid": kid, "shape": list(shape), "dim": d, "n": n, "rows": good[:want]})
            for i in good[:want]:
                entries.append({"id": len(entries), "dim": d, "n": [ratio(v) for v in rows[i]], "call": ci, "row": i})
    return calls, entries


def write_json(obj, name):
    os.makedirs(os.path.join(tlc.OUT, "tmp"), exist_ok=True)
    path = os.path.join(tlc.OUT, "tmp", f"c10-{name}-{os.getpid()}.json")
    with open(path, "w") as f:
        json.dump(obj, f)
    return path


# ------------------------------------------------------------------ samplers: comparison
class Mismatch(Exception):
    def __init__(self, key, what):
        super().__init__(what)
        self.key, self.what = key, what


def within(v, X: Fraction, slack: Fraction) -> bool:
    """|v - X| <= slack + half an ulp of the result (the final float32 rounding)."""
    if not np.isfinite(v):
        return False
    r = ulp_at(abs(X) + slack) / 2
    return abs(fr(v) - X) <= slack + r


def product_slack(P: Fraction) -> Fraction:
    """rounding of sigma*s*n: none if the exact product is a float32, else half an ulp of it"""
    return Fraction(0) if representable(P) else ulp_at(P) / 2


def obs_for(vec, batch):
    """Observation that makes the stub network return TLC's policy output."""
    if vec["kind"] == "tanh":
        row = [SAT[y] for y in vec["y"]]
    else:
        row = [float(qf(a, d["e"])) for a, d in zip(vec["action"], vec["dims"])]
    o = np.asarray(row, dtype=np.float32)
    return np.broadcast_to(o, (batch, len(row))).copy() if batch else o


class SamplerBench:
    """The real samplers for one (box, sigma, c): built by the code's own factories."""

    def __init__(self, dims, sigma, c, space=None):
        self.dims = dims
        self.space = space_of(dims) if space is None else space
        self.sigma, self.c = (float(qf(sigma)), float(qf(c))) if space is None else (float(sigma), float(c))
        self.fe = L.ddpg.make_sample_actions(self.space, self.sigma)
        self.ft = L.td3.make_sample_target_actions(self.space, self.sigma, self.c)
        self.pol = {"tanh": L.Tanh(L.Ident(), self.space), "direct": L.Ident()}

    def call(self, which, kind, obs, key, jit=False):
        f = self.fe if which == "explore" else self.ft
        g = f if jit or unjitted(f) is None else unjitted(f)
        return np.asarray(g(self.pol[kind], L.jnp.asarray(obs), key), dtype=np.float32)

    def policy(self, kind, obs):
        return np.asarray(self.pol[kind](L.jnp.asarray(obs)), dtype=np.float32)


JIT_ULPS = 3  # jitted samplers: XLA fuses erf_inv * sqrt2 * s * sigma + a and contracts multiply-adds, the draw is not rounded
#               to float32 on the way; measured <= 1.5 ulp of the perturbation over 5e7 values, allowed 3


def check_sampler_row(vec, pol_row, ex_row, sm_row, jit=False):
    """Compare one row of real outputs with TLC's vector; raises Mismatch."""
    for j, d in enumerate(vec["dims"]):
        e = d["e"]
        lo, hi = qf(d["lo"], e), qf(d["hi"], e)
        A = qf(vec["action"][j], e)
        if fr(pol_row[j]) != A if np.isfinite(pol_row[j]) else True:
            cls = "tanh_head" if vec["kind"] == "tanh" else "stub_policy"
            raise Mismatch(f"{cls}:value", f"policy returns {pol_row[j]!r} in dimension {j}, specification {float(A)!r} (pre-activation {vec['y'][j]}, bounds [{float(lo)}, {float(hi)}])")
        P = qf(vec["pert"][j], e)
        X = qf(vec["explore"][j], e)
        v = ex_row[j]
        if not (np.isfinite(v) and lo <= fr(v) <= hi):
            raise Mismatch("sample_actions:out_of_box", f"exploration action {v!r} outside [{float(lo)}, {float(hi)}] (dimension {j})")
        fuse = JIT_ULPS * ulp_at(P) if jit else Fraction(0)
        if not within(v, X, product_slack(P) + fuse):
            site = "interior" if vec["eint"][j] else "clipped"
            raise Mismatch(f"sample_actions:value:{site}", f"exploration action {v!r}, specification {float(X)!r} = clip({float(A)} + {float(qf(vec['sigma']))}*s*{float(qf(vec['n'][j]))}) in dimension {j}, bounds [{float(lo)}, {float(hi)}]")
        C = qf(vec["cpert"][j], e)
        X = qf(vec["smooth"][j], e)
        v = sm_row[j]
        if not (np.isfinite(v) and lo <= fr(v) <= hi):
            raise Mismatch("sample_target_actions:out_of_box", f"smoothed action {v!r} outside [{float(lo)}, {float(hi)}] (dimension {j})")
        slo, shi = qf(vec["slo"][j], e), qf(vec["shi"][j], e)
        if not (slo <= fr(v) <= shi):
            raise Mismatch("sample_target_actions:noise_exceeds_clip", f"smoothed action {v!r} is further than noise_clip*half-range from the policy action {float(A)!r}: allowed [{float(slo)}, {float(shi)}] (dimension {j})")
        if not within(v, X, (product_slack(P) if vec["nint"][j] else Fraction(0)) + fuse):
            site = "interior" if vec["sint"][j] else "clipped"
            raise Mismatch(f"sample_target_actions:value:{site}", f"smoothed action {v!r}, specification {float(X)!r} = clip({float(A)} + {float(C)}) in dimension {j}, bounds [{float(lo)}, {float(hi)}]")


def box_fact(key, tag, lo, hi, values, k=0, how=None):
    """D4 table for BoundsFacts: ordinals of the bounds (widened by k ulp of the larger bound) and the values."""
    lo, hi = np.float32(lo), np.float32(hi)
    if k:
        u = ulp_at(max(abs(fr(lo)), abs(fr(hi))))
        wlo, whi = fr(lo) - k * u, fr(hi) + k * u
        lo = np.float32(float(wlo))
        if fr(lo) > wlo:
            lo = np.nextafter(lo, np.float32(-np.inf))
        hi = np.float32(float(whi))
        if fr(hi) < whi:
            hi = np.nextafter(hi, np.float32(np.inf))
    return {"kind": "box", "key": key, "how": how or {}, "tag": tag, "lo": exact.ord32(lo), "hi": exact.ord32(hi), "k": k, "v": [exact.ord32(x) for x in np.asarray(values, dtype=np.float32).ravel()]}


# ------------------------------------------------------------------ samplers: run
def _gen(module, constants, env, tag):
    c = dict(constants, EMIT=True)
    return tlc.run(module, tlc.cfg_text(constants=c), workers=1, env=env, tag=tag)


def group_key(vec):
    return (vec["box"], tuple(vec["sigma"]), tuple(vec["c"]), vec["kind"], vec["pat"])


def replay_sampler_group(vecs, calls, entries, seed, bench=None, jit=False, facts=None, counters=None):
    """All vectors of one (box, levels, policy output): call the real samplers once per recorded draw
    (same key, same shape), compare the rows TLC has an exact value for, table every row for BoundsFacts.
    Returns a list of (key, what, replay)."""
    v0 = vecs[0]
    bench = bench or SamplerBench(v0["dims"], v0["sigma"], v0["c"])
    out = []
    by_call = {}
    for v in vecs:
        en = entries[v["noise"]]
        by_call.setdefault(en["call"], []).append((en["row"], v))
    for ci, rows in sorted(by_call.items()):
        call = calls[ci]
        batch = call["shape"][0] if len(call["shape"]) == 2 else 0
        obs = obs_for(v0, batch)
        key = make_key(seed, call["kid"])
        rp = {"part": "sampler", "vec": v0, "call": {"kid": call["kid"], "shape": call["shape"]}, "seed": seed, "jit": jit}
        try:
            pol = bench.policy(v0["kind"], obs).reshape(-1, call["dim"])
            ex = bench.call("explore", v0["kind"], obs, key, jit).reshape(-1, call["dim"])
            sm = bench.call("smooth", v0["kind"], obs, key, jit).reshape(-1, call["dim"])
        except Exception as e:  # noqa: BLE001 - the code under test raised where the specification defines a value
            out.append((f"sampler:raises:{type(e).__name__}", f"sampler raises {type(e).__name__}: {e} (box {v0['box']}, shape {call['shape']})", rp))
            continue
        if ex.shape != pol.shape or sm.shape != pol.shape:
            out.append(("sampler:shape", f"sampler output shape {ex.shape}/{sm.shape} differs from the policy's {pol.shape}", rp))
            continue
        for r, v in rows:
            try:
                check_sampler_row(v, pol[r], ex[r], sm[r], jit)
            except Mismatch as m:
                out.append((m.key, f"{m.what} [box {v['box']}, sigma {float(qf(v['sigma']))}, c {float(qf(v['c']))}, key #{call['kid']} shape {call['shape']} row {r}{', jit' if jit else ''}]", dict(rp, vec=v, row=r)))
            if counters is not None:
                counters["rows"] += 1
                if float(qf(v["sigma"])) > 0:
                    counters["noisy"] += 1
                    counters["e_interior"] += sum(map(bool, v["eint"]))
                    counters["e_clipped"] += sum(not b for b in v["eint"])
                    counters["s_interior"] += sum(map(bool, v["sint"]))
                    counters["n_clipped"] += sum(not b for b in v["nint"])
        if facts is not None:
            for j, d in enumerate(v0["dims"]):
                lo, hi = float(qf(d["lo"], d["e"])), float(qf(d["hi"], d["e"]))
                facts.append(box_fact("sample_actions:out_of_box", f"explore {v0['box']}[{j}]", lo, hi, ex[:, j], how=rp))
                facts.append(box_fact("sample_target_actions:out_of_box", f"smooth {v0['box']}[{j}]", lo, hi, sm[:, j], how=rp))
                slo, shi = float(qf(v0["slo"][j], d["e"])), float(qf(v0["shi"][j], d["e"]))
                facts.append(box_fact("sample_target_actions:noise_exceeds_clip", f"smooth-noise {v0['box']}[{j}]", slo, shi, sm[:, j], how=rp))
    return out


def check_facts(facts, tag="facts"):
    path = write_json(facts, tag)
    try:
        return tlc.run("BoundsFacts", tlc.cfg_text(invariants=["WellFormed", "InBoxOrd", "Monotone"]), workers=1, env={"C10_FACTS": path}, tag="boundsfacts")
    finally:
        os.remove(path)


def rejected_table(res):
    """Index of the table TLC's predicate rejects: the value of the counter in the last state of the trace."""
    import re

    m = re.findall(r"\bi = (\d+)", res.error_trace or "")
    if not m:  # pragma: no cover
        raise tlc.MachineryError("cannot find the rejected table in TLC's error trace")
    return int(m[-1]) - 1


def facts_verdicts(rep, facts, name):
    """Run BoundsFacts; one violation per distinct key (tables of a reported key are dropped and TLC re-run)."""
    facts = list(facts)
    n = len(facts)
    for _ in range(12):
        if not facts:
            return n
        r = check_facts(facts)
        if r.ok:
            rep.add_tlc(r, f"BoundsFacts {name}")
            return n
        k = rejected_table(r)
        t = facts[k]
        rep.violation(t["key"], f"{r.violated}: {t['tag']}: values (float32 ordinals) {sorted(set(t['v']))[:3]}..{sorted(set(t['v']))[-3:]} vs bounds [{t['lo']}, {t['hi']}]" + (f" widened by {t['k']} ulp" if t.get("k") else ""), {"part": "fact", "table": t, "how": t.get("how")})
        facts = [x for x in facts if x["key"] != t["key"]]
    raise tlc.MachineryError("more than 12 distinct fact violations")


# ------------------------------------------------------------------ D4 tables: tanh head, default levels, arbitrary boxes
def nasty_spaces(seed, n_random):
    """Boxes whose scale (high-low)/2 and bias (high+low)/2 are rounded in float32, of 1-3 dimensions."""
    rs = np.random.default_rng(seed + 1010)
    f = np.float32
    fixed = [
        ([1.0], [float(np.nextafter(f(1), f(2)))]),           # one ulp wide: bias is not a float32
        ([2.0**-20], [2.0**20]),                              # bounds of very different magnitude
        ([-3.0000002], [0.1]), ([0.1], [0.3]), ([-1e-3], [1e3]), ([-(2.0**100)], [2.0**100]),
        ([-0.4, 0.1, -1e6], [0.4, 0.7, 3e6]),
        ([-2.0, 1e-8], [2.0, 3e-8]),
    ]
    out = [L.gym.spaces.Box(low=np.asarray(a, dtype=f), high=np.asarray(b, dtype=f), dtype=f) for a, b in fixed]
    for _ in range(n_random):
        d = int(rs.integers(1, 4))
        lo = (rs.normal(size=d) * 10.0 ** rs.integers(-3, 4, size=d)).astype(f)
        hi = (lo.astype(np.float64) + np.abs(rs.normal(size=d)) * 10.0 ** rs.integers(-4, 4, size=d)).astype(f)
        hi = np.where(hi > lo, hi, np.nextafter(lo, f(np.inf))).astype(f)
        out.append(L.gym.spaces.Box(low=lo, high=hi, dtype=f))
    return out


def y_sweep(seed, n_random):
    rs = np.random.default_rng(seed + 2020)
    pos = [0.0, 1e-45, 1e-30, 1e-3, 0.25, 0.5, 1.0, 2.0, 4.0, 7.0, 8.0, 9.0, 9.5, 20.0, 40.0, 1e10, 2.0**60, 3e38, float("inf")]
    fixed = sorted(set(pos) | {-v for v in pos})  # well separated: the order of the outputs is decided by tanh, not by its last bit
    return np.asarray(fixed + [float(np.float32(v)) for v in rs.normal(size=n_random) * 3], dtype=np.float32), len(fixed)


def tanh_tables(seed, quick, facts):
    """DeterministicTanhPolicy on arbitrary boxes x a sweep of pre-activations: inside the box up to
    2 ulp of the larger bound (the three roundings of scale, bias, product-sum), monotone in y."""
    ys, n_fixed = y_sweep(seed, 16 if quick else 64)
    n = 0
    for sp in nasty_spaces(seed, 8 if quick else 40):
        d = sp.shape[0]
        pol = L.Tanh(L.Ident(), sp)
        obs = L.jnp.asarray(np.broadcast_to(ys[:, None], (len(ys), d)).copy())
        how = {"part": "tanh", "seed": seed, "quick": quick, "low": [float(x) for x in sp.low], "high": [float(x) for x in sp.high]}
        try:
            outs = [np.asarray(pol(obs)), np.asarray(pol.scale_output(obs)), np.stack([np.asarray(pol(o)) for o in obs[:: max(1, len(ys) // 6)]])]
        except Exception as e:  # noqa: BLE001
            facts.append({"kind": "box", "key": f"tanh_head:raises:{type(e).__name__}", "how": how, "tag": f"policy raises {e}", "lo": 0, "hi": 0, "k": 0, "v": [1]})
            continue
        for j in range(d):
            tag = f"tanh head, bounds [{float(sp.low[j])!r}, {float(sp.high[j])!r}]"
            for o in outs:
                facts.append(box_fact("tanh_head:out_of_box", tag, sp.low[j], sp.high[j], o[:, j], k=2, how=how))
            facts.append({"kind": "mono", "key": "tanh_head:not_monotone", "how": how, "tag": tag, "lo": 0, "hi": 0, "k": 0, "v": [exact.ord32(x) for x in outs[0][:n_fixed, j]]})
            n += len(ys)
    return n


def default_sampler_tables(seed, quick, facts):
    """The samplers as the training routines configure them (non-dyadic noise levels, arbitrary keys,
    tanh policy on arbitrary pre-activations, arbitrary boxes), eager and jitted: inside the box (K = 0)."""
    rs = np.random.default_rng(seed + 3030)
    levels = [(0.1, 0.5), (0.2, 0.3)] + ([] if quick else [(0.2, 0.5), (1.0, 0.5), (10.0, 5.0), (0.0, 0.5)])
    n = 0
    spaces = nasty_spaces(seed, 4 if quick else 16)
    for si, sp in enumerate(spaces):
        d = sp.shape[0]
        for li, (sigma, c) in enumerate(levels):
            b = SamplerBench(None, sigma, c, space=sp)
            for batch in (0, 32):
                y = (rs.normal(size=(batch or 1, d)) * rs.choice([0.5, 3.0, 50.0])).astype(np.float32)
                obs = y if batch else y[0]
                kid = int(rs.integers(0, 2**30))
                jit = (si + li) % (6 if quick else 2) == 0 and batch == 32
                how = {"part": "default", "quick": quick, "low": [float(x) for x in sp.low], "high": [float(x) for x in sp.high], "sigma": sigma, "c": c, "kid": kid, "obs": np.asarray(obs).tolist(), "jit": jit, "seed": seed}
                try:
                    ex = b.call("explore", "tanh", obs, make_key(seed, kid), jit).reshape(-1, d)
                    sm = b.call("smooth", "tanh", obs, make_key(seed, kid), jit).reshape(-1, d)
                except Exception as e:  # noqa: BLE001
                    facts.append({"kind": "box", "key": f"sampler:raises:{type(e).__name__}", "how": how, "tag": f"sampler raises {e}", "lo": 0, "hi": 0, "k": 0, "v": [1]})
                    continue
                for j in range(d):
                    tag = f"bounds [{float(sp.low[j])!r}, {float(sp.high[j])!r}], sigma {sigma}, c {c}{', jit' if jit else ''}"
                    facts.append(box_fact("sample_actions:out_of_box", "explore, " + tag, sp.low[j], sp.high[j], ex[:, j], how=how))
                    facts.append(box_fact("sample_target_actions:out_of_box", "smooth, " + tag, sp.low[j], sp.high[j], sm[:, j], how=how))
                    n += 2 * ex.shape[0]
    return n


# ------------------------------------------------------------------ cross-entropy planner
NPOP = 16
CEM_BOXES = ["sym1", "asym1", "pos1", "tiny1", "hugeasym1", "mix2", "mix3"]
CEM_QUICK = ["asym1", "pos1", "mix3"]
CEM_INVS = ["TypeOK", "CandidateInBox", "SdHalvesDistance", "FaceMeanIsFixed", "NewMeanInBox", "NumberOfElites"]


def z_qualifies(row):
    return all(fr(v).denominator <= DEN_MAX and abs(fr(v)) <= 2 for v in row)


def z_calls(seed, dims_wanted, quick):
    """Real draws of jax.random.truncated_normal(key, -2.0, 2.0, (NPOP, d)) - the call cem_sample makes."""
    jr = L.jax.random
    calls, entries = [], []
    kid = 5000
    want = 3 if quick else 5
    for d in dims_wanted:
        for _ in range(400):
            kid += 1
            z = np.asarray(jr.truncated_normal(make_key(seed, kid), -2.0, 2.0, shape=(NPOP, d)), dtype=np.float32)
            good = [i for i in range(NPOP) if z_qualifies(z[i])]
            if len(good) >= want:
                break
        else:  # pragma: no cover
            raise tlc.MachineryError("no key with enough exactly representable truncated-normal draws found")
        calls.append({"kid": kid, "shape": [NPOP, d], "dim": d, "n": z, "rows": good[:want]})
        for i in good[:want]:
            entries.append({"id": len(entries), "dim": d, "n": [ratio(v) for v in z[i]], "call": len(calls) - 1, "row": i})
    return calls, entries


def cem_inputs(vec):
    """float32 arguments of cem_sample for one vector: mean, var, lb, ub."""
    dims = vec["dims"]
    mean = [qf(m, d["e"]) for m, d in zip(vec["mean"], dims)]
    var = [qf(s, d["e"]) ** 2 for s, d in zip(vec["sd"], dims)]
    lb = [qf(d["lo"], d["e"]) for d in dims]
    ub = [qf(d["hi"], d["e"]) for d in dims]
    for x in mean + var + lb + ub:
        if not representable(x):
            raise tlc.MachineryError(f"lattice value {x} is not a float32")
    as32 = lambda xs: np.asarray([float(x) for x in xs], dtype=np.float32)
    return as32(mean), as32(var), as32(lb), as32(ub)


def check_candidate(vec, cand_row):
    for j, d in enumerate(vec["dims"]):
        e = d["e"]
        lo, hi = qf(d["lo"], e), qf(d["hi"], e)
        v = cand_row[j]
        if not (np.isfinite(v) and lo <= fr(v) <= hi):
            raise Mismatch("cem_sample:out_of_box", f"candidate {v!r} outside [{float(lo)}, {float(hi)}] (dimension {j}, mean {float(qf(vec['mean'][j], e))}, sd {float(qf(vec['sd'][j], e))}, z {float(qf(vec['z'][j]))})")
        X = qf(vec["cand"][j], e)
        P = qf(vec["z"][j]) * qf(vec["csd"][j], e)
        if not within(v, X, product_slack(P)):
            raise Mismatch("cem_sample:value", f"candidate {v!r}, specification {float(X)!r} = {float(qf(vec['mean'][j], e))} + {float(qf(vec['z'][j]))} * {float(qf(vec['csd'][j], e))} (dimension {j}, bounds [{float(lo)}, {float(hi)}], sd {float(qf(vec['sd'][j], e))})")


def replay_cem_sample_group(vecs, calls, entries, seed, facts=None):
    """All vectors of one (box, mean, sd) with real draws: one cem_sample call per recorded key."""
    v0 = vecs[0]
    mean, var, lb, ub = cem_inputs(v0)
    out = []
    by_call = {}
    for v in vecs:
        en = entries[v["noise"]]
        by_call.setdefault(en["call"], []).append((en["row"], v))
    for ci, rows in sorted(by_call.items()):
        call = calls[ci]
        rp = {"part": "cem_sample", "vec": v0, "call": {"kid": call["kid"], "shape": call["shape"]}, "seed": seed}
        try:
            s = np.asarray(L.cem.cem_sample(L.jnp.asarray(mean), L.jnp.asarray(var), make_key(seed, call["kid"]), NPOP, L.jnp.asarray(lb), L.jnp.asarray(ub)), dtype=np.float32)
        except Exception as e:  # noqa: BLE001
            out.append((f"cem_sample:raises:{type(e).__name__}", f"cem_sample raises {type(e).__name__}: {e}", rp))
            continue
        if s.shape != (NPOP, len(mean)):
            out.append(("cem_sample:shape", f"cem_sample returns shape {s.shape}, expected {(NPOP, len(mean))}", rp))
            continue
        for r, v in rows:
            try:
                check_candidate(v, s[r])
            except Mismatch as m:
                out.append((m.key, f"{m.what} [box {v['box']}, key #{call['kid']} row {r}]", dict(rp, vec=v, row=r)))
        if facts is not None:
            for j in range(len(mean)):
                facts.append(box_fact("cem_sample:out_of_box", f"cem_sample {v0['box']}[{j}] mean {mean[j]!r} var {var[j]!r}", lb[j], ub[j], s[:, j], how=rp))
    return out


class _Interpose:
    """Replace jax.random.truncated_normal (as cross_entropy_method sees it) by a recorder that returns
    the lattice draws - including the limits -2 and 2 the real generator never returns."""

    def __init__(self, z):
        self.z, self.calls = z, []

    def __enter__(self):
        self.mod = L.cem.jax.random
        self.orig = self.mod.truncated_normal

        def stub(key, lower, upper, shape=None, dtype=None, **kw):
            self.calls.append({"key": key, "lower": lower, "upper": upper, "shape": tuple(shape) if shape is not None else None})
            return L.jnp.asarray(self.z)

        self.mod.truncated_normal = stub
        return self

    def __exit__(self, *a):
        self.mod.truncated_normal = self.orig


def replay_cem_sample_lattice(vecs, seed, kid=7001):
    """Lattice vectors of one box: their dimensions are concatenated into one parameter vector, row r of the
    population uses lattice draw r.  Also checks HOW the draw is requested: the caller's key, limits -2 and 2,
    one draw per (candidate, parameter)."""
    out = []
    groups = {}
    for v in vecs:
        groups.setdefault((v["mpat"], v["spat"]), {})[v["noise"]] = v
    order = sorted(groups)
    rows = sorted({v["noise"] for v in vecs})
    cols = [(g, j) for g in order for j in range(len(vecs[0]["dims"]))]
    ins = {g: cem_inputs(next(iter(groups[g].values()))) for g in order}
    cat = lambda k: np.concatenate([ins[g][k] for g in order])
    z = np.zeros((len(rows), len(cols)), dtype=np.float32)
    for a, r in enumerate(rows):
        for b, (g, j) in enumerate(cols):
            z[a, b] = float(qf(groups[g][r]["z"][j]))
    key = make_key(seed, kid)
    rp = {"part": "cem_lattice", "vecs": vecs, "seed": seed, "kid": kid}
    try:
        with _Interpose(z) as ip:
            s = np.asarray(L.cem.cem_sample(L.jnp.asarray(cat(0)), L.jnp.asarray(cat(1)), key, len(rows), L.jnp.asarray(cat(2)), L.jnp.asarray(cat(3))), dtype=np.float32)
    except Exception as e:  # noqa: BLE001
        return [(f"cem_sample:raises:{type(e).__name__}", f"cem_sample raises {type(e).__name__}: {e}", rp)], 0
    kd = L.jax.random.key_data
    if len(ip.calls) != 1:
        out.append(("cem_sample:draw_request", f"cem_sample draws {len(ip.calls)} times from truncated_normal, specification: once", rp))
    else:
        c = ip.calls[0]
        same_key = bool(np.array_equal(np.asarray(kd(c["key"])), np.asarray(kd(key))))
        if not same_key or float(c["lower"]) != -2.0 or float(c["upper"]) != 2.0 or c["shape"] != z.shape:
            out.append(("cem_sample:draw_request", f"cem_sample requests truncated_normal(key {'=' if same_key else '!='} step_key, {c['lower']}, {c['upper']}, shape={c['shape']}); specification: (step_key, -2, 2, {z.shape})", rp))
    n = 0
    for a, r in enumerate(rows):
        for g in order:
            v = groups[g][r]
            b0 = cols.index((g, 0))
            try:
                check_candidate(v, s[a, b0 : b0 + len(v["dims"])])
                n += 1
            except Mismatch as m:
                out.append((m.key, f"{m.what} [box {v['box']}, lattice draw {r}]", {"part": "cem_lattice", "vecs": [x for x in vecs if (x["mpat"], x["spat"]) == g], "seed": seed, "kid": kid}))
    return out, n


def replay_cem_update(vecs):
    """cem_update on TLC's populations: vectors with the same (n_elite, alpha, fitness) are concatenated
    along the parameter axis; the new mean must equal TLC's (dyadic lattice: float32 is exact)."""
    out = []
    v0 = vecs[0]
    as32 = lambda xs: np.asarray([float(x) for x in xs], dtype=np.float32)
    mean = as32([qf(m, d["e"]) for v in vecs for m, d in zip(v["mean"], v["dims"])])
    var = as32([qf(s, d["e"]) ** 2 for v in vecs for s, d in zip(v["sd"], v["dims"])])
    pop = np.stack([as32([qf(x, d["e"]) for v in vecs for x, d in zip(v["pop"][i], v["dims"])]) for i in range(4)])
    fit = np.asarray(v0["fit"], dtype=np.float32)
    alpha = float(qf(v0["alpha"]))
    rp = {"part": "cem_update", "vecs": vecs[:1]}
    try:
        m2, v2 = L.cem.cem_update(L.jnp.asarray(pop), L.jnp.asarray(fit), L.jnp.asarray(mean), L.jnp.asarray(var), int(v0["ne"]), alpha)
        m2 = np.asarray(m2, dtype=np.float32)
    except Exception as e:  # noqa: BLE001
        return [(f"cem_update:raises:{type(e).__name__}", f"cem_update raises {type(e).__name__}: {e}", rp)], 0
    b = 0
    n = 0
    for v in vecs:
        for j, d in enumerate(v["dims"]):
            X = qf(v["newmean"][j], d["e"])
            lo, hi = qf(d["lo"], d["e"]), qf(d["hi"], d["e"])
            got = m2[b]
            b += 1
            if not (np.isfinite(got) and lo <= fr(got) <= hi):
                out.append(("cem_update:mean_out_of_box", f"new mean {got!r} outside [{float(lo)}, {float(hi)}] (box {v['box']}, n_elite {v['ne']}, alpha {alpha})", {"part": "cem_update", "vecs": [v]}))
            elif fr(got) != X:
                out.append(("cem_update:mean_value", f"new mean {got!r}, specification {float(X)!r} (box {v['box']}[{j}], n_elite {v['ne']}, alpha {alpha}, elites {v['elites']})", {"part": "cem_update", "vecs": [v]}))
        n += 1
    return out, n


def cem_chain_tables(seed, quick, facts):
    """optimize_cem (public entry point) from lattice distributions incl. means ON the faces, tiny and huge
    variances: every sample of the history and every mean of the path lies in the box (K = 0).
    alpha dyadic and n_elite a power of two (float32 then averages values on a face exactly)."""
    f = np.float32
    cases = [
        ([-1.0], [2.0]), ([0.5], [1.0]), ([-(2.0**-20)], [2.0**-20]), ([2.0**19], [2.0**21]),
        ([-2.0, -(2.0**-20), 0.0], [-0.5, 2.0**-20, 2.0**21]),
        # narrow boxes far from zero: the elites are (nearly) tied relative to their magnitude, so the variance
        # handed to the next sampling step is tiny compared with mean**2 (faces with short mantissas: blending exact)
        # (next to an ordinary dimension: optimize_cem stops when the LARGEST variance falls below epsilon)
        ([-2.0, -4096.0 - 2.0**-4], [2.0, -4096.0]),
        ([1024.0, -3.0], [1024.0 + 2.0**-6, 1.0]),
    ]
    n = 0
    for ci, (lo, hi) in enumerate(cases if not quick else cases[::2]):
        lo, hi = np.asarray(lo, dtype=f), np.asarray(hi, dtype=f)
        for frac in (0.0, 0.25, 1.0):
            for vscale in (2.0**-20, 1.0 / 16, 2.0**20):
                for ne, alpha in ((2, 0.25), (4, 0.5)):
                    mean = (lo + f(frac) * (hi - lo)).astype(f)
                    var = ((hi - lo) ** 2 * f(vscale)).astype(f)
                    kid = 9000 + n
                    target = L.jnp.asarray(hi)
                    how = {"part": "chain", "quick": quick, "low": lo.tolist(), "high": hi.tolist(), "mean": mean.tolist(), "var": var.tolist(), "ne": ne, "alpha": alpha, "kid": kid, "seed": seed}
                    try:
                        sol, path, hist = L.cem.optimize_cem(lambda s: -L.jnp.sum((s - target) ** 2, axis=-1), mean, var, make_key(seed, kid), 3, 8, ne, lo, hi, epsilon=0.0, alpha=alpha, return_history=True)
                    except Exception as e:  # noqa: BLE001
                        facts.append({"kind": "box", "key": f"optimize_cem:raises:{type(e).__name__}", "how": how, "tag": f"optimize_cem raises {e}", "lo": 0, "hi": 0, "k": 0, "v": [1]})
                        continue
                    hist, path = np.asarray(hist).reshape(-1, len(lo)), np.asarray(path).reshape(-1, len(lo))
                    for j in range(len(lo)):
                        tag = f"optimize_cem bounds [{lo[j]!r}, {hi[j]!r}] init mean {mean[j]!r} var {var[j]!r} n_elite {ne} alpha {alpha}"
                        facts.append(box_fact("optimize_cem:sample_out_of_box", "samples, " + tag, lo[j], hi[j], hist[:, j], how=how))
                        facts.append(box_fact("optimize_cem:mean_out_of_box", "means, " + tag, lo[j], hi[j], np.concatenate([path[:, j], np.asarray(sol)[j : j + 1]]), how=how))
                    n += 1
        # a longer search that converges on an interior optimum: the variance handed from update to sampling shrinks
        # over the iterations until the elites are tied to within rounding
        mean = (lo + f(0.5) * (hi - lo)).astype(f)
        var = ((hi - lo) ** 2 / f(16.0)).astype(f)
        for ne, alpha, kk in ((4, 0.125, 0), (8, 0.0, 1)):
            kid = 9300 + 2 * ci + kk
            target = L.jnp.asarray((lo + f(0.25) * (hi - lo)).astype(f))
            width = L.jnp.asarray(hi - lo)
            how = {"part": "chain", "quick": quick, "low": lo.tolist(), "high": hi.tolist(), "mean": mean.tolist(), "var": var.tolist(), "ne": ne, "alpha": alpha, "kid": kid, "seed": seed, "interior": True}
            try:
                sol, path, hist = L.cem.optimize_cem(lambda s: -L.jnp.sum(((s - target) / width) ** 2, axis=-1), mean, var, make_key(seed, kid), 7, 32, ne, lo, hi, epsilon=0.0, alpha=alpha, return_history=True)
            except Exception as e:  # noqa: BLE001
                facts.append({"kind": "box", "key": f"optimize_cem:raises:{type(e).__name__}", "how": how, "tag": f"optimize_cem raises {e}", "lo": 0, "hi": 0, "k": 0, "v": [1]})
                continue
            hist, path = np.asarray(hist).reshape(-1, len(lo)), np.asarray(path).reshape(-1, len(lo))
            for j in range(len(lo)):
                tag = f"optimize_cem (7 iterations towards an interior optimum) bounds [{lo[j]!r}, {hi[j]!r}] n_elite {ne} alpha {alpha}"
                facts.append(box_fact("optimize_cem:sample_out_of_box", "samples, " + tag, lo[j], hi[j], hist[:, j], how=how))
                facts.append(box_fact("optimize_cem:mean_out_of_box", "means, " + tag, lo[j], hi[j], np.concatenate([path[:, j], np.asarray(sol)[j : j + 1]]), how=how))
            n += 1
    return n


PETS_BOUNDS = [(-2.0, 2.0), (-1.0, 1.0), (-0.4, 0.4), (0.3, 1.0), (0.1, 0.7), (-0.7, -0.1), (1.1, 1.9), (-1.3, 2.3)]


def pets_planner_tables(seed, quick, facts):
    """The planner functions PETS builds (_init_mpc_optimizer_cem: bounds stacked over the horizon,
    alpha = 0.1, n_elite = 10% of the samples): candidates in the box; the updated mean in the box - also
    when the mean sits ON a face, where every candidate equals the face."""
    from rl_blox.algorithm import pets

    f = np.float32
    n = 0
    H = 3
    for n_samples in (30,) if quick else (30, 100):
        lo = np.asarray([b[0] for b in PETS_BOUNDS], dtype=f)
        hi = np.asarray([b[1] for b in PETS_BOUNDS], dtype=f)
        sp = L.gym.spaces.Box(low=lo, high=hi, dtype=f)
        sample_fn, update_fn = pets._init_mpc_optimizer_cem(sp, H, n_samples)
        var0 = np.broadcast_to((hi - lo) ** 2 / f(16.0), (H, len(lo))).astype(f)  # train_pets: init_var
        starts = {"centre": np.broadcast_to(f(0.5) * (hi + lo), (H, len(lo))).astype(f),  # train_pets: avg_act
                  "low face": np.broadcast_to(lo, (H, len(lo))).astype(f),
                  "high face": np.broadcast_to(hi, (H, len(lo))).astype(f)}
        for name, mean in starts.items():
            kid = 9500 + n
            how = {"part": "pets", "quick": quick, "n_samples": n_samples, "start": name, "kid": kid, "seed": seed}
            try:
                s = np.asarray(sample_fn(L.jnp.asarray(mean), L.jnp.asarray(var0), make_key(seed, kid)))
                fit = -np.sum((s - hi) ** 2, axis=(1, 2)) if name != "low face" else np.arange(n_samples, dtype=f)
                m2, v2 = update_fn(L.jnp.asarray(s), L.jnp.asarray(fit.astype(f)), L.jnp.asarray(mean), L.jnp.asarray(var0))
                m2 = np.asarray(m2)
                s2 = np.asarray(sample_fn(L.jnp.asarray(m2), v2, make_key(seed, kid + 1)))
            except Exception as e:  # noqa: BLE001
                facts.append({"kind": "box", "key": f"pets_planner:raises:{type(e).__name__}", "how": how, "tag": f"planner raises {e}", "lo": 0, "hi": 0, "k": 0, "v": [1]})
                continue
            on_face = name != "centre"
            for j in range(len(lo)):
                tag = f"PETS planner ({n_samples} samples, mean at {name}) bounds [{lo[j]!r}, {hi[j]!r}]"
                facts.append(box_fact("pets_planner:candidate_out_of_box", "candidates, " + tag, lo[j], hi[j], s[:, :, j], how=how))
                kk = "cem_update:mean_on_face_leaves_box_by_rounding" if on_face else "pets_planner:mean_out_of_box"
                facts.append(box_fact(kk, "updated mean, " + tag, lo[j], hi[j], m2[:, j], how=how))
                kk = "cem_update:mean_on_face_leaves_box_by_rounding" if on_face else "pets_planner:candidate_out_of_box"
                facts.append(box_fact(kk, "candidates of the next iteration, " + tag, lo[j], hi[j], s2[:, :, j], how=how))
            n += 1
        # mpc_action (what PETS sends to the environment) around the real planner functions; the dynamics
        # model is replaced by a fitness that pulls the plan towards a face of the box
        for prev in (True, False):
            kid = 9700 + n
            how = {"part": "pets", "quick": quick, "n_samples": n_samples, "start": f"mpc_action prev={prev}", "kid": kid, "seed": seed}
            try:
                cfg = pets.PETSMPCConfig(plan_horizon=H, n_particles=1, n_samples=n_samples, n_opt_iter=2, init_with_previous_plan=prev,
                                         reward_model=None, action_space_shape=sp.shape, avg_act=L.jnp.asarray(f(0.5) * (hi + lo)),
                                         init_var=L.jnp.asarray(var0), sample_fn=sample_fn, update_fn=update_fn)
                st = pets.PETSMPCState(dynamics_model=None, prev_plan=pets.PETSMPCState.initial_plan(cfg), key=make_key(seed, kid))
                seen = []
                acts, plans = [], []
                for step in range(3):
                    target = L.jnp.asarray(hi if step % 2 == 0 else lo)

                    def optimize(model, mean, key, obs, target=target):
                        var = cfg.init_var
                        for _ in range(cfg.n_opt_iter):
                            key, k = L.jax.random.split(key)
                            cand = cfg.sample_fn(mean, var, k)
                            seen.append(np.asarray(cand).reshape(-1, len(lo)))
                            mean, var = cfg.update_fn(cand, -L.jnp.sum((cand - target) ** 2, axis=(1, 2)), mean, var)
                        return mean

                    acts.append(np.asarray(pets.mpc_action(cfg, st, optimize, np.zeros(2, dtype=f))))
                    plans.append(np.asarray(st.prev_plan))
            except Exception as e:  # noqa: BLE001
                facts.append({"kind": "box", "key": f"pets_planner:raises:{type(e).__name__}", "how": how, "tag": f"mpc_action raises {e}", "lo": 0, "hi": 0, "k": 0, "v": [1]})
                continue
            acts, plans, seen = np.stack(acts), np.concatenate(plans), np.concatenate(seen)
            for j in range(len(lo)):
                tag = f"mpc_action (init_with_previous_plan={prev}) bounds [{lo[j]!r}, {hi[j]!r}]"
                facts.append(box_fact("pets_planner:mpc_action_out_of_box", "actions, " + tag, lo[j], hi[j], acts[:, j], how=how))
                facts.append(box_fact("pets_planner:mpc_action_out_of_box", "stored plans, " + tag, lo[j], hi[j], plans[:, j], how=how))
                facts.append(box_fact("pets_planner:candidate_out_of_box", "candidates, " + tag, lo[j], hi[j], seen[:, j], how=how))
            n += 1
    return n


# ------------------------------------------------------------------ run
def _shared_samplers():
    """TD3+LAP, TD7 and MR.Q must use the samplers of ddpg / td3 (then binding those binds them all)."""
    import importlib

    own = []
    for name in ("td3", "td3_lap", "td7", "mrq"):
        mod = importlib.import_module(f"rl_blox.algorithm.{name}")
        if getattr(mod, "make_sample_actions", None) is not L.ddpg.make_sample_actions:
            own.append(f"{name}.make_sample_actions")
        if getattr(mod, "make_sample_target_actions", None) is not L.td3.make_sample_target_actions:
            own.append(f"{name}.make_sample_target_actions")
    if own:
        raise tlc.MachineryError(f"these modules no longer use ddpg.make_sample_actions / td3.make_sample_target_actions and are not bound by this check: {own}")


def _canary_binding(vecs, calls, entries, seed):
    """Binding canary: one ulp-sized corruption of an expected value must be noticed."""
    import copy

    v = next((x for x in vecs if x["eint"][0] and x["sint"][0] and qf(x["sigma"]) > 0), None)
    if v is None:
        raise tlc.MachineryError("binding canary: no interior vector generated")
    if replay_sampler_group([v], calls, entries, seed):
        return  # the unchanged vector already fails: reported by the main pass
    for field, want in (("explore", "sample_actions:value"), ("smooth", "sample_target_actions:value")):
        w = copy.deepcopy(v)
        w[field][0] = bumped(v[field][0], v["pert"][0])
        got = [k for k, _, _ in replay_sampler_group([w], calls, entries, seed)]
        if not any(k.startswith(want) for k in got):
            raise tlc.MachineryError(f"binding canary: corrupted {field} value not noticed (got {got})")


def bumped(x, p):
    """Unit-scale rational x moved by four float32 ulps of itself and of the product p it contains."""
    X, P = qf(x), (p[0] if isinstance(p[0], Fraction) else qf(p))
    Y = X + 4 * (ulp_at(X) + ulp_at(P)) + (Fraction(1, 2**40) if X == 0 and P == 0 else 0)
    return [Y.numerator, Y.denominator]


def run_fn(rep):
    import concurrent.futures as cf

    quick = rep.tier == "quick"
    seed = rep.seed
    t0 = time.time()
    for mod in ("BoundsOps", "Bounds", "BoundsCem", "BoundsFacts"):
        tlc.sany(mod)
    W = _workers()
    empty = write_json([], "empty")
    boxes = QUICK_BOXES if quick else ALL_BOXES
    cboxes = CEM_QUICK if quick else CEM_BOXES
    pool = cf.ThreadPoolExecutor(max_workers=3)   # property runs and canaries
    gpool = cf.ThreadPoolExecutor(max_workers=2)  # generators (single TLC worker each)
    jobs = {}
    npath = zpath = None
    try:
        # ---- TLC decides the clauses on the model (lattice draws), and refutes the deviations
        base = dict(Levels="model", NoiseSrc="lattice", Variant="code", EMIT=False)
        jobs["Bounds model"] = pool.submit(tlc.run, "Bounds", tlc.cfg_text(constants=dict(base, Boxes=set(boxes)), invariants=SAMPLER_INVS), workers=W, env={"C10_NOISE": empty}, tag="bounds")
        jobs["Bounds coverage"] = pool.submit(tlc.run, "Bounds", tlc.cfg_text(constants=dict(base, Boxes={"mix2"}, Levels="bind"), invariants=["TypeOK"]), workers=2, coverage=True, env={"C10_NOISE": empty}, tag="boundscov")
        for dev, (bxs, inv) in SAMPLER_CANARIES.items():
            jobs[f"canary {dev}"] = pool.submit(tlc.run, "Bounds", tlc.cfg_text(constants=dict(base, Boxes=set(bxs), Variant=dev), invariants=[inv]), workers=2, env={"C10_NOISE": empty}, tag="boundsbad")
        cbase = dict(NoiseSrc="lattice", Variant="code", URows={0, 1, 2, 3, 4, 5, 6}, EMIT=False)
        for flow in ("sample", "update"):
            jobs[f"BoundsCem {flow}"] = pool.submit(tlc.run, "BoundsCem", tlc.cfg_text(constants=dict(cbase, Boxes=set(cboxes), Flow=flow), invariants=CEM_INVS), workers=W, coverage=(flow == "sample"), env={"C10_NOISE": empty}, tag="boundscem")
        for dev, flow, inv in (("unconstrained", "sample", "CandidateInBox"), ("full_dist", "sample", "CandidateInBox"), ("unconstrained", "update", "NewMeanInBox")):
            jobs[f"canary cem {dev} {flow}"] = pool.submit(tlc.run, "BoundsCem", tlc.cfg_text(constants=dict(cbase, Boxes={"asym1"}, Variant=dev, Flow=flow), invariants=[inv]), workers=2, env={"C10_NOISE": empty}, tag="boundscembad")

        marks = [("start", time.time())]
        mark = lambda n: marks.append((n, time.time()))
        # ---- real draws, handed to TLC
        L.load()
        mark("jax loaded")
        _shared_samplers()
        calls, entries = noise_calls(seed, [1, 2, 3], quick)
        npath = write_json([{k: e[k] for k in ("id", "dim", "n")} for e in entries], "noise")
        zcalls, zentries = z_calls(seed, [1, 2, 3], quick)
        zpath = write_json([{k: e[k] for k in ("id", "dim", "n")} for e in zentries], "z")
        gen = {
            "samplers": gpool.submit(_gen, "Bounds", dict(Boxes=set(boxes), Levels="bind", NoiseSrc="file", Variant="code"), {"C10_NOISE": npath}, "boundsgen"),
            "cem real": gpool.submit(_gen, "BoundsCem", dict(Boxes=set(cboxes), NoiseSrc="file", Variant="code", Flow="sample", URows={0}), {"C10_NOISE": zpath}, "cemgen"),
            "cem lattice": gpool.submit(_gen, "BoundsCem", dict(Boxes=set(cboxes), NoiseSrc="lattice", Variant="code", Flow="sample", URows={0}), {"C10_NOISE": empty}, "cemgenlat"),
            "cem update": gpool.submit(_gen, "BoundsCem", dict(Boxes=set(cboxes), NoiseSrc="lattice", Variant="code", Flow="update", URows={0, 3} if quick else {0, 1, 2, 3, 4, 5, 6}), {"C10_NOISE": empty}, "cemgenup"),
        }

        mark("draws")
        # ---- D4 tables (no TLC input needed) while the generators run
        facts = []
        n_tanh = tanh_tables(seed, quick, facts)
        n_def = default_sampler_tables(seed, quick, facts)
        n_chain = cem_chain_tables(seed, quick, facts)
        n_pets = pets_planner_tables(seed, quick, facts)

        mark("tables recorded")
        # ---- samplers: replay TLC's vectors
        g = gen["samplers"].result()
        rep.add_tlc(g, "Bounds generation (real draws)")
        mark("sampler vectors generated")
        groups = {}
        for v in g.emitted:
            groups.setdefault(group_key(v), []).append(v)
        if not groups:
            raise tlc.MachineryError("Bounds generated no vectors")
        cnt = dict(rows=0, noisy=0, e_interior=0, e_clipped=0, s_interior=0, n_clipped=0)
        benches = {}
        jit_rows = 0
        for k, vs in groups.items():
            bk = k[:3]
            if bk not in benches:
                benches[bk] = SamplerBench(vs[0]["dims"], vs[0]["sigma"], vs[0]["c"])
            for key, what, rp in replay_sampler_group(vs, calls, entries, seed, benches[bk], False, facts, cnt):
                rep.violation(key, what, rp)
        mark("samplers eager")
        # the jitted functions the training routines actually call: one policy output per (box, levels, kind)
        jit_levels = {(tuple(v["sigma"]), tuple(v["c"])) for v in g.emitted if qf(v["sigma"]) in (Fraction(1, 4), Fraction(1)) and qf(v["c"]) == Fraction(1, 2)}
        jit_boxes = ("mix3", "mix2", "pos1") if quick else ("mix3", "mix2", "pos1", "hugeasym1", "asym1")
        for k, vs in groups.items():
            if k[0] not in jit_boxes or (k[1], k[2]) not in jit_levels or k[4] != (2 if k[3] == "direct" else 3):
                continue
            c2 = dict(rows=0, noisy=0, e_interior=0, e_clipped=0, s_interior=0, n_clipped=0)
            only = [v for v in vs if len(calls[entries[v["noise"]]["call"]]["shape"]) == 2] if quick else vs
            for key, what, rp in replay_sampler_group(only, calls, entries, seed, benches[k[:3]], True, None, c2):
                rep.violation(key, what, rp)
            jit_rows += c2["rows"]
        _canary_binding(g.emitted, calls, entries, seed)
        rep.sample({"sampler vector": next(v for v in g.emitted if v["eint"][0] and qf(v["sigma"]) > 0)})

        mark("samplers jitted")
        # ---- cross-entropy planner
        gz = gen["cem real"].result()
        rep.add_tlc(gz, "BoundsCem generation (real draws)")
        zgroups = {}
        for v in gz.emitted:
            zgroups.setdefault((v["box"], v["mpat"], v["spat"]), []).append(v)
        n_cand = 0
        for vs in zgroups.values():
            for key, what, rp in replay_cem_sample_group(vs, zcalls, zentries, seed, facts):
                rep.violation(key, what, rp)
            n_cand += len(vs)
        mark("cem real")
        gl = gen["cem lattice"].result()
        rep.add_tlc(gl, "BoundsCem generation (lattice draws)")
        n_lat = 0
        for b in cboxes:
            vio, n = replay_cem_sample_lattice([v for v in gl.emitted if v["box"] == b], seed)
            n_lat += n
            for key, what, rp in vio:
                rep.violation(key, what, rp)
        mark("cem lattice")
        gu = gen["cem update"].result()
        rep.add_tlc(gu, "BoundsCem generation (update)")
        ugroups = {}
        for v in gu.emitted:
            ugroups.setdefault((v["box"], v["ne"], tuple(v["alpha"]), tuple(v["fit"])), []).append(v)
        n_up = 0
        for vs in ugroups.values():
            vio, n = replay_cem_update(vs)
            n_up += n
            for key, what, rp in vio:
                rep.violation(key, what, rp)
        # binding canary for the planner: a candidate moved by one unit in the last place must be noticed
        import copy

        w = copy.deepcopy(next(v for v in gz.emitted if not v["onface"][0]))
        w["cand"][0] = bumped(w["cand"][0], [qf(w["z"][0]) * qf(w["csd"][0]), 1])
        if not any(k == "cem_sample:value" for k, _, _ in replay_cem_sample_group([w], zcalls, zentries, seed)):
            raise tlc.MachineryError("binding canary: corrupted CEM candidate not noticed")
        rep.sample({"cem vector": next(v for v in gz.emitted if not v["onface"][0])})

        mark("cem update")
        # ---- D4 tables: TLC decides the order predicates
        bad = {"kind": "box", "key": "canary", "tag": "canary", "how": {}, "lo": exact.ord32(-1.0), "hi": exact.ord32(1.0), "k": 0, "v": [exact.ord32(0.5), exact.ord32(np.nextafter(np.float32(1), np.float32(2)))]}
        r = check_facts([facts[0], bad], "factscanary")
        if r.ok or r.violated != "InBoxOrd":
            raise tlc.MachineryError("binding canary: a value one ulp above the bound is accepted by BoundsFacts")
        n_facts = facts_verdicts(rep, facts, "tables")

        mark("facts")
        # ---- model verdicts
        for name, fut in jobs.items():
            r = fut.result()
            if name.startswith("canary"):
                inv = SAMPLER_CANARIES[name.split()[1]][1] if name.split()[1] != "cem" else ("NewMeanInBox" if name.endswith("update") else "CandidateInBox")
                if r.violated != inv:
                    raise tlc.MachineryError(f"deviation canary not refuted: {name} (violated={r.violated}, expected {inv})")
                continue
            rep.add_tlc(r, name)
            if not r.ok:
                rep.violation(f"spec:{name.split()[0]}:{r.violated}", f"design-level violation of {r.violated} ({name})", r.error_trace)
        cov = jobs["Bounds coverage"].result()
        tlc.require_covered(cov, ["ChooseBox", "ChooseLevels", "ChoosePolicy", "PickNoise"])
        tlc.require_covered(jobs["BoundsCem sample"].result(), ["ChooseBox", "ChooseDist", "PickDraw"])
        mark("model verdicts")
        rep.extra["timing_s"] = {n: round(t - marks[i][1], 1) for i, (n, t) in enumerate(marks[1:])}
        rep.extra["canaries_refuted"] = sorted(SAMPLER_CANARIES) + ["cem unconstrained variance (sample)", "cem sd limited by the full distance", "cem unconstrained variance (update)"]
    finally:
        gpool.shutdown(wait=True, cancel_futures=True)
        pool.shutdown(wait=True, cancel_futures=True)
        for p in (empty, npath, zpath):
            if p and os.path.exists(p):
                os.remove(p)

    rep.traces += cnt["rows"] + jit_rows + n_cand + n_lat + n_up
    rep.evaluations += cnt["rows"] + jit_rows + n_cand + n_lat + n_up + n_tanh + n_def
    rep.distinct += cnt["e_interior"] + cnt["s_interior"] + n_cand + n_lat + n_up
    rep.exhaustive = False
    rep.rule = (
        "TLC chooses (box configuration: symmetric, asymmetric, zero-free, 2^-20, 2^20, per-dimension different, 1-3 dims) x (noise, clip level) x "
        "(policy output: 5 positions incl. both faces, or tanh at a saturation point 0, +-9, +-40, +-2^60, +-inf) x (row of a REAL jax.random.normal draw for the sampler's key and shape) "
        "and computes the exact action; the real sample_actions / sample_target_actions (built by make_*; eager and jitted, batched and unbatched) and DeterministicTanhPolicy are called with that key. "
        "Planner: (box) x (mean position incl. faces) x (sd tiny..huge) x (real truncated-normal row | lattice draw incl. +-2) -> cem_sample; populations of 4 x n_elite x alpha x fitness -> cem_update. "
        "Non-trivial: a vector with noise > 0 (interior components decide the noise equation, clipped ones the bounds); counted distinct = interior components + planner vectors."
    )
    rep.extra.update({
        "sampler_rows_exact": cnt["rows"], "sampler_rows_jitted": jit_rows, "explore_interior_components": cnt["e_interior"], "explore_clipped_components": cnt["e_clipped"],
        "smooth_interior_components": cnt["s_interior"], "noise_clip_active_components": cnt["n_clipped"],
        "cem_candidates_real_draws": n_cand, "cem_candidates_lattice": n_lat, "cem_updates": n_up, "cem_chains": n_chain, "pets_planner_cases": n_pets,
        "d4_tables": n_facts, "tanh_head_values": n_tanh, "default_level_sampler_values": n_def, "fn_wall_s": round(time.time() - t0, 1),
    })
    rep.assumptions += [
        "float32 tanh is exactly 0 at 0 and exactly +-1 for |y| >= 9 (BoundsOps!TanhAt; measured, and re-checked by every tanh vector)",
        "positive homogeneity: the specification computes on unit-scale boxes, the harness applies the factor 2^e (exact in binary floating point); every such vector is compared against the real code at its true scale",
        "rows of a draw whose float32 values need more than 32-bit numerators (|n| small) are checked against the bounds only (BoundsFacts), not against an exact value",
        "tolerance of the exact comparison: half an ulp of sigma*s*n (if that product is not a float32) plus half an ulp of the sum - the two roundings float32 performs",
        f"jitted samplers: XLA fuses the draw, its scaling and the sum (the draw is not rounded to float32 on the way); an extra {JIT_ULPS} ulp of sigma*s*n is allowed there (measured <= 1.5 ulp)",
        "tanh head: 'up to rounding of the bound itself' is read as 2 ulp of the larger-magnitude bound (roundings of scale, bias and the sum: <= 1.5 ulp)",
        "boxes whose range overflows float32 (high - low = inf) are out of scope",
        "trusted: the projections in harness/drivers/c10_fn.py (float32 -> rational, ordinals, widening of bounds), TLC, CPython/NumPy/JAX",
    ]


def replay_fn(d, rep=None):
    """Re-run the single failing case of a violation produced by run_fn; prints what happens; 1 if it still fails."""
    if isinstance(d, str):
        print(d[:3000])  # TLC error trace of a design-level violation
        return 1
    L.load()
    part = d.get("part")
    vio = []
    if part == "fact":
        how = d.get("how") or d["table"].get("how") or {}
        key = d["table"]["key"]
        facts = []
        sub = how.get("part")
        seed, quick = how.get("seed", 0), how.get("quick", True)
        if sub == "sampler":
            call = dict(how["call"], dim=len(how["vec"]["dims"]))
            entries = {how["vec"]["noise"]: {"call": 0, "row": 0}}
            replay_sampler_group([how["vec"]], [call], entries, how["seed"], None, how.get("jit", False), facts)
        elif sub == "cem_sample":
            call = dict(how["call"], dim=len(how["vec"]["dims"]))
            replay_cem_sample_group([how["vec"]], [call], {how["vec"]["noise"]: {"call": 0, "row": 0}}, how["seed"], facts)
        else:
            {"tanh": tanh_tables, "default": default_sampler_tables, "chain": cem_chain_tables, "pets": pets_planner_tables}[sub](seed, quick, facts)
        facts = [t for t in facts if t["key"] == key]
        print(f"{len(facts)} tables re-recorded for {key}")
        if not facts:
            return 1
        r = check_facts(facts, "replayfacts")
        if r.ok:
            print("all tables satisfy BoundsFacts")
            return 0
        t = facts[rejected_table(r)]
        print(f"{r.violated} violated: {t['tag']}: bounds (ordinals) [{t['lo']}, {t['hi']}] values {sorted(set(t['v']))[:4]} .. {sorted(set(t['v']))[-4:]}")
        return 1
    if part == "sampler":
        v = d["vec"]
        call = dict(d["call"], dim=len(v["dims"]))
        n = np.asarray(L.jax.random.normal(make_key(d["seed"], call["kid"]), tuple(call["shape"])))
        print(f"box {v['box']} dims {v['dims']} sigma {v['sigma']} c {v['c']} policy {v['kind']}/{v['pat']}; draw of key #{call['kid']} shape {call['shape']}: row {d.get('row', 0)} = {n.reshape(-1, call['dim'])[d.get('row', 0)].tolist()}")
        vio = replay_sampler_group([v], [call], {v["noise"]: {"call": 0, "row": d.get("row", 0)}}, d["seed"], None, d.get("jit", False))
    elif part == "cem_sample":
        v = d["vec"]
        call = dict(d["call"], dim=len(v["dims"]))
        vio = replay_cem_sample_group([v], [call], {v["noise"]: {"call": 0, "row": d.get("row", 0)}}, d["seed"])
    elif part == "cem_lattice":
        vio, _ = replay_cem_sample_lattice(d["vecs"], d["seed"], d.get("kid", 7001))
    elif part == "cem_update":
        vio, _ = replay_cem_update(d["vecs"])
    else:
        print("unknown replay part", part)
        return 1
    for key, what, _ in vio:
        print(f"  {key}: {what}")
    if not vio:
        print("the case passes")
    return 1 if vio else 0
