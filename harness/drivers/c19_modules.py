"""C19, function approximators as a state machine (spec/PersistModules.tla).

Behaviours of the TLC state graph (UpdateLive / Save(p) / Restore(p) / UpdateObj(i) / Drop) are replayed on one live
"world" each: a real module that is trained, real snapshot files written by the library's own writers
(save_pickle, OrbaxCheckpointer.record_epoch) and objects restored by the library's own loaders (load_pickle with one
shared graph definition, restore_checkpoint with one shared template module; plus the plain Orbax restore with an abstract
state).  After every step the *version* of the live module and of every restored object - the index of its content digest
among the digests of a never-saved reference module trained by the same deterministic optimiser step - must equal the
model's state.  Expected versions come from TLC; Python only feeds and projects.
"""
from __future__ import annotations

import os
import random
import shutil

from .. import graph, tlc
from ..graph import Mismatch

METHODS = {
    # name: (OVERWRITE constant of the model, what is exercised)
    "pickle": True,           # save_pickle / load_pickle (a path may be written again)
    "restore_checkpoint": False,  # OrbaxCheckpointer.record_epoch + probabilistic_ensemble.restore_checkpoint(path, shared template)
    "orbax_abstract": False,  # OrbaxCheckpointer.record_epoch + StandardCheckpointer.restore(path, abstract state of a fresh module)
}
CONSTS = dict(NPaths=2, MaxUpd=3, MaxObjs=2, MaxOps=8)


def deep_zoo():
    """module types beyond c19.module_zoo: architectures whose list attributes have more than ten entries (flat state keys
    '10', '11' sort before '2' as strings) and nested containers."""
    import jax.numpy as jnp
    from flax import nnx
    from rl_blox.blox.function_approximator.layer_norm_mlp import LayerNormMLP
    from rl_blox.blox.function_approximator.mlp import MLP

    x3 = jnp.asarray([[0.5, -1.0, 2.0], [1.5, 0.25, -0.75]])
    z = {}
    z["MLP_deep12"] = (lambda s: MLP(3, 2, [3, 4, 3, 5, 3, 4, 3, 5, 3, 4, 3, 4], "relu", rngs=nnx.Rngs(s)), lambda m: m(x3))
    z["LayerNormMLP_deep11"] = (lambda s: LayerNormMLP(3, 2, [4, 3, 4, 3, 5, 3, 4, 3, 4, 3, 4], "elu", rngs=nnx.Rngs(s)), lambda m: m(x3))
    return z


class World:
    """one live module + its snapshot files + the objects restored from them"""

    def __init__(self, name, make, call, method, seed, variant, tmp, ck, helpers):
        import jax
        from flax import nnx

        self.name, self.make, self.call, self.method = name, make, call, method
        self.h = helpers
        self.seed, self.variant = seed, variant
        self.live = self._start()
        self.template = make(seed + 999)  # shared by every restore of this world
        self.graphdef = nnx.graphdef(self.live)
        self.objs = []
        self.saved = {}   # path id -> (file name / checkpoint path, version of the live module when it was written)
        self.tmp = tmp
        self.ck = ck
        self.key = f"{name}#{method}#{seed}#{variant}#{id(self)}"
        self.nsave = 0
        # reference: a never-saved module trained by the same step
        ref = self._start()
        self.ref = [self.h["digest"](ref)]
        self.refy = [self.h["bytes_of"](call(ref))]
        for _ in range(CONSTS["MaxUpd"]):
            self.ref.append(self.h["one_step"](ref, call))
            self.refy.append(self.h["bytes_of"](call(ref)))
        if len(set(self.ref)) != len(self.ref):
            raise tlc.MachineryError(f"reference versions of {name} are not distinct (vacuous)")
        self.y = None

    def _start(self):
        import jax
        import jax.numpy as jnp
        from flax import nnx

        m = self.make(self.seed + 11 * self.variant)
        st = nnx.state(m)
        key = jax.random.key(self.seed + self.variant)
        leaves, tdef = jax.tree_util.tree_flatten(st)
        new = []
        for i, l in enumerate(leaves):
            if jnp.issubdtype(jnp.asarray(l).dtype, jnp.floating):
                new.append(l + jnp.round(jax.random.normal(jax.random.fold_in(key, i), jnp.shape(l)) * 8) / 16)
            else:
                new.append(l)
        nnx.update(m, jax.tree_util.tree_unflatten(tdef, new))
        return m

    def version(self, m, who):
        d = self.h["digest"](m)
        if d in self.ref:
            return self.ref.index(d)
        raise Mismatch(f"{who}: parameters equal no version of the original (neither the saved one nor any earlier or later one)", code=f"{who.split('[')[0]}:parameters_differ")

    def project(self):
        none = CONSTS["MaxUpd"] + 1
        return {"live": self.version(self.live, "live module"),
                "file": [self.saved[p][1] if p in self.saved else none for p in range(1, CONSTS["NPaths"] + 1)],
                "objs": [self.version(o, f"restored object[{i + 1}]") for i, o in enumerate(self.objs)]}

    def step(self, op, args, exp, pre, post):
        import jax
        from flax import nnx

        if op == "UpdateLive":
            self.h["one_step"](self.live, self.call)
        elif op == "UpdateObj":
            self.h["one_step"](self.objs[args[0] - 1], self.call)
        elif op == "Drop":
            self.objs.pop(0)
        elif op == "Save":
            p = args[0]
            v = self.version(self.live, "live module")
            if self.method == "pickle":
                from rl_blox.util.serialize import save_pickle

                fn = os.path.join(self.tmp, f"w{abs(hash(self.key)) % 10**9}-{p}.pkl")
                save_pickle(fn, self.live)
                self.saved[p] = (fn, v)
            else:
                k = f"{self.name}-{abs(hash(self.key)) % 10**9}"
                if k not in self.ck.checkpoint_path:
                    self.ck.define_checkpoint_frequency(k, 1)
                before = len(self.ck.checkpoint_path[k])
                self.nsave += 1
                self.ck.record_epoch(k, self.live, step=self.nsave)
                if len(self.ck.checkpoint_path[k]) != before + 1:
                    raise tlc.MachineryError(f"record_epoch wrote {len(self.ck.checkpoint_path[k]) - before} checkpoints at interval 1 (C20 decides the cadence)")
                self.saved[p] = (self.ck.checkpoint_path[k][-1], v)
        elif op == "Restore":
            fn = self.saved[args[0]][0]
            if self.method == "pickle":
                from rl_blox.util.serialize import load_pickle

                o = load_pickle(fn, self.graphdef)
            elif self.method == "restore_checkpoint":
                from rl_blox.blox.probabilistic_ensemble import restore_checkpoint

                o = restore_checkpoint(fn, self.template)
            else:
                import orbax.checkpoint as ocp

                fresh = self.make(self.seed + 998)
                abstract = jax.tree.map(lambda x: x, nnx.state(fresh))
                nnx.update(fresh, ocp.StandardCheckpointer().restore(fn, abstract))
                o = fresh
            self.objs.append(o)
        else:
            raise tlc.MachineryError(f"unknown op {op}")
        if op in ("Restore", "UpdateObj"):
            # same outputs for the same inputs as the never-saved reference of that version
            o = self.objs[-1] if op == "Restore" else self.objs[args[0] - 1]
            v = self.version(o, "restored object")
            if self.h["bytes_of"](self.call(o)) != self.refy[v]:
                raise Mismatch("restored object has the parameters of the original but gives different outputs for the same inputs", code="restored:outputs_differ")


def run_part(rep, quick, zoo, helpers, tmp):
    """returns (number of real steps, edges of the graph covered, edges of the graph)"""
    from rl_blox.logging.checkpointer import OrbaxCheckpointer

    tlc.sany("PersistModules")
    graphs = {}
    for ow in (True, False):
        c = dict(CONSTS, OVERWRITE=ow, EMIT=False)
        r = tlc.run("PersistModules", tlc.cfg_text(constants=c, invariants=["TypeOK", "Agree", "FileFaithful"], properties=["SaveRestoreAreStutterOnLive", "Independent"]), workers=4, tag=f"pm{int(ow)}")
        rep.add_tlc(r, f"PersistModules OVERWRITE={ow}")
        if not r.ok:
            rep.violation(f"spec:PersistModules:{r.violated}", "design-level violation", r.error_trace)
        for nx, inv in (("NextAlias", "Agree"), ("NextShared", "Agree")) + ((("NextStale", "FileFaithful"),) if ow else ()):
            rb = tlc.run("PersistModules", tlc.cfg_text(next=nx, constants=c, invariants=["Agree", "FileFaithful"]), workers=4, tag="pmbad")
            if rb.violated != inv:
                raise tlc.MachineryError(f"canary: PersistModules deviation {nx} not refuted by {inv} (got {rb.violated})")
        g = tlc.run("PersistModules", tlc.cfg_text(constants=dict(c, EMIT=True)), workers=1, tag=f"pmg{int(ow)}")
        graphs[ow] = graph.Graph(g.emitted)
    ck = OrbaxCheckpointer(checkpoint_dir=os.path.join(tmp, "orbax-graph"))
    ck.define_experiment("Env-v0", "c19g", {})
    steps = 0
    seen = {True: set(), False: set()}
    rnd = random.Random(rep.seed)
    names = list(zoo)
    n_walks = 1 if quick else 3
    max_len = CONSTS["MaxOps"]
    for name in names:
        make, call = zoo[name]
        for method, ow in METHODS.items():
            G = graphs[ow]
            root = G.roots()[0]
            for w in range(n_walks):
                variant = w
                try:
                    world = World(name, make, call, method, rep.seed, variant, tmp, ck, helpers)
                except tlc.MachineryError:
                    raise
                except Exception as e:
                    raise tlc.MachineryError(f"cannot set up {name}: {e!r}")
                k = root
                path = []
                for _ in range(max_len):
                    es = G.out.get(k, ())
                    if not es:
                        break
                    # prefer edges not exercised yet (with this OVERWRITE mode), restores and updates of restored objects first
                    fresh = [e for e in es if (k, e[0], graph.canon(e[1]), e[3]) not in seen[ow]]
                    pool = fresh or list(es)
                    heavy = [e for e in pool if e[0] in ("Restore", "UpdateObj")]
                    if heavy and rnd.random() < 0.6:
                        pool = heavy
                    op, args, exp, k2 = pool[rnd.randrange(len(pool))]
                    seen[ow].add((k, op, graph.canon(args), k2))
                    path = path + [{"op": op, "args": args, "exp": exp}]
                    rp = {"kind": "module_graph", "module": name, "method": method, "variant": variant, "path": path}
                    try:
                        world.step(op, args, exp, G.state[k], G.state[k2])
                        got = world.project()
                        if graph.canon(got) != k2:
                            want = G.state[k2]
                            which = ("live" if got["live"] != want["live"] else "restored")
                            raise Mismatch(f"versions after {op}{args} are live={got['live']} restored={got['objs']}, the model has live={want['live']} restored={want['objs']}",
                                           code=f"{op}:{which}_object_has_other_version")
                    except Mismatch as m:
                        rep.violation(f"{method}:{name}:{m.code}", f"{name} via {method}: {m.what} (history of {len(path)} steps: {' '.join(s['op'] for s in path)})", rp)
                        break
                    except tlc.MachineryError:
                        raise
                    except Exception as ex:
                        rep.violation(f"{method}:{name}:exception:{type(ex).__name__}", f"{name} via {method}: {op}{args} raised {ex!r}"[:300], rp)
                        break
                    steps += 1
                    k = k2
    n_edges = sum(G.n_edges for G in graphs.values())
    n_seen = sum(len(s) for s in seen.values())
    # binding canary: a world whose loader returns the shared template must be rejected
    name = names[0]
    make, call = zoo[name]
    w = World(name, make, call, "pickle", rep.seed, 0, tmp, ck, helpers)
    w.step("Save", [1], None, None, None)
    w.step("UpdateLive", [], None, None, None)
    w.step("Save", [2], None, None, None)
    w.step("Restore", [1], None, None, None)
    w.objs.append(w.objs[0])  # aliasing instead of a second restore
    from flax import nnx
    from rl_blox.util.serialize import load_pickle

    nnx.update(w.objs[0], nnx.state(load_pickle(w.saved[2][0], w.graphdef)))
    if w.project()["objs"] == [0, 1]:
        raise tlc.MachineryError("binding canary: aliased restored objects are not noticed")
    return steps, n_seen, n_edges
