"""C05, function-level binding - each update routine changes only the component it trains.

spec/Components.tla: per algorithm family a tuple of components (online networks, their
optimiser state, target / fixed / checkpoint copies) abstracted to CONTENT IDS (device D5:
ver[c] = index of the first appearance of the component's bit pattern); one action per
rl_blox routine with the set of components its documentation says it trains.  TLC checks the
frame conditions (FrameByDoc, FrameByRole, CopiesOnlyAtUpdatePoints) and non-vacuity as action
properties, refutes five deviation canaries, and generates the state graph of all call
sequences of bounded length.

Binding (spec -> code): for every family REAL tiny networks / optimisers are built the way the
algorithm builds them (create_*_state where it exists, nnx.clone for targets, TD7's
DeterministicSALEPolicy views, SAC's EntropyControl), and the graph is covered breadth first:
at every reached model state every action label enabled there is executed ONCE on the real
objects (the real routine, real batch), every component is digested bit for bit, projected to
content ids and the resulting state must be one of the successors TLC allows for that label.
Expected states come from TLC only; Python projects (SHA-1 of all nnx.Variable leaves), feeds
batches and compares.

The coordinator's driver (c05.py) calls run_fn(rep) and replay_fn(replay_obj, rep).
VERIF_TLC_WORKERS caps the TLC workers (default 16).
"""
from __future__ import annotations

import concurrent.futures as cf
import hashlib
import json
import os
import time
import traceback
import types
from collections import OrderedDict, deque
from functools import partial

import numpy as np

from .. import graph, tlc
from ..graph import canon

PROPS = ["FrameByDoc", "FrameByRole", "NonVacuity", "CopiesOnlyAtUpdatePoints"]
INVS = ["TypeOK"]
# deviation -> (NEXT, family, property that must be reported as violated)
CANARIES = {
    "actor update also moves the critic (wrong argnums / wrt)": ("NextActorTouchesCritic", "TD3", "FrameByRole"),
    "actor update also moves the critic - against the routine's documentation": ("NextActorTouchesCritic", "TD7", "FrameByDoc"),
    "critic update writes into the target": ("NextCriticMovesTarget", "TD7", "CopiesOnlyAtUpdatePoints"),
    "critic update writes into the target - by roles": ("NextCriticMovesTarget", "DQN", "FrameByRole"),
    "optimiser of A applied to B": ("NextWrongOptimizer", "SAC", "FrameByDoc"),
    "evaluating a loss mutates a network": ("NextEvaluateMutates", "PG", "FrameByRole"),
    "forward pass renormalises the task embedding (evaluation changes q)": ("NextEvaluateMutates", "DQNMT", "FrameByRole"),
    "update on a generic batch does not learn": ("NextUpdateDoesNotLearn", "MRQ", "NonVacuity"),
}
FAMILIES = ["DQN", "DQNMT", "DDPG", "TD3", "SAC", "TD7", "MRQ", "PPO", "PG", "PETS"]
# (family -> variants of the real agent bound to the same model family)
VARIANTS = {
    "DQN": ["mlp"],
    "DQNMT": ["mt_embedding"],
    "DDPG": ["create_ddpg_state"],
    "TD3": ["create_td3_state"],
    "SAC": ["create_sac_state"],
    "TD7": ["create_td7_state"],
    "MRQ": ["create_mrq_state"],
    "PPO": ["softmax", "gaussian_tanh"],
    "PG": ["discrete", "continuous"],
    "PETS": ["create_pets_state"],
}
DEPTH_QUICK = {"DQN": 3, "DQNMT": 3, "DDPG": 3, "TD3": 3, "SAC": 3, "TD7": 2, "MRQ": 3, "PPO": 4, "PG": 3, "PETS": 4}
DEPTH_THOROUGH = {"DQN": 4, "DQNMT": 4, "DDPG": 4, "TD3": 4, "SAC": 4, "TD7": 3, "MRQ": 4, "PPO": 5, "PG": 4, "PETS": 5}

OBS, ACT, NB, NBUF = 3, 2, 8, 16  # observation / action dimensions, batch size, transitions per buffer
GAMMA = 0.99
SELF_LOOPS = ("Evaluate", "Act")
SAMPLE_OPS = ("train_step_with_loss(ddqn_per_loss)", "_update_entropy_coefficient", "td7._train_step", "update_critic_and_policy")


def _workers():
    return max(1, min(16, int(os.environ.get("VERIF_TLC_WORKERS", "16"))))


class Deviation(Exception):
    def __init__(self, key, what):
        super().__init__(what)
        self.key, self.what = key, what


# ===================================================================== real agents
def _box():
    import gymnasium as gym

    return gym.spaces.Box(low=np.array([-1.0, -2.0], np.float32), high=np.array([3.0, 2.0], np.float32))


def _env(discrete=False):
    """what create_*_state reads from an environment: the two spaces"""
    import gymnasium as gym

    obs = gym.spaces.Box(low=-np.ones(OBS, np.float32), high=np.ones(OBS, np.float32))
    act = gym.spaces.Discrete(ACT) if discrete else _box()
    return types.SimpleNamespace(observation_space=obs, action_space=act)


class Data:
    """seeded random transitions (the generic batches)"""

    def __init__(self, seed, tag, discrete=False):
        self.rng = np.random.default_rng([seed, sum(map(ord, tag))])
        r = self.rng
        box = _box()
        self.obs = r.normal(size=(NBUF, OBS)).astype(np.float32)
        self.next_obs = (self.obs + 0.3 * r.normal(size=(NBUF, OBS))).astype(np.float32)
        self.act = r.integers(0, ACT, NBUF) if discrete else r.uniform(box.low, box.high, (NBUF, ACT)).astype(np.float32)
        self.rew = r.normal(size=NBUF).astype(np.float32)
        self.term = (r.uniform(size=NBUF) < 0.25).astype(np.int64)
        self.term[0], self.term[1] = 0, 1
        self.seed = seed

    def fill(self, buf, term_key="termination", **extra):
        for i in range(NBUF):
            buf.add_sample(observation=self.obs[i], action=self.act[i], reward=self.rew[i], next_observation=self.next_obs[i], **{term_key: self.term[i]}, **extra)
        return buf

    def np_rng(self, salt=0):
        return np.random.default_rng([self.seed, 77, salt])


class Agent:
    """real components of one family + one callable per action label of the model"""

    def __init__(self, family, variant):
        self.family, self.variant = family, variant
        self.comps = OrderedDict()  # component name -> nnx module / nnx.Optimizer
        self.ops = {}  # op name -> fn(args)
        self.evals = {}  # fn name -> thunk
        self.acts = {}
        self.views = {}  # wrapper modules that share Variables with components (TD7 policy views ...)
        self.get_extra = lambda: None  # non-component state that calls modify (restored with the snapshot)
        self.set_extra = lambda x: None
        self.order, self.salt, self.lv, self.ids = None, None, None, {}
        self.rn = {}  # DQNMT: observed renormalisation map content id -> content id (the model's rn)

    # -- projection ------------------------------------------------------
    def bind(self, meta):
        from .c06_law import leaves

        if set(self.comps) != set(meta["comps"]):
            raise tlc.MachineryError(f"{self.family}: driver components {sorted(self.comps)} differ from the model's {sorted(meta['comps'])}")
        self.order = list(meta["comps"])
        self.salt = {c: (of if kind == "copy" else c) for c, kind, of in zip(meta["comps"], meta["kinds"], meta["of"])}
        self.walk()
        owner = {}
        for c in self.order:
            for vpath, v in self.lv[c]:
                if id(v) in owner:
                    # the components come from the repository's own constructors (create_*_state, nnx.clone):
                    # an update of one would be an update of the other through the alias
                    raise Deviation(f"{self.family}:components {owner[id(v)]} and {c} share an nnx.Variable", f"{self.family} ({self.variant}): components {owner[id(v)]} and {c} share the nnx.Variable {vpath}; an update of one changes the other through the alias")
                owner[id(v)] = c
        for name, view in self.views.items():
            stray = [p for p, v in leaves(view) if id(v) not in owner]
            if stray:
                raise tlc.MachineryError(f"{self.family}: view {name} holds Variables outside the components: {stray[:3]}")

    def walk(self):
        from .c06_law import leaves, path_str

        self.lv = {c: [(path_str(p), v) for p, v in leaves(self.comps[c])] for c in self.order}

    def digest(self, c):
        import jax

        h = hashlib.sha1(self.salt[c].encode())
        for p, v in self.lv[c]:
            a = v.value
            if hasattr(a, "dtype") and jax.dtypes.issubdtype(a.dtype, jax.dtypes.prng_key):
                a = jax.random.key_data(a)
            a = np.asarray(a)
            h.update(p.encode())
            h.update(a.dtype.str.encode())
            h.update(repr(a.shape).encode())
            h.update(a.tobytes())
        return h.hexdigest()[:20]

    def project(self, calls):
        ver = {}
        for c in self.order:
            d = self.digest(c)
            if d not in self.ids:
                self.ids[d] = len(self.ids)
            ver[c] = self.ids[d]
        rn = {str(i): self.rn.get(i, -1) for i in range(len(self.ids))} if self.family == "DQNMT" else []
        return {"ver": ver, "nxt": len(self.ids), "calls": calls, "rn": rn}

    def reset(self):
        self.ids, self.rn = {}, {}

    def snap(self):
        return ([[v.value for _, v in self.lv[c]] for c in self.order], self.get_extra(), (dict(self.ids), dict(self.rn)))

    def restore(self, s):
        vals, extra, (ids, rn) = s
        self.rn = dict(rn)
        for c, vs in zip(self.order, vals):
            for (_, v), a in zip(self.lv[c], vs):
                v.value = a
        self.set_extra(extra)
        self.ids = dict(ids)

    def run(self, op, args):
        if op == "Evaluate":
            return self.evals[args["fn"]]()
        if op == "Act":
            return self.acts[args["fn"]]()
        if op == "select_task":  # record which content the renormalisation maps the current one to
            a = self.ids[self.digest(args["c"])]
            self.ops[op](args)
            self.rn[a] = self.ids.setdefault(self.digest(args["c"]), len(self.ids))
            return None
        return self.ops[op](args)


_JIT = {}


def _train_step(loss_name, static=("gamma",)):
    """the jitted train step exactly as the train_* functions build it"""
    from flax import nnx

    from rl_blox.algorithm.dqn import train_step_with_loss
    from rl_blox.blox import losses

    if loss_name not in _JIT:
        step = partial(train_step_with_loss, getattr(losses, loss_name))
        _JIT[loss_name] = partial(nnx.jit, static_argnames=static)(step)
    return _JIT[loss_name]


def _jit(fn, **kw):
    """loss / gradient functions are evaluated under nnx.jit (modules are explicit arguments)"""
    from flax import nnx

    k = (fn, tuple(sorted(kw.items())))
    if k not in _JIT:
        _JIT[k] = nnx.jit(fn, **kw)
    return _JIT[k]


def _targets(ag, hard=(), soft=()):
    from rl_blox.blox.target_net import hard_target_net_update, soft_target_net_update

    for a, b in hard:
        ag.ops[f"hard_target_net_update({a}, {b})"] = lambda _, a=a, b=b: hard_target_net_update(ag.comps[a], ag.comps[b])
    for a, b in soft:
        ag.ops[f"soft_target_net_update({a}, {b})"] = lambda _, a=a, b=b: soft_target_net_update(ag.comps[a], ag.comps[b], 0.5)


def build_dqn(seed, variant):
    import jax.numpy as jnp
    import optax
    from flax import nnx

    from rl_blox.blox import losses as L
    from rl_blox.blox.function_approximator.mlp import MLP
    from rl_blox.blox.q_policy import greedy_policy
    from rl_blox.blox.replay_buffer import ReplayBuffer

    mt = variant == "mt_embedding"
    ag = Agent("DQNMT" if mt else "DQN", variant)
    d = Data(seed, "DQN", discrete=True)
    if mt:
        # multi-task Q-network as in examples/smt_discrete_example.py; every row of the task-embedding
        # table is written ABOVE max_task_embedding_norm (as after gradient steps pushed it there), in
        # the online network and - through the clone - in the target
        from rl_blox.blox.embedding.task_embedding import MTMLPQNetwork

        q = MTMLPQNetwork(n_tasks=2, task_embedding_dim=3, n_features=OBS, n_outputs=ACT, hidden_nodes=[8], activation="relu", rngs=nnx.Rngs(seed))
        emb = q._task_embedding.embedding
        emb.value = jnp.asarray(d.rng.uniform(1.0, 2.0, emb.value.shape) * d.rng.choice([-1.0, 1.0], emb.value.shape), jnp.float32)
        if not bool((jnp.linalg.norm(emb.value, axis=1) > 1.5 * q.max_task_embedding_norm).all()):
            raise tlc.MachineryError("DQNMT: embedding rows are not above the maximal norm")
    else:
        q = MLP(OBS, ACT, [8], "relu", nnx.Rngs(seed))
    opt = nnx.Optimizer(q, optax.adam(1e-2), wrt=nnx.Param)
    qt = nnx.clone(q)
    if mt:
        ag.ops["select_task"] = lambda a: ag.comps[a["c"]].select_task(a["task"])
        ag.get_extra = lambda: (q.task_id, qt.task_id)

        def set_extra(x):
            q.task_id, qt.task_id = x

        ag.set_extra = set_extra
    ag.comps.update(q=q, q_opt=opt, q_target=qt)
    batch = d.fill(ReplayBuffer(NBUF, discrete_actions=True)).sample_batch(NB, d.np_rng())
    ratio = {"generic": jnp.asarray(d.rng.uniform(0.2, 1.0, NB), jnp.float32), "zero": jnp.zeros(NB, jnp.float32)}
    ag.ops["train_step_with_loss(dqn_loss)"] = lambda a: _train_step("dqn_loss")(opt, q, batch, GAMMA)
    ag.ops["train_step_with_loss(nature_dqn_loss)"] = lambda a: _train_step("nature_dqn_loss")(opt, q, qt, batch, GAMMA)
    ag.ops["train_step_with_loss(ddqn_loss)"] = lambda a: _train_step("ddqn_loss")(opt, q, qt, batch, GAMMA)
    ag.ops["train_step_with_loss(ddqn_per_loss)"] = lambda a: _train_step("ddqn_per_loss")(opt, q, qt, batch, GAMMA, ratio[a["g"]])
    _targets(ag, hard=[("q", "q_target")])
    ag.evals["dqn_loss"] = lambda: _jit(L.dqn_loss)(q, batch, GAMMA)
    ag.evals["nature_dqn_loss"] = lambda: L.nature_dqn_loss(q, qt, batch, GAMMA)
    ag.evals["ddqn_loss"] = lambda: L.ddqn_loss(q, qt, batch, GAMMA)
    ag.evals["ddqn_per_loss"] = lambda: _jit(L.ddqn_per_loss)(q, qt, batch, GAMMA, ratio["generic"])
    ag.evals["mse_discrete_action_value_loss"] = lambda: _jit(L.mse_discrete_action_value_loss)(batch.observation, batch.action, batch.reward, q)
    ag.acts["greedy_policy"] = lambda: greedy_policy(q, batch.observation[0])
    ag.batch = batch
    return ag


def _actor_critic(family, variant, seed, double_q):
    import jax
    import optax  # noqa: F401
    from flax import nnx

    from rl_blox.algorithm.ddpg import create_ddpg_state, ddpg_update_actor, make_sample_actions
    from rl_blox.algorithm.td3 import create_td3_state, make_sample_target_actions
    from rl_blox.blox import losses as L
    from rl_blox.blox.replay_buffer import ReplayBuffer

    ag = Agent(family, variant)
    d = Data(seed, family)
    create = create_td3_state if double_q else create_ddpg_state
    st = create(_env(), policy_hidden_nodes=[8], q_hidden_nodes=[8], policy_learning_rate=1e-2, q_learning_rate=1e-2, seed=seed)
    policy, q = st.policy, st.q
    pt, qt = nnx.clone(policy), nnx.clone(q)
    ag.comps.update(policy=policy, policy_opt=st.policy_optimizer, policy_target=pt, q=q, q_opt=st.q_optimizer, q_target=qt)
    batch = d.fill(ReplayBuffer(NBUF)).sample_batch(NB, d.np_rng())
    key = jax.random.key(seed + 5)
    sample = make_sample_actions(_box(), 0.2)
    sample_target = make_sample_target_actions(_box(), 0.2, 0.5)
    ag.ops["ddpg_update_actor"] = lambda a: ddpg_update_actor(policy, st.policy_optimizer, q, batch.observation)
    _targets(ag, soft=[("policy", "policy_target"), ("q", "q_target")])
    ag.evals["deterministic_policy_gradient_loss"] = lambda: _jit(L.deterministic_policy_gradient_loss)(q, batch.observation, policy)
    ag.acts["sample_actions(policy)"] = lambda: sample(policy, batch.observation[0], key)
    if double_q:
        nxt = lambda: sample_target(pt, batch.next_observation, key)  # noqa: E731
        ag.ops["train_step_with_loss(td3_loss)"] = lambda a: _train_step("td3_loss")(st.q_optimizer, q, qt, nxt(), batch, GAMMA)
        ag.ops["train_step_with_loss(td3_lap_loss)"] = lambda a: _train_step("td3_lap_loss", ("gamma", "min_priority"))(st.q_optimizer, q, qt, nxt(), batch, GAMMA, 1.0)
        ag.evals["td3_loss"] = lambda: _jit(L.td3_loss)(q, qt, nxt(), batch, GAMMA)
        ag.evals["td3_lap_loss"] = lambda: _jit(L.td3_lap_loss)(q, qt, nxt(), batch, GAMMA, 1.0)
        ag.acts["sample_target_actions(policy_target)"] = nxt
    else:
        ag.ops["train_step_with_loss(ddpg_loss)"] = lambda a: _train_step("ddpg_loss")(st.q_optimizer, q, qt, pt, batch, GAMMA)
        ag.evals["ddpg_loss"] = lambda: _jit(L.ddpg_loss)(q, qt, pt, batch, GAMMA)
        ag.evals["mse_continuous_action_value_loss"] = lambda: _jit(L.mse_continuous_action_value_loss)(batch.observation, batch.action, batch.reward, q)
        ag.acts["policy_target"] = lambda: _jit(_call_module)(pt, batch.observation)
    return ag


def _call_module(m, o):
    return m(o)


def _sample(policy, o, key):
    return policy.sample(o, key)


def _logp(policy, o, a):
    return policy.log_probability(o, a)


def build_sac(seed, variant):
    import jax
    from flax import nnx

    from rl_blox.algorithm import sac as S
    from rl_blox.blox import losses as L
    from rl_blox.blox.replay_buffer import ReplayBuffer

    ag = Agent("SAC", variant)
    d = Data(seed, "SAC")
    st = S.create_sac_state(_env(), policy_hidden_nodes=[8], q_hidden_nodes=[8], policy_learning_rate=1e-2, q_learning_rate=1e-2, seed=seed)
    policy, q = st.policy, st.q
    qt = nnx.clone(q)
    ec = S.EntropyControl(_env(), 0.2, True, 1e-2)
    ec_fixed = S.EntropyControl(_env(), 0.2, False, 1e-2)
    ag.comps.update(policy=policy, policy_opt=st.policy_optimizer, q=q, q_opt=st.q_optimizer, q_target=qt, alpha=ec._alpha, alpha_opt=ec.optimizer)
    ag.get_extra = lambda: ec.alpha_
    ag.set_extra = lambda x: setattr(ec, "alpha_", x)
    batch = d.fill(ReplayBuffer(NBUF)).sample_batch(NB, d.np_rng())
    key = jax.random.key(seed + 5)
    ag.ops["train_step_with_loss(sac_loss)"] = lambda a: _train_step("sac_loss")(st.q_optimizer, q, qt, policy, key, ec.alpha_, batch, GAMMA)
    ag.ops["sac_update_actor"] = lambda a: S.sac_update_actor(policy, st.policy_optimizer, q, key, batch.observation, ec.alpha_)
    ag.ops["_update_entropy_coefficient"] = lambda a: S._update_entropy_coefficient(ec.optimizer, policy, ec.target_entropy, key, batch.observation, ec._alpha)
    ag.ops["EntropyControl.update"] = lambda a: ec.update(policy, batch.observation, key)
    _targets(ag, soft=[("q", "q_target")])
    ag.evals["sac_loss"] = lambda: _jit(L.sac_loss)(q, qt, policy, key, ec.alpha_, batch, GAMMA)
    ag.evals["sac_actor_loss"] = lambda: _jit(S.sac_actor_loss)(policy, q, ec.alpha_, key, batch.observation)
    ag.evals["sac_exploration_loss"] = lambda: _jit(S.sac_exploration_loss)(policy, ec.target_entropy, key, batch.observation, ec._alpha)
    ag.evals["EntropyControl.update(autotune=False)"] = lambda: ec_fixed.update(policy, batch.observation, key)
    ag.acts["policy.sample"] = lambda: _jit(_sample)(policy, batch.observation, key)
    ag.acts["policy.log_probability"] = lambda: _jit(_logp)(policy, batch.observation, batch.action)
    ag.acts["alpha()"] = lambda: ec._alpha()
    return ag


def build_td7(seed, variant):
    import jax
    from flax import nnx

    from rl_blox.algorithm import td7 as T
    from rl_blox.algorithm.ddpg import make_sample_actions
    from rl_blox.algorithm.td3 import make_sample_target_actions
    from rl_blox.blox.embedding.sale import DeterministicSALEPolicy, state_action_embedding_loss, update_sale
    from rl_blox.blox.replay_buffer import LAP
    from rl_blox.blox.target_net import hard_target_net_update

    ag = Agent("TD7", variant)
    d = Data(seed, "TD7")
    st = T.create_td7_state(
        _env(), n_embedding_dimensions=4, state_embedding_hidden_nodes=[8], state_action_embedding_hidden_nodes=[8],
        policy_sa_encoding_nodes=4, policy_hidden_nodes=[8], q_sa_encoding_nodes=4, q_hidden_nodes=[8],
        embedding_learning_rate=1e-2, policy_learning_rate=1e-2, q_learning_rate=1e-2, seed=seed,
    )  # fmt: skip
    emb, actor, critic = st.embedding, st.actor, st.critic
    # exactly what train_td7 sets up before its loop
    actor_target, critic_target = nnx.clone(actor), nnx.clone(critic)
    fixed, fixed_target = nnx.clone(emb), nnx.clone(emb)
    policy = DeterministicSALEPolicy(fixed, actor)
    policy_target = DeterministicSALEPolicy(fixed_target, actor_target)
    ckpt_actor, ckpt_emb = nnx.clone(actor), nnx.clone(emb)
    checkpoint = DeterministicSALEPolicy(ckpt_emb, ckpt_actor)
    ag.comps.update(
        embedding=emb, embedding_opt=st.embedding_optimizer, fixed_embedding=fixed, fixed_embedding_target=fixed_target,
        actor=actor, actor_opt=st.actor_optimizer, actor_target=actor_target,
        critic=critic, critic_opt=st.critic_optimizer, critic_target=critic_target, ckpt_actor=ckpt_actor, ckpt_embedding=ckpt_emb,
    )  # fmt: skip
    ag.views.update(policy=policy, policy_target=policy_target, checkpoint=checkpoint)
    batch = d.fill(LAP(NBUF)).sample_batch(NB, d.np_rng())
    key = jax.random.key(seed + 5)
    sample = make_sample_actions(_box(), 0.2)
    sample_target = make_sample_target_actions(_box(), 0.2, 0.5)
    nxt = lambda: sample_target(policy_target, batch.next_observation, key)  # noqa: E731
    ag.ops["update_sale"] = lambda a: update_sale(emb, st.embedding_optimizer, batch.observation, batch.action, batch.next_observation)
    ag.ops["td7_update_critic"] = lambda a: T.td7_update_critic(
        policy.embedding, policy_target.embedding, critic, critic_target, st.critic_optimizer, GAMMA,
        batch.observation, batch.action, batch.next_observation, nxt(), batch.reward, batch.termination, 1.0, -5.0, 5.0,
    )  # fmt: skip
    ag.ops["td7_update_actor"] = lambda a: T.td7_update_actor(policy, st.actor_optimizer, critic, batch.observation)

    def train_step(a):
        # epoch = 2: "due" <=> the delay divides the epoch
        return T._train_step(
            sample_target, emb, st.embedding_optimizer, critic, critic_target, st.critic_optimizer, policy, policy_target,
            st.actor_optimizer, T.ValueClippingState(), d.fill(LAP(NBUF)), 2, key, d.np_rng(1), GAMMA, NB,
            2 if a["policy_due"] else 3, 2 if a["target_due"] else 3, 0.4, 1.0,
        )  # fmt: skip

    ag.ops["td7._train_step"] = train_step
    ag.ops["hard_target_net_update(actor, actor_target)"] = lambda a: hard_target_net_update(policy.actor, policy_target.actor)
    ag.ops["hard_target_net_update(critic, critic_target)"] = lambda a: hard_target_net_update(critic, critic_target)
    ag.ops["hard_target_net_update(fixed_embedding, fixed_embedding_target)"] = lambda a: hard_target_net_update(policy.embedding, policy_target.embedding)
    ag.ops["hard_target_net_update(embedding, fixed_embedding)"] = lambda a: hard_target_net_update(emb, policy.embedding)
    ag.ops["hard_target_net_update(policy, checkpoint)"] = lambda a: hard_target_net_update(policy, checkpoint)
    ag.evals["state_action_embedding_loss"] = lambda: _jit(state_action_embedding_loss)(emb, batch.observation, batch.action, batch.next_observation)

    def qnet_losses(fixed, critic, o, a, y):
        zsa, zs = fixed(o, a)
        return T._sum_of_qnet_losses(o, a, zsa, zs, y, 1.0, critic)

    ag.evals["_sum_of_qnet_losses"] = lambda: _jit(qnet_losses)(fixed, critic, batch.observation, batch.action, batch.reward)
    ag.evals["deterministic_policy_gradient_loss_sale"] = lambda: _jit(T.deterministic_policy_gradient_loss_sale)(policy.embedding, critic, batch.observation, policy.actor)
    ag.acts["sample_actions(policy)"] = lambda: sample(policy, batch.observation[0], key)
    ag.acts["sample_target_actions(policy_target)"] = nxt
    return ag


def build_mrq(seed, variant):
    import jax
    from flax import nnx

    from rl_blox.algorithm import mrq as M
    from rl_blox.algorithm.ddpg import make_sample_actions
    from rl_blox.algorithm.td3 import make_sample_target_actions
    from rl_blox.blox.embedding.model_based_encoder import model_based_encoder_loss, update_model_based_encoder
    from rl_blox.blox.replay_buffer import SubtrajectoryReplayBufferPER
    from rl_blox.blox.target_net import hard_target_net_update

    ag = Agent("MRQ", variant)
    d = Data(seed, "MRQ")
    st = M.create_mrq_state(
        _env(), policy_hidden_nodes=[8], q_hidden_nodes=[8], encoder_n_bins=5, encoder_zs_dim=4, encoder_za_dim=3, encoder_zsa_dim=4,
        encoder_hidden_nodes=[8], policy_learning_rate=1e-2, q_learning_rate=1e-2, encoder_learning_rate=1e-2, seed=seed,
    )  # fmt: skip
    pwe, q = st.policy_with_encoder, st.q
    pwe_target, qt = nnx.clone(pwe), nnx.clone(q)
    ag.comps.update(
        encoder=pwe.encoder, encoder_opt=st.encoder_optimizer, encoder_target=pwe_target.encoder,
        policy=pwe.policy, policy_opt=st.policy_optimizer, policy_target=pwe_target.policy, q=q, q_opt=st.q_optimizer, q_target=qt,
    )  # fmt: skip
    ag.views.update(policy_with_encoder=pwe, policy_with_encoder_target=pwe_target)
    HOR, DELAY, BS = 2, 2, 4
    buf = SubtrajectoryReplayBufferPER(NBUF, horizon=HOR)
    trunc = np.zeros(NBUF, np.int64)
    trunc[NBUF // 2 - 1] = trunc[NBUF - 1] = 1
    for i in range(NBUF):
        buf.add_sample(observation=d.obs[i], action=d.act[i], reward=d.rew[i], next_observation=d.next_obs[i], terminated=int(d.term[i]) if i in (5, 11) else 0, truncated=int(trunc[i]))
    batches = buf.sample_batch(BS * DELAY, HOR, True, d.np_rng(1))
    batch = buf.sample_batch(NB, HOR, False, d.np_rng(2))
    key = jax.random.key(seed + 5)
    sample = make_sample_actions(_box(), 0.2)
    sample_target = make_sample_target_actions(_box(), 0.2, 0.5)
    nxt = lambda: sample_target(pwe_target, batch.next_observation, key)  # noqa: E731
    enc_args = (st.the_bins, HOR, 1.0, 0.1, 0.1, DELAY, BS, False)
    ag.ops["update_model_based_encoder"] = lambda a: update_model_based_encoder(pwe.encoder, pwe_target.encoder, st.encoder_optimizer, *enc_args, batches, True)
    ag.ops["update_critic_and_policy"] = lambda a: M.update_critic_and_policy(
        q, qt, st.q_optimizer, pwe.policy, st.policy_optimizer, pwe.encoder, pwe_target.encoder, GAMMA, 1e-5, nxt(), batch, 1.0, 1.0
    )  # fmt: skip
    ag.ops["hard_target_net_update(policy_with_encoder, policy_with_encoder_target)"] = lambda a: hard_target_net_update(pwe, pwe_target)
    ag.ops["hard_target_net_update(q, q_target)"] = lambda a: hard_target_net_update(q, qt)
    one = jax.tree_util.tree_map(lambda x: x[:BS], batches)
    ag.evals["model_based_encoder_loss"] = lambda: _jit(
        model_based_encoder_loss, static_argnames=("encoder_horizon", "dynamics_weight", "reward_weight", "done_weight", "normalize_targets")
    )(pwe.encoder, pwe_target.encoder, st.the_bins, one, encoder_horizon=HOR, dynamics_weight=1.0, reward_weight=0.1, done_weight=0.1, environment_terminates=True, normalize_targets=False)  # fmt: skip
    ag.evals["mrq_loss"] = lambda: _jit(M.mrq_loss)(q, qt, pwe.encoder, pwe_target.encoder, nxt(), batch, GAMMA, 1.0, 1.0)

    def policy_loss(policy, q, encoder, o):
        return M.mrq_policy_loss(policy, q, encoder, encoder.encode_zs(o), 1e-5)

    ag.evals["mrq_policy_loss"] = lambda: _jit(policy_loss)(pwe.policy, q, pwe.encoder, batch.observation[:, 0] if batch.observation.ndim == 3 else batch.observation)
    ag.acts["sample_actions(policy_with_encoder)"] = lambda: sample(pwe, d.obs[0], key)
    ag.acts["sample_target_actions(policy_with_encoder_target)"] = nxt
    return ag


def build_ppo(seed, variant):
    import jax
    import jax.numpy as jnp
    import optax
    from flax import nnx

    from rl_blox.algorithm.ppo import ppo_loss, update_ppo
    from rl_blox.blox.function_approximator.gaussian_mlp import GaussianMLP
    from rl_blox.blox.function_approximator.mlp import MLP
    from rl_blox.blox.function_approximator.policy_head import GaussianTanhPolicy, SoftmaxPolicy

    ag = Agent("PPO", variant)
    discrete = variant == "softmax"
    d = Data(seed, "PPO", discrete=discrete)
    if discrete:  # as tests/test_ppo.py and examples/ppo_discrete_example.py
        actor = SoftmaxPolicy(MLP(OBS, ACT, [8], "relu", nnx.Rngs(seed)))
    else:  # as examples/ppo_continuous_example.py
        actor = GaussianTanhPolicy(GaussianMLP(True, OBS, ACT, [8], "relu", nnx.Rngs(seed)), action_space=_box())
    critic = MLP(OBS, 1, [8], "relu", nnx.Rngs(seed))
    oa = nnx.Optimizer(actor, optax.adam(1e-2), wrt=nnx.Param)
    oc = nnx.Optimizer(critic, optax.adam(1e-2), wrt=nnx.Param)
    ag.comps.update(actor=actor, actor_opt=oa, critic=critic, critic_opt=oc)
    key = jax.random.key(seed + 5)
    obs = jnp.asarray(d.obs[:NB])
    act = jnp.asarray(d.act[:NB]) if discrete else jnp.asarray(0.5 * d.act[:NB])
    rew, term = jnp.asarray(d.rew[:NB]), jnp.asarray(d.term[:NB])
    next_value = jnp.asarray(d.rng.normal(size=NB).astype(np.float32))
    ag.ops["update_ppo"] = lambda a: update_ppo(actor, critic, oa, oc, obs, act, rew, term, next_value, 1)
    ag.evals["ppo_loss"] = lambda: _jit(ppo_loss)(actor, critic, jnp.zeros(NB), obs, act, rew, rew)
    ag.acts["actor.sample"] = lambda: _jit(_sample)(actor, obs, key)
    ag.acts["actor.log_probability"] = lambda: _jit(_logp)(actor, obs, act)
    ag.acts["critic"] = lambda: _jit(_call_module)(critic, obs)
    return ag


def build_pg(seed, variant):
    import jax
    import jax.numpy as jnp
    import optax

    from rl_blox.algorithm import a2c as A
    from rl_blox.algorithm import actor_critic as AC
    from rl_blox.algorithm import reinforce as RF
    from rl_blox.blox import losses as L

    ag = Agent("PG", variant)
    discrete = variant.startswith("discrete")
    d = Data(seed, "PG", discrete=discrete)
    decay = variant.endswith("adamw")
    if discrete:
        st = RF.create_policy_gradient_discrete_state(
            _env(True), policy_hidden_nodes=[8], policy_learning_rate=1e-2, value_network_hidden_nodes=[8], value_network_learning_rate=1e-2,
            policy_optimizer=optax.adamw if decay else optax.adam, value_network_optimizer=optax.adamw if decay else optax.adam, seed=seed,
        )  # fmt: skip
    else:
        st = RF.create_policy_gradient_continuous_state(
            _env(), policy_shared_head=True, policy_hidden_nodes=[8], policy_learning_rate=1e-2, value_network_hidden_nodes=[8], value_network_learning_rate=1e-2,
            policy_optimizer=optax.adamw if decay else optax.adam, value_network_optimizer=optax.adamw if decay else optax.adam, seed=seed,
        )  # fmt: skip
    policy, vf, po, vo = st.policy, st.value_function, st.policy_optimizer, st.value_function_optimizer
    ag.comps.update(policy=policy, policy_opt=po, value_function=vf, value_function_opt=vo)
    key = jax.random.key(seed + 5)
    obs, nobs = jnp.asarray(d.obs[:NB]), jnp.asarray(d.next_obs[:NB])
    act = jnp.asarray(d.act[:NB])
    rew = jnp.asarray(d.rew[:NB])
    ret = jnp.asarray(d.rng.normal(size=NB).astype(np.float32))
    disc = {"generic": jnp.asarray(GAMMA ** np.arange(NB), jnp.float32), "zero": jnp.zeros(NB, jnp.float32)}
    adv = {"generic": jnp.asarray(d.rng.normal(size=NB).astype(np.float32)), "zero": jnp.ones(NB, jnp.float32)}
    ag.ops["train_value_function"] = lambda a: RF.train_value_function(vf, vo, 1, obs, ret)
    ag.ops["train_policy_reinforce"] = lambda a: RF.train_policy_reinforce(policy, po, 1, vf, obs, act, ret, disc[a["g"]])
    ag.ops["train_policy_actor_critic"] = lambda a: AC.train_policy_actor_critic(policy, po, 1, vf, obs, act, nobs, rew, disc[a["g"]], GAMMA)
    ag.ops["train_policy_a2c"] = lambda a: A.train_policy_a2c(policy, po, 1, obs, act, adv[a["g"]])
    ag.evals["stochastic_policy_gradient_pseudo_loss"] = lambda: _jit(L.stochastic_policy_gradient_pseudo_loss)(obs, act, ret, policy)
    ag.evals["mse_value_loss"] = lambda: _jit(L.mse_value_loss)(obs, ret, vf)
    ag.evals["reinforce_gradient"] = lambda: _jit(RF.reinforce_gradient)(policy, vf, obs, act, ret, disc["generic"])
    ag.evals["actor_critic_policy_gradient"] = lambda: _jit(AC.actor_critic_policy_gradient)(policy, vf, obs, act, nobs, rew, disc["generic"], GAMMA)
    ag.evals["a2c_policy_gradient"] = lambda: _jit(A.a2c_policy_gradient)(policy, obs, act, adv["generic"])
    ag.acts["policy.sample"] = lambda: _jit(_sample)(policy, obs, key)
    ag.acts["policy.log_probability"] = lambda: _jit(_logp)(policy, obs, act)
    ag.acts["value_function"] = lambda: _jit(_call_module)(vf, obs)
    return ag


def _aggregate(m, x):
    return m.aggregate(x)


def build_pets(seed, variant):
    import jax
    import jax.numpy as jnp

    from rl_blox.algorithm.pets import create_pets_state
    from rl_blox.blox import probabilistic_ensemble as PE

    ag = Agent("PETS", variant)
    d = Data(seed, "PETS")
    st = create_pets_state(_env(), seed, n_ensemble=2, hidden_nodes=[8], learning_rate=1e-2, train_size=1.0, batch_size=4)
    model, opt = st.model, st.optimizer
    ag.comps.update(model=model, model_opt=opt)
    X = jnp.asarray(np.hstack([d.obs, d.act]).astype(np.float32))
    Y = jnp.asarray(d.next_obs)
    idx = jnp.asarray(d.rng.integers(0, NBUF, (3, 2, 4)))
    key = jax.random.key(seed + 5)
    ag.ops["train_epoch"] = lambda a: PE.train_epoch(model, opt, X, Y, idx)
    ag.ops["train_ensemble"] = lambda a: PE.train_ensemble(model, opt, st.train_size, X, Y, 2, st.batch_size, key)
    ag.evals["gaussian_ensemble_loss"] = lambda: _jit(PE.gaussian_ensemble_loss)(model, X[idx[0]], Y[idx[0]])
    ag.acts["model"] = lambda: _jit(_call_module)(model, X[:4])
    ag.acts["model.aggregate"] = lambda: _jit(_aggregate)(model, X[:4])
    return ag


def build(family, variant, seed):
    return {
        "DQN": build_dqn,
        "DQNMT": build_dqn,
        "DDPG": lambda s, v: _actor_critic("DDPG", v, s, False),
        "TD3": lambda s, v: _actor_critic("TD3", v, s, True),
        "SAC": build_sac,
        "TD7": build_td7,
        "MRQ": build_mrq,
        "PPO": build_ppo,
        "PG": build_pg,
        "PETS": build_pets,
    }[family](seed, variant)


# ======================================================================= replay
def opname(op, args):
    if op in SELF_LOOPS:
        return f"{op}({args['fn']})"
    if op == "select_task":
        return f"{args['c']}.select_task"
    return op


def labels_of(G, k):
    """action labels enabled in model state k -> the successor states TLC allows for the label"""
    out = OrderedDict()
    for op, args, _, k2 in G.out.get(k, ()):
        out.setdefault((op, canon(args)), []).append(k2)
    return out


def judge(G, ag, k, op, args, posts, got):
    """the real post-state `got` against the model's successors; raises Deviation"""
    k2 = canon(got)
    if k2 in posts:
        return k2
    ag.walk()  # re-read the Variables (a routine may have replaced them) before reporting
    got2 = ag.project(got["calls"])
    if canon(got2) in posts:
        return canon(got2)
    pre = G.state[k]["ver"]
    real = {c for c in ag.order if got2["ver"][c] != pre[c]}
    allowed = [{c for c in ag.order if G.state[p]["ver"][c] != pre[c]} for p in posts]
    extra = sorted(real - set().union(*allowed))
    missing = sorted(set.intersection(*allowed) - real)
    name = opname(op, args)
    g = args.get("g", "none") if isinstance(args, dict) else "none"
    batch = f" on a {g} batch" if g in ("generic", "zero") else ""
    if extra:
        raise Deviation(f"{name}:changes {'+'.join(extra)}", f"{name}{batch} changes {extra}; the specification allows changes of {sorted(set().union(*allowed))} only")
    if missing:
        raise Deviation(f"{name}:leaves {'+'.join(missing)} unchanged", f"{name}{batch} leaves {missing} bit-identical; the specification requires a change")
    odd = sorted(c for c in ag.order if got2["ver"][c] not in {G.state[p]["ver"][c] for p in posts})
    raise Deviation(f"{name}:wrong content in {'+'.join(odd)}", f"{name}{batch}: content of {odd} is not the one the specification prescribes (ids {got2['ver']}, allowed {[G.state[p]['ver'] for p in posts][:3]})")


def execute(ag, op, args):
    try:
        ag.run(op, args)
    except tlc.MachineryError:
        raise
    except KeyError as ex:
        if ex.args and ex.args[0] in (op, args.get("fn") if isinstance(args, dict) else None):
            raise tlc.MachineryError(f"{ag.family}: the driver has no binding for action {opname(op, args)}")
        raise Deviation(f"{opname(op, args)}:raises KeyError", f"{opname(op, args)} raises KeyError: {ex}")
    except Exception as ex:  # noqa: BLE001 - the code under test raised where the model defines a result
        tb = traceback.extract_tb(ex.__traceback__)
        where = next((f"{t.filename.split('/')[-1]}:{t.name}" for t in reversed(tb) if "/rl_blox/" in t.filename), "?")
        raise Deviation(f"{opname(op, args)}:raises {type(ex).__name__}", f"{opname(op, args)} raises {type(ex).__name__} in {where}: {str(ex)[:200]}")


def cover(G, ag, on_violation, stats):
    """Cover of the model graph along the REAL behaviour: in every reached state every
    enabled label is executed once on the real objects (state restored before each), the projected
    post-state must be among TLC's successors for the label; continue from the real post-state."""
    root = G.roots()[0]
    ag.reset()
    p0 = ag.project(0)
    if canon(p0) != root:
        raise tlc.MachineryError(f"{ag.family}/{ag.variant}: initial projection {p0} differs from the model's initial state {G.state[root]}")
    visited = {root}
    queue = deque([(root, ag.snap(), [])])
    while queue:  # breadth first: a deviation is reported with a shortest call sequence
        k, s, path = queue.popleft()
        for (op, cargs), posts in labels_of(G, k).items():
            args = json.loads(cargs)
            ag.restore(s)
            stats["edges"] += 1
            stats["by_op"][opname(op, args)] = stats["by_op"].get(opname(op, args), 0) + 1
            step = {"op": op, "args": args}
            try:
                execute(ag, op, args)
                got = ag.project(G.state[posts[0]]["calls"])
                k2 = judge(G, ag, k, op, args, posts, got)
            except Deviation as dv:
                on_violation(dv, path + [step])
                continue
            if op in SAMPLE_OPS and op not in stats["samples"] and len(path) >= 1:
                stats["samples"][op] = {"family": ag.family, "after": [opname(p["op"], p["args"]) for p in path], "pre": G.state[k]["ver"], "op": op, "args": args, "real post (= a successor TLC allows)": G.state[k2]["ver"]}
            if op not in SELF_LOOPS:
                stats["updates"] += 1
                if isinstance(args, dict) and args.get("g") == "zero":
                    stats["zero_unchanged"] += int(all(G.state[k2]["ver"][c] == G.state[k]["ver"][c] for c in ag.order if ag.kind[c] == "param"))
                    stats["zero"] += 1
            if k2 not in visited:
                visited.add(k2)
                queue.append((k2, ag.snap(), path + [step]))
    stats["states"] += len(visited)
    return visited


def split_meta(emits):
    meta = [e for e in emits if e.get("op") == "Meta"]
    if len(meta) != 1:
        raise tlc.MachineryError("generation run printed no Meta record")
    return meta[0], [e for e in emits if e.get("op") != "Meta"]


def gen_graph(family, depth, tag="c05gen"):
    r = tlc.run("Components", tlc.cfg_text(constants=dict(Family=family, MaxCalls=depth, EMIT=True), view="GenView"), workers=1, timeout=1800, tag=tag)
    meta, emits = split_meta(r.emitted)
    if not emits:
        raise tlc.MachineryError(f"TLC emitted no transitions for {family}")
    return r, meta, graph.Graph(emits)


def make_agent(family, variant, seed, meta):
    ag = build(family, variant, seed)
    ag.bind(meta)
    ag.kind = dict(zip(meta["comps"], meta["kinds"]))
    return ag


# ====================================================================== canaries
class _Collect:
    def __init__(self):
        self.found = []

    def __call__(self, dv, path):
        self.found.append((dv.key, dv.what, path))


def binding_canaries(G, meta, seed):
    """(b) the comparison must notice a corrupted implementation / expectation (DQN family, cheap):
    an evaluation that writes into the target, an update routed to the wrong network, a copy that
    does not copy, and a removed model successor."""
    import jax.numpy as jnp

    def run_with(patch, want):
        ag = make_agent("DQN", "mlp", seed, meta)
        patch(ag)
        col = _Collect()
        root = G.roots()[0]
        ag.reset()
        ag.project(0)
        s = ag.snap()
        for (op, cargs), posts in labels_of(G, root).items():
            ag.restore(s)
            args = json.loads(cargs)
            try:
                execute(ag, op, args)
                judge(G, ag, root, op, args, posts, ag.project(G.state[posts[0]]["calls"]))
            except Deviation as dv:
                col(dv, [])
        if not any(want in k for k, _, _ in col.found):
            raise tlc.MachineryError(f"binding canary: '{want}' not noticed (found {[k for k, _, _ in col.found]})")

    def mutating_eval(ag):
        def ev():
            _, v = ag.lv["q_target"][0]
            v.value = v.value + jnp.float32(1.0)

        ag.evals["dqn_loss"] = ev

    def wrong_net(ag):
        opt, qt = ag.comps["q_opt"], ag.comps["q_target"]
        ag.ops["train_step_with_loss(ddqn_loss)"] = lambda a: _train_step("ddqn_loss")(opt, qt, ag.comps["q"], ag.batch, GAMMA)

    def no_copy(ag):
        ag.ops["hard_target_net_update(q, q_target)"] = lambda a: None

    def no_learning(ag):
        ag.ops["train_step_with_loss(dqn_loss)"] = lambda a: None

    run_with(mutating_eval, "Evaluate(dqn_loss):changes q_target")
    run_with(wrong_net, "train_step_with_loss(ddqn_loss):changes q_target")
    run_with(no_learning, "train_step_with_loss(dqn_loss):leaves q unchanged")
    # a hard copy that does nothing is only visible once the online network has moved
    ag = make_agent("DQN", "mlp", seed, meta)
    no_copy(ag)
    col = _Collect()
    cover(G, ag, col, _stats())
    if not any("hard_target_net_update(q, q_target):" in k for k, _, _ in col.found):
        raise tlc.MachineryError("binding canary: a target update that does not copy is not noticed")
    # two components that are one object must be rejected when the agent is bound
    ag = build("DQN", "mlp", seed)
    ag.comps["q_target"] = ag.comps["q"]
    try:
        ag.bind(meta)
    except Deviation:
        pass
    else:
        raise tlc.MachineryError("binding canary: aliased components not noticed")
    # corrupted expectation: remove the real successor from the model's set
    ag = make_agent("DQN", "mlp", seed, meta)
    root = G.roots()[0]
    ag.reset()
    ag.project(0)
    (op, cargs), posts = next(((o, c), p) for (o, c), p in labels_of(G, root).items() if o == "train_step_with_loss(dqn_loss)")
    execute(ag, op, json.loads(cargs))
    got = ag.project(G.state[posts[0]]["calls"])
    if canon(got) not in posts:
        raise tlc.MachineryError("binding canary: the real successor is not in the model's set (unexpected)")
    try:
        judge(G, ag, root, op, json.loads(cargs), [p for p in posts if p != canon(got)], got)
    except Deviation:
        return
    raise tlc.MachineryError("binding canary: corrupted expected state not noticed")


def _stats():
    return {"edges": 0, "updates": 0, "states": 0, "zero": 0, "zero_unchanged": 0, "by_op": {}, "samples": {}}


# ========================================================================= main
def _tlc_jobs(quick, depth):
    W = _workers()
    jobs = OrderedDict()
    for fam in FAMILIES:
        jobs[f"gen {fam}"] = partial(gen_graph, fam, depth[fam], "c05g" + fam)
    for fam in FAMILIES:
        cfg = tlc.cfg_text(constants=dict(Family=fam, MaxCalls=depth[fam], EMIT=False), invariants=INVS, properties=PROPS)
        jobs[f"props {fam}"] = partial(tlc.run, "Components", cfg, workers=max(1, W // 4), coverage=True, timeout=1800, tag="c05p" + fam)
    for name, (nxt, fam, want) in CANARIES.items():
        cfg = tlc.cfg_text(next=nxt, constants=dict(Family=fam, MaxCalls=1, EMIT=False), properties=[want])
        jobs["canary: " + name] = partial(tlc.run, "Components", cfg, workers=1, tag="c05c")
    return jobs


def run_fn(rep):
    quick = rep.tier == "quick"
    t0 = time.time()
    tlc.sany("Components")
    depth = DEPTH_QUICK if quick else DEPTH_THOROUGH
    jobs = _tlc_jobs(quick, depth)
    pool = cf.ThreadPoolExecutor(max_workers=4)
    futs = OrderedDict((n, pool.submit(j)) for n, j in jobs.items())
    try:
        _run_fn(rep, quick, depth, futs, t0)
    finally:
        pool.shutdown(wait=True, cancel_futures=True)


def _run_fn(rep, quick, depth, futs, t0):
    import jax  # noqa: F401 - imported while TLC runs

    timing = {}
    total = _stats()
    per_family = {}
    nontrivial = 0
    seeds = [rep.seed] if quick else [rep.seed, rep.seed + 1, rep.seed + 2]
    for fam in FAMILIES:
        r, meta, G = futs[f"gen {fam}"].result()
        rep.add_tlc(r, f"Components {fam} generation (MaxCalls={depth[fam]})")
        if fam == "DQN":
            t1 = time.time()
            binding_canaries(G, meta, rep.seed)
            timing["binding_canaries_s"] = round(time.time() - t1, 1)
        t1 = time.time()
        variants = list(VARIANTS[fam]) + (["discrete-adamw", "continuous-adamw"] if fam == "PG" and not quick else [])
        st = _stats()
        for variant in variants:
            for seed in seeds:
                def on_violation(dv, path, fam=fam, variant=variant, seed=seed):
                    rep.violation(dv.key, f"{fam} ({variant}, after {[opname(s['op'], s['args']) for s in path[:-1]]}): {dv.what}",
                                  {"part": "fn", "family": fam, "variant": variant, "seed": seed, "path": path})  # fmt: skip

                try:
                    ag = make_agent(fam, variant, seed, meta)
                except tlc.MachineryError:
                    raise
                except Deviation as dv:
                    on_violation(dv, [])
                    continue
                except Exception as ex:  # noqa: BLE001 - the repository's own constructors failed
                    rep.violation(f"{fam}:construction raises {type(ex).__name__}", f"{fam} ({variant}): building the components raises {type(ex).__name__}: {str(ex)[:200]}", {"part": "fn", "family": fam, "variant": variant, "seed": seed, "path": []})
                    continue
                cover(G, ag, on_violation, st)
        per_family[fam] = {"model_states": len(G.state), "model_edges": G.n_edges, "real_states": st["states"], "calls": st["edges"], "update_calls": st["updates"],
                           "zero_gradient_calls": st["zero"], "zero_gradient_params_unchanged": st["zero_unchanged"], "variants": variants, "wall_s": round(time.time() - t1, 1)}  # fmt: skip
        for k in ("edges", "updates", "states", "zero", "zero_unchanged"):
            total[k] += st[k]
        for k, v in st["by_op"].items():
            total["by_op"][f"{fam}:{k}"] = v
        nontrivial += sum(1 for k, es in G.out.items() for (op, a, e, k2) in es if op not in SELF_LOOPS)
        for smp in st["samples"].values():
            rep.sample(smp)
    timing["replay_done_s"] = round(time.time() - t0, 1)

    # TLC verdicts
    for name, f in futs.items():
        if name.startswith("gen "):
            continue
        r = f.result()
        if name.startswith("canary: "):
            want = CANARIES[name[8:]][2]
            if not r.violated or want not in str(r.violated):
                raise tlc.MachineryError(f"deviation canary not refuted: {name} (violated={r.violated})")
            continue
        rep.add_tlc(r, "Components " + name)
        if not r.ok:
            rep.violation(f"spec:Components:{r.violated}", f"design-level violation of {r.violated} in Components ({name})", r.error_trace)
            continue
        fam = name.split()[1]
        need = ["Call", "Evaluate", "Act"] + (["TargetUpdate"] if fam not in ("PPO", "PG", "PETS") else []) + (["TrainStepTD7"] if fam == "TD7" else []) + (["SelectTask"] if fam == "DQNMT" else [])
        tlc.require_covered(r, need)
    timing["total_s"] = round(time.time() - t0, 1)

    rep.traces += total["edges"]
    rep.evaluations += total["edges"]
    rep.distinct += total["updates"]
    rep.exhaustive = True
    rep.rule = (
        "TLC enumerates the reachable state graph of Components (content-id vector of all components) for each of 9 algorithm families (+ the DQN family on multi-task Q-networks with over-long task-embedding rows) over all sequences of "
        f"update / target / composed-train-step calls of length <= MaxCalls ({depth}) with batch kind in {{generic, zero-gradient}}, loss evaluations and acting calls enabled in every state; "
        "the real routines are executed along the real behaviour (breadth first): every label enabled in a reached state once, all components digested bit for bit and the projected "
        "state compared with the successors TLC allows for that label; a case is non-trivial when it is an update / target / train-step call (counted: executed on real objects)"
    )
    rep.extra["c05_fn_families"] = per_family
    rep.extra["c05_fn_calls_by_routine"] = total["by_op"]
    rep.extra["c05_fn_canaries_refuted"] = sorted(CANARIES)
    rep.extra["c05_fn_timing"] = timing
    rep.assumptions += [
        "function level: 'all batches, parameter values and network shapes' is sampled - tiny networks (8 hidden units), one seeded generic batch per family and seed (quick: 1 seed, thorough: 3), zero-gradient batches only where they are exact (PER importance ratios 0, policy-gradient weights 0, constant A2C advantages)",
        "the model leaves open whether an optimiser changes its own state and whether a zero-gradient step changes the parameters (momentum, weight decay); it requires a change of every trained network on a generic batch",
        "non-parameter state a routine touches (replay priorities, TD7 value clipping range, EntropyControl.alpha_) is not a component",
        "the real run follows one successor per label; model states only reachable through other optimiser-state choices are not visited",
        "trusted: the digest projection (SHA-1 over path, dtype, shape, bytes of every nnx.Variable reachable from a component), TLC, numpy",
    ]


def replay_fn(d, rep=None):
    """Re-run one failing case (the `replay` dict of a violation reported by run_fn)."""
    if isinstance(d, str):
        print(d[:3000])  # a TLC error trace of a design-level violation
        return 1
    fam, variant, seed, path = d["family"], d["variant"], d["seed"], d["path"]
    n = sum(1 for s in path if s["op"] not in SELF_LOOPS)
    _, meta, G = gen_graph(fam, max(n, 1), "c05rep")
    try:
        ag = make_agent(fam, variant, seed, meta)
    except Deviation as dv:
        print("  ", dv.what)
        return 1
    k = G.roots()[0]
    ag.reset()
    print(fam, variant, "seed", seed, "initial", ag.project(0)["ver"])
    for s in path:
        op, args = s["op"], s["args"]
        posts = labels_of(G, k).get((op, canon(args)))
        if posts is None:
            print("  the model has no action", opname(op, args), "in this state")
            return 0
        try:
            execute(ag, op, args)
            got = ag.project(G.state[posts[0]]["calls"])
            print("  ", opname(op, args), args, "->", got["ver"])
            k = judge(G, ag, k, op, args, posts, got)
        except Deviation as dv:
            print("  ", opname(op, args), ":", dv.what)
            return 1
    return 0
