"""C08 - prioritized replay samples proportionally and tracks priorities correctly.

spec/RingPrio.tla (LAP, PrioritizedReplayBuffer, multi-task wrapper),
spec/RingPrioTicks.tla + harness/c08_extra.py (boundary variates of the inverse-CDF samplers),
spec/Subtraj.tla with PRIO (prioritized subtrajectory buffer),
spec/PrioFn.tla (order predicates on recorded tables of the priority functions
and importance weights).
"""
from __future__ import annotations

import json
import os

import numpy as np

from .. import bufkit, c08_extra, exact, graph, tlc
from .. import subtraj_bind as sb
from ..graph import Mismatch

LEVEL = "model_checking"
MANIFEST = dict(
    category="model_checking",
    text="RingPrio.tla / Subtraj.tla (PRIO) model add / sample / update-priority / reset-max with natural-number priorities in units of 1 and of 1/2 of the initial tracked maximum (update values below and above it; resets and additions with every stored priority below 1.0 are reachable and counted); TLC checks Proportional (each slot is selected by exactly prio*mask of the Total ticks), OnlyFilled/NeverMasked, MaxDominates, NewGetsMax, NewAfterReset, UpdateFrame, ResetExact and the importance-weight laws on the complete bounded state graph; every transition (every tick vector of every reachable priority vector) is replayed into LAP, PrioritizedReplayBuffer (stratified), SubtrajectoryReplayBufferPER and the multi-task wrapper with a scripted generator, comparing selected indices, rows, priority arrays, tracked maximum and beta=1 weights. Order clauses for lap_priority / per_priority / general-beta weights are decided by TLC on float32 ordinals of recorded tables. RingPrioTicks.tla decides, per priority vector (1..24 equal priorities, unequal and masked vectors, units 1, 1/2, 1/10), the admissible index set of every boundary variate class (largest doubles below 1, smallest positive variates, 0, +-ulps around every cumulative boundary, every tick; strata ends of the stratified sampler); the doubles are fed through the generator stub into LAP / PrioritizedReplayBuffer.sample_batch, the multi-task wrapper and the masked sampler methods.",
    note="priorities 1..3 and 0.5, 1.0, 1.5, N<=4, batch<=2 (float priorities of widely different magnitude are outside the model); uniform variates represented by half-integer ticks; trusted: harness/bufkit.py, stub generator, ordinal coding, TLC",
    technique="TLA+ spec + TLC exhaustive state graph; transition-coverage replay with scripted uniform variates; TLC-evaluated order predicates on recorded function tables",
)
INV = ["Proportional", "OnlyFilled", "MaxDominates", "Positive", "WeightsOK", "ResetExact"]
PROPS = ["UpdateFrame", "NewGetsMax", "NewAfterReset"]


def _default(unit):
    """cfg entry (definition override) selecting RingPrio!Default, the model value of the initial tracked maximum."""
    return {} if unit == 1 else {"Default": tlc.Subst(f"Default{unit}")}


class PrioAdapter:
    """unit: the model's Default - a model priority p is the real priority p / unit (unit 2: the values 1, 2, 3 of the
    model are 0.5, 1.0 = the initial max_priority, 1.5 in the code; all exact in binary floating point)."""

    def __init__(self, kind, n, k, unit=1):
        from rl_blox.blox import replay_buffer as rb

        self.kind, self.k, self.n, self.unit = kind, k, n, unit
        self.profile = bufkit.default_profile()
        cls = {"LAP": rb.LAP, "PER": rb.PrioritizedReplayBuffer}[kind]
        inner = cls(n)
        # np.empty leaves arbitrary content in never-initialised priority slots: make it adversarial
        inner.priority.priority[:] = 7777.0
        self.obj = rb.MultiTaskReplayBuffer(inner, k) if k > 1 else inner
        self.cnt = 0
        self.last_task = -1

    def buffers(self):
        return self.obj.buffers if self.k > 1 else [self.obj]


def step(ad: PrioAdapter, op, args, exp, pre, post):
    o = ad.obj
    if op == "Select":
        o.select_task(args[0])
    elif op == "Add":
        o.add_sample(**ad.profile.encode(args[0]))
        ad.cnt = args[0]
    elif op == "Sample":
        ticks, total, t = args["ticks"], args["total"], args["task"]
        rng = bufkit.StubRng()
        if ad.k > 1:
            rng.push("choice", t)
        pts = np.asarray(ticks, dtype=float) - 0.5
        if ad.kind == "LAP":
            rng.push("uniform", lambda lo, hi, size: pts / total)
            batch = o.sample_batch(len(ticks), rng) if ad.k == 1 else o.sample_batch(len(ticks), rng=rng)
            c = rng.calls[-1]
            if not (np.all(np.asarray(c[1]) == 0) and np.all(np.asarray(c[2]) == 1)):
                raise Mismatch(f"uniform variates drawn from [{c[1]},{c[2]}) instead of [0,1)")
            ratio = None
        else:
            def strat(lo, hi, size):
                lo, hi = np.broadcast_to(lo, pts.shape), np.broadcast_to(hi, pts.shape)
                real = pts / ad.unit  # the strata are cut from the real cumulative mass total / unit
                if not (np.all(lo <= real) and np.all(real < hi)):
                    raise Mismatch(f"strata [{lo.tolist()},{hi.tolist()}) do not contain the model's stratified points {real.tolist()} (total {total / ad.unit})")
                return real

            rng.push("uniform", strat)
            batch, ratio = o.sample_batch(len(ticks), rng, beta=1.0) if ad.k == 1 else o.sample_batch(len(ticks), rng=rng, beta=1.0)
        if ad.k > 1:
            offered = sorted(rng.calls[0][1])
            if offered != sorted(args["active"]):
                raise Mismatch(f"task drawn from {offered}, model's active set {sorted(args['active'])}")
        ad.last_task = t
        buf = ad.buffers()[t]
        got_idx = [int(x) for x in np.asarray(buf.priority.sampled_indices).reshape(-1)]
        if got_idx != list(exp["idx"]):
            raise Mismatch(f"ticks {ticks}/{total} selected indices {got_idx}, model {list(exp['idx'])}")
        rows = [ad.profile.decode_row(r) for r in bufkit.batch_rows(batch, ad.profile)]
        if rows != list(exp["rows"]):
            raise Mismatch(f"rows {rows} differ from model rows {list(exp['rows'])}")
        if ratio is not None:
            w = np.asarray(ratio, dtype=float)
            want = [float(exact.q(x)) for x in exp["w1"]]
            if w.shape != (len(want),) or not np.allclose(w, want, rtol=1e-12, atol=0):
                raise Mismatch(f"importance weights {w.tolist()} differ from (min p / p_i) = {want}")
    elif op == "UpdatePriority":
        o.update_priority(np.asarray(args[0], dtype=float) / ad.unit)
    elif op == "ResetMax":
        o.reset_max_priority()
        if post is not None:  # the model's post-state: the true maximum of every non-empty task, whichever side of 1.0
            for t, b in enumerate(ad.buffers()):
                mp, want = float(b.priority.max_priority) * ad.unit, post["bufs"][str(t)]["maxPrio"]
                if mp != want:
                    stored = [float(x) for x in b.priority.priority[: len(b)]]
                    raise Mismatch(f"tracked maximum after reset is {mp / ad.unit}, true maximum of the stored priorities {stored} is {want / ad.unit}"
                                   + (f" (task {t})" if ad.k > 1 else ""), code="tracked_max_is_not_true_max", want=post)
    else:  # pragma: no cover
        raise AssertionError(op)


def project(ad: PrioAdapter):
    bufs = {}
    for t, b in enumerate(ad.buffers()):
        store, ins, ln = bufkit.project_ring(b, ad.profile)
        pr = []
        for i in range(ad.n):
            if i < ln:
                x = float(b.priority.priority[i]) * ad.unit
                if x != int(x):
                    raise Mismatch(f"priority {x / ad.unit} is not one of the supplied values")
                pr.append(int(x))
            else:
                pr.append(0)
        mp = float(b.priority.max_priority) * ad.unit
        # last-batch record as the class under test keeps it
        sampled = [int(x) for x in np.asarray(b.priority.sampled_indices).reshape(-1)]
        bufs[str(t)] = {"store": store, "prio": pr, "ins": ins, "len": ln, "maxPrio": int(mp) if mp == int(mp) else mp, "sampled": sampled}
    if ad.k > 1:
        sel, active = int(ad.obj.selected_task), sorted(int(x) for x in ad.obj.active_buffers)
        # the wrapper's record of the task of the last batch; "no batch yet" (the model's -1) is an absent attribute in the
        # code under test - any other way of saying so (None) is the same abstract state, anything else is shown as it is
        st = getattr(ad.obj, "sampled_task_idx", None)
        if st is None:
            st = -1
        else:
            try:
                st = int(st)
            except (TypeError, ValueError):
                raise Mismatch(f"sampled_task_idx is {st!r}: not a task index", code="sampled_task_record")
    else:
        sel, active, st = 0, ([0] if ad.cnt > 0 else []), ad.last_task
    return {"bufs": bufs, "sel": sel, "active": active, "sampledTask": st, "cnt": ad.cnt}


def _job(which, args):
    if which == "subtraj":
        return sb.config_job(*args)
    if which == "canary":
        return canary_job(*args)
    if which == "ticks":
        return c08_extra.ticks_job(*args)
    return ring_job(*args)


def _below(b, unit):
    """model buffer state: non-empty and every stored priority below the initial maximum"""
    return b["len"] > 0 and all(p < unit for p in b["prio"][: b["len"]])


def _reset_canary(G, kind, k, n, unit, bind=True):
    """Binding canary on the class `reset while every stored priority of a task is below the initial maximum`: the
    shortest TLC history into such a state is replayed, then the reset is compared with a post-state in which the
    tracked maximum is the initial value (what a floor at 1.0 yields) - the comparison must notice.  Returns the
    number of such reset transitions in the graph; MachineryError if there is none (lattice too poor) or the corrupted
    expectation is accepted."""
    root = G.roots()[0]
    parent, order = {root: None}, [root]
    for key in order:  # breadth first: shortest histories
        for op, args, exp, k2 in G.out.get(key, ()):
            if k2 not in parent:
                parent[k2] = (key, {"op": op, "args": args, "exp": exp})
                order.append(k2)
    targets = [(key, e) for key in order for e in G.out.get(key, ()) if e[0] == "ResetMax" and any(_below(b, unit) for b in G.state[key]["bufs"].values())]
    if not targets:
        raise tlc.MachineryError(f"lattice canary: no reset with every stored priority below the initial maximum in RingPrio {kind} K={k} N={n} unit={unit}")
    if not bind:  # the code under test already deviates from the model in this graph: reported as violations
        return len(targets)
    key, (op, args, exp, k2) = targets[0]
    path = []
    while parent[key] is not None:
        key, st = parent[key]
        path.append(st)
    ad = PrioAdapter(kind, n, k, unit)
    for st in reversed(path):
        step(ad, st["op"], st["args"], st["exp"], None, None)
    bad = json.loads(json.dumps(G.state[k2]))
    for t, b in bad["bufs"].items():
        if _below(b, unit):
            b["maxPrio"] = unit
    try:
        step(ad, op, args, exp, None, bad)
    except Mismatch as m:
        if m.code != "tracked_max_is_not_true_max":
            raise tlc.MachineryError(f"binding canary: corrupted reset expectation rejected for another reason: {m.what}")
    else:
        raise tlc.MachineryError("binding canary: a tracked maximum of 1.0 after a reset over priorities below 1.0 accepted")
    return len(targets)


def canary_job(subtraj_cfgs, workers=4, mt_cfgs=()):
    """Deviation and reachability canaries (small TLC runs); returns the list of failures (empty = fine)."""
    bad = []
    base = dict(K=1, N=2, MaxAdds=4, PrioVals={1, 3}, MaxBatch=1, STRAT=False, EMIT=False)
    # new transitions not getting the maximum priority must be refuted
    r = tlc.run("RingPrio", tlc.cfg_text(next="NextBad", constants=base, properties=["NewGetsMax"]), workers=workers, tag="rpbad")
    if not r.violated:
        bad.append("canary: AddBad not refuted by NewGetsMax")
    # reset_max_priority with the initial value as a floor: refuted exactly when the lattice reaches below the initial maximum
    c2 = dict(base, MaxAdds=3, **_default(2))
    r = tlc.run("RingPrio", tlc.cfg_text(next="NextBadReset", constants=c2, invariants=["ResetExact"]), workers=workers, tag="rpbadr")
    if r.violated != "ResetExact":
        bad.append(f"canary: ResetMaxFloor not refuted by ResetExact in the lattice {{1,3}}/2 ({r.violated})")
    r = tlc.run("RingPrio", tlc.cfg_text(next="NextBadReset", constants=c2, properties=["NewAfterReset"]), workers=workers, tag="rpbadn")
    if not r.violated:
        bad.append("canary: ResetMaxFloor not refuted by NewAfterReset in the lattice {1,3}/2")
    r = tlc.run("RingPrio", tlc.cfg_text(constants=dict(c2, K=2), invariants=["NoResetAllBelow"]), workers=workers, tag="rpreach")
    if r.violated != "NoResetAllBelow":
        bad.append("canary: no reset of a full buffer with every priority below the initial maximum reachable (K=2, {1,3}/2)")
    r = tlc.run("RingPrio", tlc.cfg_text(constants=c2, invariants=["NoResetAllAbove"]), workers=workers, tag="rpreach")
    if r.violated != "NoResetAllAbove":
        bad.append("canary: no reset of a full buffer with every priority above the initial maximum reachable ({1,3}/2)")
    # multi-task: a reset that recomputes only the task of the last batch must be refuted, and the history that tells it
    # apart (a task other than the last sampled one whose tracked maximum went stale since the previous reset) must be
    # reachable in every multi-task lattice the replay uses
    for k, n, m, b, unit in mt_cfgs:
        c3 = dict(K=k, N=n, MaxAdds=m, PrioVals={1, 3}, MaxBatch=b, STRAT=False, EMIT=False, **_default(unit))
        r = tlc.run("RingPrio", tlc.cfg_text(next="NextBadResetLast", constants=c3, invariants=["ResetExact"]), workers=workers, tag="rpbadl")
        if r.violated != "ResetExact":
            bad.append(f"canary: ResetMaxLastSampled not refuted by ResetExact (K={k} N={n} adds<={m} unit={unit}: {r.violated})")
        r = tlc.run("RingPrio", tlc.cfg_text(constants=c3, properties=["NoResetStaleOther"]), workers=workers, tag="rpreach")
        if not r.violated:
            bad.append(f"canary: no reset while another task than the last sampled one tracks a stale maximum reachable (K={k} N={n} adds<={m} unit={unit})")
    # the prioritized subtrajectory buffer: every configuration with unit > 1 must reach a reset below the initial maximum
    for n, h, m, b, unit in subtraj_cfgs:
        c = dict(N=n, H=h, MaxAdds=m, PRIO=True, PrioVals={1, 3}, MaxBatch=b, EMIT=False, PrioDefault=tlc.Subst(f"PrioDefault{unit}"))
        r = tlc.run("Subtraj", tlc.cfg_text(constants=c, invariants=["NeverAllBelow"]), workers=workers, tag="streach")
        if r.violated != "NeverAllBelow":
            bad.append(f"canary: Subtraj N={n} H={h} adds<={m} batch<={b} unit={unit} reaches no reset below the initial maximum")
    return {"canary": bad}


def ring_job(kind, k, n, m, b, strat, workers=4, unit=1, vals=(1, 3)):
    out = {"tlc": [], "violations": [], "edges": 0, "nontrivial": 0, "sample": None}
    c = dict(K=k, N=n, MaxAdds=m, PrioVals=set(vals), MaxBatch=b, STRAT=strat, EMIT=False, **_default(unit))
    r = tlc.run("RingPrio", tlc.cfg_text(constants=c, invariants=INV, properties=PROPS), tag="rp", timeout=1500, workers=workers)
    out["tlc"].append({"name": f"RingPrio {kind} K={k} N={n} adds<={m} batch<={b} priorities {sorted(vals)}/{unit}", "distinct": r.distinct, "generated": r.generated, "depth": r.depth, "wall_s": round(r.wall_s, 1)})
    if not r.ok:
        out["violations"].append((f"spec:RingPrio:{r.violated}", f"design-level violation {r.violated}", r.error_trace))
        return out
    c["EMIT"] = True
    g = tlc.run("RingPrio", tlc.cfg_text(constants=c, view="View"), workers=1, tag="rpgen", timeout=1500)
    G = graph.Graph(g.emitted)
    res = graph.cover(G, G.roots()[0], lambda: PrioAdapter(kind, n, k, unit), step, project)
    out["edges"] = res["edges_tested"]
    # histories on one live object (no cloning between calls): state the projection does not show must not matter
    wres = graph.walks(G, G.roots()[0], lambda: PrioAdapter(kind, n, k, unit), step, project, n=16, max_len=3 * m, seed=n * 31 + m)
    out["edges"] += wres["walks"]
    res["violations"] += wres["violations"]
    out["nontrivial"] = sum(1 for kk, es in G.out.items() for e in es if G.state[kk]["cnt"] > 0)
    if unit > 1:
        out["resets_below"] = _reset_canary(G, kind, k, n, unit, bind=not res["violations"])
    cls = {"LAP": "LAP", "PER": "PrioritizedReplayBuffer"}[kind] + ("[multi-task]" if k > 1 else "")
    for v in res["violations"]:
        out["violations"].append((f"{cls}:{v['path'][-1]['op']}:{v['code']}", f"{cls} (N={n}): {v['what']}",
                                  {"kind": kind, "K": k, "N": n, "unit": unit, "path": v["path"], "detail": v["detail"]}))
    out["sample"] = {"class": cls, "transition": g.emitted[len(g.emitted) // 2]}
    return out


def _tables(seed):
    """Record tables of the priority functions / weights for PrioFn.tla."""
    from fractions import Fraction

    from rl_blox.blox import replay_buffer as rb

    tabs = []
    rs = np.random.default_rng(seed)
    grid = sorted(set([0.0, 1e-30, 1e-8, 0.25, 0.5, 1.0, float(np.nextafter(np.float32(1), np.float32(2))), 2.0, 3.0, 1e4, 1e30] + [float(x) for x in np.abs(rs.normal(size=6)).astype(np.float32)]))
    x32 = np.asarray(grid, dtype=np.float32)
    zero = exact.ord32(0.0)
    for alpha in (0.1, 0.4, 0.6, 1.0):
        for p in (1.0, 0.25, 4.0):  # minimum priorities below, at and above 1 (above 1 with alpha < 1 the threshold matters)
            y = np.asarray(rb.lap_priority(x32, p, alpha), dtype=np.float32)
            tabs.append({"kind": "prio", "fn": "lap", "exact": False, "xo": [exact.ord32(v) for v in x32], "yo": [exact.ord32(v) for v in y], "zero": zero})
        for eps in (1e-6, 0.25):
            y = np.asarray(rb.per_priority(x32, alpha, eps), dtype=np.float32)
            tabs.append({"kind": "prio", "fn": "per", "exact": False, "xo": [exact.ord32(v) for v in x32], "yo": [exact.ord32(v) for v in y], "zero": zero})
    dy = [0.0, 0.25, 0.5, 1.0, 1.5, 2.0, 3.0, 8.0]
    xd = np.asarray(dy, dtype=np.float32)
    for fn, p in (("lap", 1.0), ("lap", 0.5), ("lap", 4.0), ("per", 0.25), ("per", 2.0)):
        y = np.asarray(rb.lap_priority(xd, p, 1.0) if fn == "lap" else rb.per_priority(xd, 1.0, p), dtype=np.float32)
        fr = lambda v: [Fraction(float(v)).numerator, Fraction(float(v)).denominator]
        if any(max(abs(a), b) >= 2**31 for a, b in map(fr, y)):
            raise Mismatch(f"{fn}_priority with alpha=1 returns a non-dyadic value on dyadic inputs: {y.tolist()}")
        tabs.append({"kind": "prio", "fn": fn, "exact": True, "x": [fr(v) for v in xd], "y": [fr(v) for v in y], "p": fr(p),
                     "xo": [exact.ord32(v) for v in xd], "yo": [exact.ord32(v) for v in y], "zero": zero})
    # importance weights for general beta on a PER buffer with varied priorities: whole numbers 1..8, and the same in
    # units of 1/8 (all at or below the initial maximum 1.0, as |delta|**alpha + eps yields for small TD errors)
    for beta in (0.0, 0.4, 0.7, 1.0):
        for unit in (1, 8):
            buf = rb.PrioritizedReplayBuffer(6)
            prof = bufkit.default_profile()
            for i in range(1, 7):
                buf.add_sample(**prof.encode(i))
            pr = [int(v) for v in rs.integers(1, 9, size=6)]
            buf.priority.priority[:6] = np.asarray(pr, dtype=float) / unit
            idx = np.asarray(rs.integers(0, 6, size=5))
            w = np.asarray(buf.compute_importance_ratio(idx, beta), dtype=np.float32)
            tabs.append({"kind": "weights", "p": [pr[j] for j in idx], "unit": unit, "wo": [exact.ord32(v) for v in w], "zero": zero, "one": exact.ord32(1.0), "beta": str(beta)})
    return tabs


def _check_tables(rep, tabs, expect_ok=True):
    os.makedirs(os.path.join(tlc.OUT, "tmp"), exist_ok=True)
    path = os.path.join(tlc.OUT, "tmp", f"priofn-{os.getpid()}.json")
    with open(path, "w") as f:
        json.dump(tabs, f)
    invs = ["PrioPositive", "PrioMonotone", "PrioExact", "WeightsRange", "WeightsMaxOne", "WeightsAntitone"]
    try:
        r = tlc.run("PrioFn", tlc.cfg_text(invariants=invs), workers=1, env={"TRACE_FILE": path}, tag="priofn")
    finally:
        os.remove(path)
    return r


def run(rep):
    quick = rep.tier == "quick"
    for m in ("RingPrio", "Subtraj", "PrioFn"):
        tlc.sany(m)
    rep.rule = (
        "TLC enumerates the bounded state graph of RingPrio / Subtraj(PRIO) incl. every tick vector (uniform variate class) of every reachable "
        "priority vector, over whole-number priorities and over a lattice with values below and above the initial maximum 1.0 (resets with every "
        "stored priority below it are counted); each transition is replayed into the real buffers; non-trivial = pre-state has at least one stored transition; "
        "RingPrioTicks: per priority vector (equal priorities of every size, unequal, masked) TLC tabulates the variate classes at 0, 1, every cumulative boundary "
        "(+- ulps) and every tick with the admissible index set; each class is fed as a double through the generator stub into the plain and the stratified sampler"
    )
    ev = nt = 0
    # (kind, K, N, adds, batch, stratified, unit): unit 1 = whole-number priorities 1..3 (initial maximum 1 is the smallest
    # value there is); unit 2 = the model values 1, 2, 3 are 0.5, 1.0 (initial maximum), 1.5: update_priority writes values
    # below and above the initial maximum, so resets / additions with every stored priority below 1.0 are explored
    cfgs = [("LAP", 1, 3, 4, 2, False, 1), ("PER", 1, 3, 4, 2, True, 1), ("LAP", 2, 2, 3, 1, False, 1),
            ("LAP", 1, 3, 4, 1, False, 2), ("PER", 1, 2, 4, 2, True, 2), ("LAP", 2, 2, 2, 1, False, 2)] if quick else [
        ("LAP", 1, 2, 5, 2, False, 1), ("LAP", 1, 3, 5, 2, False, 1), ("PER", 1, 3, 5, 2, True, 1), ("PER", 1, 2, 5, 2, True, 1),
        ("LAP", 2, 2, 4, 1, False, 1), ("PER", 2, 2, 4, 1, True, 1), ("LAP", 1, 4, 5, 1, False, 1),
        ("LAP", 1, 3, 4, 2, False, 2), ("PER", 1, 3, 4, 2, True, 2), ("LAP", 1, 2, 5, 2, False, 2), ("PER", 1, 2, 5, 2, True, 2),
        ("LAP", 2, 2, 3, 1, False, 2), ("PER", 2, 2, 3, 1, True, 2), ("LAP", 1, 4, 5, 1, False, 2)]
    from .. import par

    jobs = [(kind, k, n, m, b, strat, 4, unit) for kind, k, n, m, b, strat, unit in cfgs]
    scfgs = [(3, 1, 3, 2, 1), (4, 2, 4, 1, 1), (3, 1, 3, 1, 2)] if quick else [
        (3, 1, 5, 2, 1), (4, 2, 6, 2, 1), (5, 2, 6, 1, 1), (3, 1, 3, 2, 2), (3, 1, 4, 1, 2), (4, 2, 4, 1, 2)]
    sjobs = [(n, h, m, True, (1, 3), b, tuple(sb.INV_C04 + sb.INV_C08), f"(C08, priorities [1, 3]/{unit})", False, rep.seed, 4, False, unit, tuple(sb.PROPS_C08))
             for n, h, m, b, unit in scfgs]
    # the pool hands the jobs out in this order: the subtrajectory replays are the longest
    mt_cfgs = sorted({(k, n, m, b, unit) for kind, k, n, m, b, strat, unit in cfgs if k > 1})
    tjob = (c08_extra.QUICK if quick else c08_extra.THOROUGH, rep.seed, 4)
    alljobs = [("subtraj", j) for j in sjobs] + [("ticks", tjob), ("canary", ([c for c in scfgs if c[4] > 1], 4, mt_cfgs))] + [("ring", j) for j in jobs]
    outs = par.pmap(_job, alljobs, procs=8)
    below = 0
    for o in outs:
        if "canary" in o:
            if o["canary"]:
                raise tlc.MachineryError("; ".join(o["canary"]))
            continue
        below += o.get("resets_below", 0)
        if "ticks" in o:
            rep.extra["boundary_variates"] = o["ticks"]
        r = sb.merge(rep, o)
        if r:
            ev += r[0]
            nt += r[1]
    rep.extra["resets_with_all_priorities_below_initial_maximum"] = below
    # order predicates on recorded tables
    try:
        tabs = _tables(rep.seed)
    except Mismatch as m:
        rep.violation("priority_fn:alpha1_not_exact", m.what, None)
        tabs = None
    if tabs:
        r = _check_tables(rep, tabs)
        rep.add_tlc(r, "PrioFn order predicates on recorded tables")
        rep.traces += len(tabs)
        ev += len(tabs)
        if not r.ok:
            rep.violation(f"priority_fn:{r.violated}", f"recorded table violates {r.violated}", {"tables": tabs, "trace": r.error_trace[:2000]})
        bad = json.loads(json.dumps(tabs))
        bad[0]["yo"][3] = bad[0]["yo"][1] - 5
        rb_ = _check_tables(rep, bad)
        if rb_.ok:
            raise tlc.MachineryError("binding canary: corrupted priority table accepted")
        rep.sample({"table": {k: v for k, v in tabs[-1].items()}})
    rep.evaluations, rep.distinct, rep.exhaustive = ev, nt, True
    rep.assumptions += [
        "priorities are small multiples of 1 or of 1/2 (exact in binary floating point); proportionality for float priorities spanning many orders of magnitude is not decided",
        "boundary variates (RingPrioTicks): variates on the generator's grid k*2**-53 (what numpy's uniform returns), within a few ulp of 0, 1 and every cumulative boundary, priorities in units of 1, 1/2, 1/10; within a few ulp of the boundary of two positive strata either neighbour is accepted (measure <= 2^-50, no effect on p_i/sum p); the variates 0.0 and 5e-324 only have to stay inside the filled region",
        "beta=1 weights compared with rtol 1e-12 (four float64 operations); general beta only by order predicates on float32-rounded ordinals (monotone rounding)",
        "lap/per priority values only for alpha=1 (exact); other alpha by positivity/monotonicity on ordinals",
    ]


def replay(path, rep):
    d = json.load(open(path))["replay"]
    if d is None:
        return 0
    if "H" in d:
        return sb.replay(path, "C08")
    if "ticks" in d:
        rc = c08_extra.replay(d["ticks"])
        if rc:
            print("VIOLATION property=C08 replay=" + path)
        return rc
    if "tables" in d:
        r = _check_tables(rep, d["tables"])
        print("tables ok" if r.ok else f"VIOLATION property=C08 replay={path}")
        return 0 if r.ok else 1
    ad = PrioAdapter(d["kind"], d["N"], d["K"], d.get("unit", 1))
    want = (d.get("detail") or {}).get("want")
    try:
        for i, st in enumerate(d["path"]):
            step(ad, st["op"], st["args"], st.get("exp"), None, None)
            got = project(ad)
            print(st["op"], st["args"], "->", got)
            if i == len(d["path"]) - 1 and want is not None and graph.canon(got) != graph.canon(want):
                raise Mismatch(f"state after the last step differs from the model's {want}")
    except Exception as m:
        print("VIOLATION property=C08 replay=" + path)
        print("  ", repr(m))
        return 1
    return 0
