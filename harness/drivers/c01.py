"""C01 - stored experience equals what the environment actually produced."""
from .. import sweep, tlc

LEVEL = "model_checking"
MANIFEST = dict(
    category="model_checking",
    text="Loop.tla models the agent-environment protocol (choose action, env step, store, learn, advance/reset, return) with a nondeterministic environment; TLC checks StoredFaithful / FirstOfEpisodeFromReset / CondFaithful on all behaviours within the bound and refutes the stale-observation, done-flag, both-flags-kept-as-not-terminated, misaligned-batch and shared-reward-list deviations (the environment's step kinds are continue / terminated / truncated / both flags at once). Every training routine is then run on a scripted environment whose observations are identifiers, with recording buffers / rollout wrappers and policy probes; LoopTrace.tla validates every event of every run clause by clause with the same clause operators (StoreObs/Act/Reward/Next/Term, CondFaithful, ExploredActionPassed, ChosenActionPassed); the rows actually handed to the on-policy learners (interposed update functions of A2C / PPO / REINFORCE / actor-critic: LearnRowObs/Act/Reward/Next/Term judge every row of the prepared batch against the environment log, whatever its layout) and Dyna-Q's whole experience record at every model update (RecordNotProduced / RecordCount / RecordReward / RecordMissing).",
    note="runs of ~15-30 environment steps per scenario (3 quick / 5 thorough scenarios per routine: one-step episodes, truncation vs termination vs both flags on one step, boundary at warm-up, wrap-around capacity, start>0, episode limits); trusted: scripted environment, recording wrappers, tag decoding, TLC",
    technique="TLA+ design model checked with TLC + trace validation of recorded executions of every train_* routine",
)


def run(rep):
    quick = rep.tier == "quick"
    for m in ("LoopClauses", "Loop", "LoopTrace"):
        tlc.sany(m)
    sweep.design_model(rep, "C01", quick)
    traces, out = sweep.report_property(rep, "C01")
    sweep.binding_canary(traces, "obs", "add", "StoreObs")
    sweep.binding_canary(traces, "lrows.act", "learn_rows", "LearnRowAct")
    sweep.binding_canary(traces, "rec.rs", "experience", "RecordNotProduced")
    # step kinds are complete: every routine met steps that return terminated AND truncated at once, and keeping such a
    # step as "not terminated" is rejected
    rep.extra["steps_with_both_flags"] = sweep.both_flag_coverage(traces)
    sweep.binding_canary(traces, "term_of_both", "add", "StoreTerm")
    adds = sum(1 for t in traces for e in t["events"] if e["ev"] == "add")
    pol = sum(1 for t in traces for e in t["events"] if e["ev"] == "policy")
    rep.evaluations = adds + pol
    rep.distinct = adds
    rep.rule = "one case = one kept transition (add event) or one policy evaluation of a recorded run; non-trivial = kept transitions (each is compared field by field with the environment step it must equal)"
    rep.extra["kept_transitions_checked"] = adds
    rep.extra["policy_evaluations_checked"] = pol
    t0 = traces[0]
    rep.sample({"trace": t0["id"], "first_events": [{k: v for k, v in e.items() if k not in ("ver", "actf")} for e in t0["events"][:8]]})
    rep.assumptions += ["bounded run lengths; configurations per routine as in harness/algos*.py", "routines without a replay buffer: kept transitions are reconstructed from the rollout / episode data the routine keeps"]


def replay(path, rep):
    import json

    d = json.load(open(path))["replay"]
    rc = sweep.replay_one(d, "C01")
    if rc:
        print(f"VIOLATION property=C01 replay={path}")
    return rc
