"""C14 - tabular learners apply their textbook update to exactly one entry.

spec/TabularOps.tla (operators, one per code section), spec/Tabular.tla (single
updates as staged test vectors + declarative invariants), spec/TabularRun.tla
(Monte-Carlo episodes and Dyna-Q model histories + MCMean / ModelIsEmpirical),
spec/TabularTrace.tla (validation of the update calls recorded in train_* runs).

spec -> code: every vector / transition TLC emits is replayed into the real
(jitted) functions and compared exactly on dyadic lattices (set membership
under ties).  code -> spec: train_* runs on a scripted stochastic tabular
environment with the module-level update functions interposed; the recorded
calls are validated by TLC (TabularTrace) and the returned tables compared
with the fold.
"""
from __future__ import annotations

import importlib
import json
import os
from fractions import Fraction

import numpy as np

from .. import graph, tlc
from ..graph import Mismatch

LEVEL = "model_checking"
MANIFEST = dict(
    category="model_checking",
    text="TLC checks the declarative textbook laws (OnlyVisitedEntryChanges, UpdateEquation, TerminalTarget, MCMean, ModelIsEmpirical, RowsNormalised) on operator models of every tabular update of rl_blox over complete dyadic lattices / bounded histories; every emitted vector and transition is replayed into the real jitted functions (_update_policy of Q-learning and SARSA, _dql_update, monte_carlo.update, dynaq.q_learning_update / counter_update / model_update / planning) with exact comparison and set membership under ties; update calls recorded in short train_* runs on a scripted stochastic environment are validated by TLC with the same operators. The law is a for-all over table contents and transitions, which an exhaustive small lattice with exact arithmetic decides sharply.",
    note="|S|<=3, |A|=2, entries/rewards/gamma/lr from small dyadic sets, histories <= 4 transitions / 2-3 episodes exhaustively plus simulated longer ones; train runs <= 12 steps; trusted: TLC, Exact.tla, float<->rational projection in the driver, jax.vmap of the real function for the bulk replay (a sample is also called un-batched)",
    technique="TLA+ spec + TLC (invariants on vector lattices and history graphs); replay of TLC-generated vectors/transitions into the real update functions; TLC trace validation of interposed train_* runs",
)
W = int(os.environ.get("VERIF_TLC_WORKERS", "16"))
VEC_INVS = ["OnlyVisitedEntryChanges", "UpdateEquation", "TerminalTarget", "GreedyIsMax"]
K_DQL = "double_q_learning:greedy_at_current_state"
K_MODEL = "dynaq:model_row_not_renormalised"
OUT_TMP = os.path.join(tlc.OUT, "tmp")


# ---------------------------------------------------------------- projections
def fq(x) -> float:
    return x[0] / x[1]


def tab(t) -> np.ndarray:
    """nested JSON rationals -> float64 array (exact for the dyadic lattice)"""
    a = np.asarray(t, dtype=np.float64)
    return a[..., 0] / a[..., 1]


def rat(v, bound=1 << 14):
    """float -> [n, d] exactly; None if too large for TLC's 32-bit integers"""
    f = Fraction(float(v))
    if abs(f.numerator) >= bound or f.denominator >= bound:
        return None
    return [f.numerator, f.denominator]


def rtab(a, bound=1 << 14):
    a = np.asarray(a)
    if a.ndim == 0:
        return rat(a, bound)
    out = [rtab(x, bound) for x in a]
    return None if any(o is None for o in out) else out


def ulp(m) -> float:
    return float(np.spacing(np.float32(abs(m) if m else 1e-30)))


def close(v, x, ulps):
    """float v vs rational x=[n,d]: exact, or within `ulps` float32 ulp of |x|"""
    fx = Fraction(int(x[0]), int(x[1]))
    if Fraction(float(v)) == fx:
        return True
    return ulps > 0 and abs(float(v) - float(fx)) <= ulps * ulp(float(fx))


def _mods():
    import jax  # noqa: F401
    from rl_blox.algorithm import double_q_learning, dynaq, monte_carlo, q_learning, sarsa
    from rl_blox.blox import value_policy

    return dict(ql=q_learning, sarsa=sarsa, dql=double_q_learning, mc=monte_carlo, dyna=dynaq, vp=value_policy)


# ---------------------------------------------------------------- A. single updates
def call_single(M, w):
    """One un-batched call with the argument kinds the train loops use. Returns (table, next_action or None)."""
    import jax
    import jax.numpy as jnp

    alg = w["alg"]
    qA = jnp.asarray(tab(w["qA"]), dtype=jnp.float32)
    s, a, s2 = w["s"], w["a"], w["s2"]
    r, g, lr, term = fq(w["r"]), fq(w["gamma"]), fq(w["lr"]), bool(w["term"])
    if alg == "QL":
        a2 = M["vp"].greedy_policy(qA, s2)
        return np.asarray(M["ql"]._update_policy(qA, s, jnp.int32(a), r, s2, a2, g, term, lr)), int(a2)
    if alg == "SARSA":
        return np.asarray(M["sarsa"]._update_policy(qA, s, jnp.int32(a), r, s2, jnp.int32(w["a2"]), g, lr, term)), None
    if alg == "DQL":
        qB = jnp.asarray(tab(w["qB"]), dtype=jnp.float32)
        return np.asarray(M["dql"]._dql_update(jax.random.key(0), qA, qB, s, jnp.int32(a), r, s2, g, lr, term)), None
    if alg == "DYNA":
        return np.asarray(M["dyna"].q_learning_update(s, a, r, s2, g, lr, qA)), None
    if alg == "PLAN":
        ns, na = qA.shape
        T = np.full((ns, na, ns), 1.0 / ns, dtype=np.float32)
        R = np.full((ns, na, ns), 7.0, dtype=np.float32)
        T[s, a] = tab(w["trow"])
        R[s, a] = tab(w["rrow"])
        out = M["dyna"].planning(
            jnp.asarray(T), jnp.asarray(R), jnp.asarray([s], dtype=int), jnp.asarray([a], dtype=int),
            w["n"], jax.random.key(w["n"] + 3 * s), g, lr, qA,
        )
        return np.asarray(out), None
    raise AssertionError(alg)


def call_batch(M, alg, ws):
    """The real function under jax.vmap over all vectors of one TLC run."""
    import jax
    import jax.numpy as jnp

    QA = jnp.asarray(np.stack([tab(w["qA"]) for w in ws]), dtype=jnp.float32)
    i32 = lambda k: jnp.asarray([w[k] for w in ws], dtype=jnp.int32)
    f32 = lambda k: jnp.asarray([fq(w[k]) for w in ws], dtype=jnp.float32)
    s, a, s2, a2 = i32("s"), i32("a"), i32("s2"), i32("a2")
    r, g, lr = f32("r"), f32("gamma"), f32("lr")
    term = jnp.asarray([bool(w["term"]) for w in ws])
    if alg == "QL":
        na2 = jax.vmap(M["vp"].greedy_policy)(QA, s2)
        return np.asarray(jax.vmap(M["ql"]._update_policy)(QA, s, a, r, s2, na2, g, term, lr)), np.asarray(na2)
    if alg == "SARSA":
        return np.asarray(jax.vmap(M["sarsa"]._update_policy)(QA, s, a, r, s2, a2, g, lr, term)), None
    if alg == "DQL":
        QB = jnp.asarray(np.stack([tab(w["qB"]) for w in ws]), dtype=jnp.float32)
        f = lambda qa, qb, s_, a_, r_, s2_, g_, lr_, t_: M["dql"]._dql_update(jax.random.key(0), qa, qb, s_, a_, r_, s2_, g_, lr_, t_)
        return np.asarray(jax.vmap(f)(QA, QB, s, a, r, s2, g, lr, term)), None
    if alg == "DYNA":
        return np.asarray(jax.vmap(M["dyna"].q_learning_update)(s, a, r, s2, g, lr, QA)), None
    raise AssertionError(alg)


def judge_single(alg, e, got, na2):
    """Compare one real result with the model's admissible set. Returns list of (key, what)."""
    w = e["v"]
    bad = []
    pre = tab(w["qA"])
    s, a = w["s"], w["a"]
    got = np.asarray(got, dtype=np.float64)
    mask = np.ones(pre.shape, dtype=bool)
    mask[s, a] = False
    name = {"QL": "q_learning", "SARSA": "sarsa", "DQL": "double_q_learning", "DYNA": "dynaq", "PLAN": "dynaq:planning"}[alg]
    if got.shape != pre.shape:
        return [(f"{name}:result_shape", f"result shape {got.shape} differs from table shape {pre.shape}")]
    if not np.array_equal(got[mask], pre[mask]):
        bad.append((f"{name}:other_entry_changed", f"entries other than ({s},{a}) changed: {got.tolist()} from {pre.tolist()}"))
    if na2 is not None and int(na2) not in e["g2"]:
        bad.append(("greedy_policy:not_a_maximiser", f"greedy_policy returned {int(na2)}, maximisers at s2 are {e['g2']}"))
    adm = [tab(t) for t in e["adm"]]
    if not any(got[s, a] == t[s, a] for t in adm):
        if alg == "DQL" and got[s, a] == tab(e["dev"])[s, a]:
            bad.append((K_DQL, f"_dql_update takes the greedy action of the updated table at the CURRENT state {s} instead of the successor {w['s2']}: entry ({s},{a}) became {got[s, a]}, admissible {[float(t[s, a]) for t in adm]}"))
        else:
            bad.append((f"{name}:update_value", f"entry ({s},{a}) became {got[s, a]}, admissible {[float(t[s, a]) for t in adm]}"))
    return bad


def check_vectors(rep, M, alg, ns, lat, counters):
    c = dict(NS=ns, NA=2, ALG=alg, LAT=lat, EMIT=True)
    r = tlc.run("Tabular", tlc.cfg_text(constants=c, invariants=VEC_INVS), workers=1, coverage=True, tag=f"c14v{alg}", timeout=1500)
    rep.add_tlc(r, f"Tabular {alg} NS={ns} LAT={lat} invariants+vectors")
    if not r.ok:
        rep.violation(f"spec:Tabular:{alg}:{r.violated}", f"design-level violation of {r.violated} ({alg})", r.error_trace)
        return
    tlc.require_covered(r, ["ChooseIdx", "ChooseTables", "ChooseParams"])
    es = r.emitted
    if not es:
        raise tlc.MachineryError(f"no vectors emitted for {alg}")
    rng = np.random.default_rng(rep.seed + 17 * ns + lat)
    if alg == "PLAN":
        k = min(len(es), 400 if rep.tier == "quick" else 2500)
        idx = rng.choice(len(es), size=k, replace=False)
        # ties of the model row are the interesting cases: take all of a bounded number of them first
        pick = [es[i] for i in idx]
        results = []
        for e in pick:
            try:
                results.append((e, call_single(M, e["v"])[0], None))
            except Exception as ex:  # the code under test raised
                rep.violation("dynaq:planning:exception", f"planning raised {type(ex).__name__}: {str(ex)[:200]}", {"kind": "vector", "e": e})
    else:
        ws = [e["v"] for e in es]
        try:
            out, na2 = call_batch(M, alg, ws)
        except Exception as ex:
            rep.violation(f"{alg}:exception", f"update function raised {type(ex).__name__}: {str(ex)[:200]}", {"kind": "vector", "e": es[0]})
            return
        results = [(e, out[i], None if na2 is None else na2[i]) for i, e in enumerate(es)]
        # un-batched calls with python scalars, as the train loops call them
        for i in rng.choice(len(es), size=min(len(es), 150 if rep.tier == "quick" else 600), replace=False):
            try:
                g1, n1 = call_single(M, es[i]["v"])
            except Exception as ex:
                rep.violation(f"{alg}:exception", f"update function raised {type(ex).__name__}: {str(ex)[:200]}", {"kind": "vector", "e": es[i]})
                continue
            results.append((es[i], g1, n1))
            if not np.array_equal(g1, out[i]):
                raise tlc.MachineryError(f"vmap of the real {alg} update differs from the un-batched call on {es[i]['v']}")
    for e, got, n2 in results:
        counters["evals"] += 1
        w = e["v"]
        if any(tab(t)[w["s"], w["a"]] != tab(w["qA"])[w["s"], w["a"]] for t in e["adm"]):
            counters["nontrivial"] += 1
        if len(e["adm"]) > 1:
            counters["ties"] += 1
        for key, what in judge_single(alg, e, got, n2):
            rep.violation(key, what, {"kind": "vector", "e": e})
    rep.sample({"vector": es[int(rng.integers(len(es)))]})
    return es
