"""C14 - tabular learners apply their textbook update to exactly one entry.

spec/TabularOps.tla (operators, one per code section), spec/Tabular.tla (single
updates as staged test vectors + declarative invariants), spec/TabularRun.tla
(Monte-Carlo episodes and Dyna-Q model histories + MCMean / ModelIsEmpirical),
spec/TabularTrace.tla (validation of the update calls recorded in train_* runs).

spec -> code: every vector / transition TLC emits is replayed into the real
(jitted) functions and compared exactly on dyadic lattices (set membership
under ties).  code -> spec: train_* runs on a scripted stochastic tabular
environment with the module-level update functions interposed; the recorded
calls are validated by TLC (TabularTrace) and the returned tables compared
with the fold.
"""
from __future__ import annotations

import json
import os
from fractions import Fraction

import numpy as np

from .. import graph, tlc
from ..graph import Mismatch

LEVEL = "model_checking"
MANIFEST = dict(
    category="model_checking",
    text="TLC checks the declarative textbook laws (OnlyVisitedEntryChanges, UpdateEquation, TerminalTarget, MCMean, ModelIsEmpirical, RowsNormalised) on operator models of every tabular update of rl_blox over complete dyadic lattices / bounded histories; every emitted vector and transition is replayed into the real jitted functions (_update_policy of Q-learning and SARSA, _dql_update, monte_carlo.update, dynaq.q_learning_update / counter_update / model_update / planning) with exact comparison and set membership under ties; double Q-learning additionally on near-tie successor rows (values equal or 1-6 float32 steps apart at several magnitudes and signs, given as float32 ordinals on which TLC decides the maximiser set; several random keys per vector), Monte-Carlo additionally with discount 0 and on episodes of hundreds of steps (returns-to-go cycling through dyadic values, rewards derived from them, so that the exact rationals stay small while gamma^t leaves the float32 range); update calls recorded in short train_* runs on a scripted stochastic environment are validated by TLC with the same operators. The law is a for-all over table contents and transitions, which an exhaustive small lattice with exact arithmetic decides sharply.",
    note="|S|<=3, |A|=2, entries/rewards/gamma/lr from small dyadic sets, histories <= 4 transitions / 2-3 episodes exhaustively plus simulated longer ones; pattern episodes of 200 (thorough: 120-257) steps with return / pair periods 1-2; train runs <= 12 steps; trusted: TLC, Exact.tla, float<->rational projection in the driver, jax.vmap of the real function for the bulk replay (a sample is also called un-batched)",
    technique="TLA+ spec + TLC (invariants on vector lattices and history graphs); replay of TLC-generated vectors/transitions into the real update functions; TLC trace validation of interposed train_* runs",
)
W = int(os.environ.get("VERIF_TLC_WORKERS", "16"))
VEC_INVS = ["OnlyVisitedEntryChanges", "UpdateEquation", "TerminalTarget", "GreedyIsMax"]
K_DQL = "double_q_learning:greedy_at_current_state"
K_MODEL = "dynaq:model_row_not_renormalised"
K_NEAR = "double_q_learning:near_tie_treated_as_tie"
JAVA_DEEP = {"JAVA_TOOL_OPTIONS": "-Xmx8g -Xss512m"}  # long episodes: Exact.tla's folds recurse once per step
OUT_TMP = os.path.join(tlc.OUT, "tmp")


# ---------------------------------------------------------------- projections
def fq(x) -> float:
    return x[0] / x[1]


def tab(t) -> np.ndarray:
    """nested JSON rationals -> float64 array (exact for the dyadic lattice)"""
    a = np.asarray(t, dtype=np.float64)
    return a[..., 0] / a[..., 1]


def rat(v, bound=1 << 12):
    """float -> [n, d] exactly; None if too large for TLC's 32-bit integers"""
    f = Fraction(float(v))
    if abs(f.numerator) >= bound or f.denominator >= bound:
        return None
    return [f.numerator, f.denominator]


def rtab(a, bound=1 << 12):
    a = np.asarray(a)
    if a.ndim == 0:
        return rat(a, bound)
    out = [rtab(x, bound) for x in a]
    return None if any(o is None for o in out) else out


def float_of_ord(o) -> np.float32:
    """D4, inverse of exact.ord32: float32 ordinal -> float32 (sign-magnitude bit pattern)."""
    o = int(o)
    v = np.array([abs(o)], dtype=np.uint32).view(np.float32)[0]
    return np.float32(-v) if o < 0 else v


def qa_float(w) -> np.ndarray:
    """The updated table of a vector as float32 values (held in float64).  Near-tie vectors give the successor row by
    float32 ordinals; the visited entry, where it lies in that row, must be the rational TLC computed with."""
    t = tab(w["qA"])
    if w.get("orow"):
        from .. import exact

        row = np.asarray([float_of_ord(o) for o in w["orow"]], dtype=np.float32)
        if any(exact.ord32(x) != int(o) or not np.isfinite(x) for x, o in zip(row, w["orow"])):
            raise tlc.MachineryError(f"ordinals {w['orow']} do not denote finite float32 numbers")
        if Fraction(float(float_of_ord(w["base"]["ord"]))) != Fraction(*w["base"]["val"]):
            raise tlc.MachineryError(f"Tabular.tla's ordinal {w['base']['ord']} is not the float32 {w['base']['val']}")
        visited = t[w["s"], w["a"]]
        t[w["s2"]] = row.astype(np.float64)
        if w["s"] == w["s2"] and t[w["s"], w["a"]] != visited:
            raise tlc.MachineryError(f"near-tie vector: visited entry {visited} differs from its ordinal {w['orow'][w['a']]}")
    return t


def ulp(m) -> float:
    return float(np.spacing(np.float32(abs(m) if m else 1e-30)))


def close(v, x, ulps):
    """float v vs rational x=[n,d]: exact, or within `ulps` float32 ulp of |x|"""
    fx = Fraction(int(x[0]), int(x[1]))
    if Fraction(float(v)) == fx:
        return True
    return ulps > 0 and abs(float(v) - float(fx)) <= ulps * ulp(float(fx))


def _mods():
    from rl_blox.algorithm import double_q_learning, dynaq, monte_carlo, q_learning, sarsa
    from rl_blox.blox import value_policy

    return dict(ql=q_learning, sarsa=sarsa, dql=double_q_learning, mc=monte_carlo, dyna=dynaq, vp=value_policy)


# ---------------------------------------------------------------- A. single updates
def call_single(M, w):
    """One un-batched call with the argument kinds the train loops use. Returns (table, next_action or None)."""
    import jax
    import jax.numpy as jnp

    alg = w["alg"]
    qA = jnp.asarray(qa_float(w), dtype=jnp.float32)
    s, a, s2 = w["s"], w["a"], w["s2"]
    r, g, lr, term = fq(w["r"]), fq(w["gamma"]), fq(w["lr"]), bool(w["term"])
    if alg == "QL":
        a2 = M["vp"].greedy_policy(qA, s2)
        return np.asarray(M["ql"]._update_policy(qA, s, jnp.int32(a), r, s2, a2, g, term, lr)), int(a2)
    if alg == "SARSA":
        return np.asarray(M["sarsa"]._update_policy(qA, s, jnp.int32(a), r, s2, jnp.int32(w["a2"]), g, lr, term)), None
    if alg in ("DQL", "DQLN"):
        qB = jnp.asarray(tab(w["qB"]), dtype=jnp.float32)
        return np.asarray(M["dql"]._dql_update(jax.random.key(int(w.get("key", 0))), qA, qB, s, jnp.int32(a), r, s2, g, lr, term)), None
    if alg == "DYNA":
        return np.asarray(M["dyna"].q_learning_update(s, a, r, s2, g, lr, qA)), None
    if alg == "PLAN":
        ns, na = qA.shape
        T = np.full((ns, na, ns), 1.0 / ns, dtype=np.float32)
        R = np.full((ns, na, ns), 7.0, dtype=np.float32)
        T[s, a] = tab(w["trow"])
        R[s, a] = tab(w["rrow"])
        out = M["dyna"].planning(
            jnp.asarray(T), jnp.asarray(R), jnp.asarray([s], dtype=int), jnp.asarray([a], dtype=int),
            w["n"], jax.random.key(w["n"] + 3 * s), g, lr, qA,
        )
        return np.asarray(out), None
    raise AssertionError(alg)


def call_batch(M, alg, ws):
    """The real function under jax.vmap over all vectors of one TLC run."""
    import jax
    import jax.numpy as jnp

    QA = jnp.asarray(np.stack([qa_float(w) for w in ws]), dtype=jnp.float32)
    i32 = lambda k: jnp.asarray([w[k] for w in ws], dtype=jnp.int32)
    f32 = lambda k: jnp.asarray([fq(w[k]) for w in ws], dtype=jnp.float32)
    s, a, s2, a2 = i32("s"), i32("a"), i32("s2"), i32("a2")
    r, g, lr = f32("r"), f32("gamma"), f32("lr")
    term = jnp.asarray([bool(w["term"]) for w in ws])
    if alg == "QL":
        na2 = jax.vmap(M["vp"].greedy_policy)(QA, s2)
        return np.asarray(jax.vmap(M["ql"]._update_policy)(QA, s, a, r, s2, na2, g, term, lr)), np.asarray(na2)
    if alg == "SARSA":
        return np.asarray(jax.vmap(M["sarsa"]._update_policy)(QA, s, a, r, s2, a2, g, lr, term)), None
    if alg in ("DQL", "DQLN"):
        QB = jnp.asarray(np.stack([tab(w["qB"]) for w in ws]), dtype=jnp.float32)
        keys = jnp.asarray([int(w.get("key", 0)) for w in ws], dtype=jnp.int32)
        f = lambda k_, qa, qb, s_, a_, r_, s2_, g_, lr_, t_: M["dql"]._dql_update(jax.random.key(k_), qa, qb, s_, a_, r_, s2_, g_, lr_, t_)
        return np.asarray(jax.vmap(f)(keys, QA, QB, s, a, r, s2, g, lr, term)), None
    if alg == "DYNA":
        return np.asarray(jax.vmap(M["dyna"].q_learning_update)(s, a, r, s2, g, lr, QA)), None
    raise AssertionError(alg)


def judge_single(alg, e, got, na2):
    """Compare one real result with the model's admissible set. Returns list of (key, what)."""
    w = e["v"]
    bad = []
    pre = qa_float(w)
    s, a = w["s"], w["a"]
    got = np.asarray(got, dtype=np.float64)
    mask = np.ones(pre.shape, dtype=bool)
    mask[s, a] = False
    name = {"QL": "q_learning", "SARSA": "sarsa", "DQL": "double_q_learning", "DQLN": "double_q_learning", "DYNA": "dynaq", "PLAN": "dynaq:planning"}[alg]
    if got.shape != pre.shape:
        return [(f"{name}:result_shape", f"result shape {got.shape} differs from table shape {pre.shape}")]
    if not np.array_equal(got[mask], pre[mask]):
        bad.append((f"{name}:other_entry_changed", f"entries other than ({s},{a}) changed: {got.tolist()} from {pre.tolist()}"))
    if na2 is not None and int(na2) not in e["g2"]:
        bad.append(("greedy_policy:not_a_maximiser", f"greedy_policy returned {int(na2)}, maximisers at s2 are {e['g2']}"))
    adm = [tab(t) for t in e["adm"]]
    if not any(got[s, a] == t[s, a] for t in adm):
        if alg == "DQL" and got[s, a] == tab(e["dev"])[s, a]:
            bad.append((K_DQL, f"_dql_update takes the greedy action of the updated table at the CURRENT state {s} instead of the successor {w['s2']}: entry ({s},{a}) became {got[s, a]}, admissible {[float(t[s, a]) for t in adm]}"))
        elif alg == "DQLN" and any(got[s, a] == tab(t)[s, a] for t in e["dev"]):
            row = [float(x) for x in pre[w["s2"]]] if s != w["s2"] else [float(float_of_ord(o)) for o in w["orow"]]
            bad.append((K_NEAR, f"_dql_update (key {w['key']}) evaluates a successor action that is NOT greedy in the updated table: row {row!r} of state {w['s2']} "
                                f"(float32 ordinals {w['orow']}) has the maximiser(s) {e['g2']} but entry ({s},{a}) became {got[s, a]}, the value for an action whose value is only close to the maximum; "
                                f"admissible {[float(t[s, a]) for t in adm]} (other table's row {tab(w['qB'])[w['s2']].tolist()})"))
        else:
            bad.append((f"{name}:update_value", f"entry ({s},{a}) became {got[s, a]}, admissible {[float(t[s, a]) for t in adm]}"))
    return bad


def check_vectors(rep, M, alg, ns, lat, counters, nkeys=1):
    near = alg == "DQLN"
    c = dict(NS=ns, NA=2, ALG=alg, LAT=lat, NKEYS=nkeys, EMIT=True)
    r = tlc.run("Tabular", tlc.cfg_text(constants=c, invariants=VEC_INVS + (["StrictMaximumDecides"] if near else [])), workers=1, coverage=True, tag=f"c14v{alg}", timeout=1500)
    rep.add_tlc(r, f"Tabular {alg} NS={ns} LAT={lat} invariants+vectors")
    if not r.ok:
        rep.violation(f"spec:Tabular:{alg}:{r.violated}", f"design-level violation of {r.violated} ({alg})", r.error_trace)
        return
    tlc.require_covered(r, ["ChooseIdx", "ChooseTablesNear" if near else "ChooseTables", "ChooseParams"])
    es = r.emitted
    if not es:
        raise tlc.MachineryError(f"no vectors emitted for {alg}")
    rng = np.random.default_rng(rep.seed + 17 * ns + lat)
    if alg == "PLAN":
        k = min(len(es), 250 if rep.tier == "quick" else 2500)
        idx = rng.choice(len(es), size=k, replace=False)
        # ties of the model row are the interesting cases: take all of a bounded number of them first
        pick = [es[i] for i in idx]
        results = []
        for e in pick:
            try:
                results.append((e, call_single(M, e["v"])[0], None))
            except Exception as ex:  # the code under test raised
                rep.violation("dynaq:planning:exception", f"planning raised {type(ex).__name__}: {str(ex)[:200]}", {"kind": "vector", "e": e})
    else:
        ws = [e["v"] for e in es]
        try:
            out, na2 = call_batch(M, alg, ws)
        except Exception as ex:
            rep.violation(f"{alg}:exception", f"update function raised {type(ex).__name__}: {str(ex)[:200]}", {"kind": "vector", "e": es[0]})
            return
        results = [(e, out[i], None if na2 is None else na2[i]) for i, e in enumerate(es)]
        # un-batched calls with python scalars, as the train loops call them
        for i in rng.choice(len(es), size=min(len(es), 150 if rep.tier == "quick" else 600), replace=False):
            try:
                g1, n1 = call_single(M, es[i]["v"])
            except Exception as ex:
                rep.violation(f"{alg}:exception", f"update function raised {type(ex).__name__}: {str(ex)[:200]}", {"kind": "vector", "e": es[i]})
                continue
            results.append((es[i], g1, n1))
            if not np.array_equal(g1, out[i]):
                raise tlc.MachineryError(f"vmap of the real {alg} update differs from the un-batched call on {es[i]['v']}")
    for e, got, n2 in results:
        counters["evals"] += 1
        w = e["v"]
        if any(tab(t)[w["s"], w["a"]] != tab(w["qA"])[w["s"], w["a"]] for t in e["adm"]):
            counters["nontrivial"] += 1
        if len(e["adm"]) > 1:
            counters["ties"] += 1
        if near and len(set(w["orow"])) == len(w["orow"]) and len(e["dev"]) > 1:
            counters["near_ties_that_matter"] = counters.get("near_ties_that_matter", 0) + 1
        for key, what in judge_single(alg, e, got, n2):
            rep.violation(key, what, {"kind": "vector", "e": e})
    rep.sample({"vector": es[int(rng.integers(len(es)))]})
    return es


# ---------------------------------------------------------------- B. histories (graph cover)
MC_ULPS_PER_VISIT = 4  # per visit: subtract, reciprocal, multiply, add - each rounds once (<= 1/2 ulp of the magnitude bound)


def mc_compare(q_real, n_real, q_model, n_model, n0, mag, exact_entries=None):
    """Real table/counts vs model (rationals). Exact while all step sizes 1/n are dyadic (n <= 2) and for the entries of which
    the model says the arithmetic is rounding-free (`exact_entries`, EpisodeFacts of TabularRun.tla), else ulps by visit count."""
    nm = np.asarray(n_model)
    if not np.array_equal(np.asarray(n_real, dtype=np.float64), nm.astype(np.float64)):
        raise Mismatch(f"visit counts {np.asarray(n_real).tolist()} differ from model {nm.tolist()}", site="counts")
    all_exact = nm.max() <= 2
    for s in range(nm.shape[0]):
        for a in range(nm.shape[1]):
            exact = all_exact or bool(exact_entries is not None and exact_entries[s][a])
            x = q_model[s][a]
            v = float(q_real[s, a])
            if not np.isfinite(v):  # NaN / inf never is a mean of returns: a verdict
                raise Mismatch(f"entry ({s},{a}) is {v!r} after the episode, model {x[0]}/{x[1]} (running mean of the discounted returns, {int(nm[s, a]) - n0} visits)", site="value")
            if Fraction(v) == Fraction(int(x[0]), int(x[1])):
                continue
            visits = int(nm[s, a]) - n0
            tol = 0.0 if (exact or visits == 0) else MC_ULPS_PER_VISIT * visits * ulp(mag)
            if abs(v - x[0] / x[1]) > tol:
                raise Mismatch(f"entry ({s},{a}) is {v!r} after the episode, model {x[0]}/{x[1]} (running mean of returns, {visits} visits, tolerance {tol:g})", site="value")


class MCAdapter:
    def __init__(self, M, ns, na, n0, gamma):
        self.M, self.n0, self.gamma = M, n0, gamma
        self.q = np.array([[(12 + s * na + a) / 4 for a in range(na)] for s in range(ns)], dtype=np.float32)
        self.n = np.full((ns, na), float(n0), dtype=np.float32)
        self.ep, self.done = [], 0
        self.view = {"q": rtab(self.q), "n": self.n.astype(int).tolist(), "ep": [], "done": 0}

    def __deepcopy__(self, memo):
        o = MCAdapter.__new__(MCAdapter)
        o.M, o.n0, o.gamma = self.M, self.n0, self.gamma
        o.q, o.n, o.ep, o.done, o.view = self.q.copy(), self.n.copy(), list(self.ep), self.done, self.view
        return o


def mc_update_real(M, q, n, ep, gamma):
    import jax.numpy as jnp

    rew = jnp.asarray([fq(x[2]) for x in ep], dtype=jnp.float32)
    obs = jnp.asarray([x[0] for x in ep], dtype=jnp.int32)
    act = jnp.asarray([x[1] for x in ep], dtype=jnp.int32)
    res = M["mc"].update(jnp.asarray(q), jnp.asarray(n), rew, obs, act, gamma)
    return np.asarray(res[0]), np.asarray(res[1])


def mc_step(ad, op, args, exp, pre, post):
    if op == "MCStep":
        ad.ep.append(args)
        if post is not None:
            ad.view = post
    elif op == "MCLong":  # a whole (long) episode chosen at once: args is the episode
        ad.ep = [list(x) for x in args]
        if post is not None:
            ad.view = post
    elif op == "MCEnd":
        q2, n2 = mc_update_real(ad.M, ad.q, ad.n, ad.ep, fq(args[0]))
        if post is not None:
            facts = exp if isinstance(exp, dict) else {}
            gbound = fq(facts["gmax"]) if "gmax" in facts else sum(abs(fq(x[2])) for x in ad.ep)  # bound on |return|: from TLC
            mag = max(float(np.abs(ad.q).max()), gbound, 8.0)
            mc_compare(q2, n2, post["q"], post["n"], ad.n0, mag, exact_entries=facts.get("exact"))
            ad.view = post
        ad.q, ad.n, ad.ep, ad.done = q2, n2, [], ad.done + 1
    else:  # pragma: no cover
        raise AssertionError(op)


def model_compare(Treal, Rreal, cnt, post, prevT, s, a, s2, on_stale):
    """Counter / ForwardModel after one observed transition vs model.  Returns repaired T."""
    if cnt.transition_counter != post["count"]:
        raise Mismatch(f"transition counter {cnt.transition_counter} differs from model {post['count']}")
    rh_model = [[[[fq(r) for r in l] for l in row] for row in st] for st in post["rh"]]
    if cnt.reward_history != rh_model:
        raise Mismatch(f"reward history {cnt.reward_history} differs from model {rh_model}")
    ns, na = len(post["T"]), len(post["T"][0])
    Tfix = np.array(Treal, dtype=np.float32)
    stale = []
    for x in range(ns):
        for b in range(na):
            for y in range(ns):
                # float32(count / total) and float32(mean): one correctly rounded division, then one rounding to float32
                if not close(Rreal[x, b, y], post["R"][x][b][y], 1):
                    raise Mismatch(f"model.reward[{x},{b},{y}] = {float(Rreal[x, b, y])!r}, model {post['R'][x][b][y]} (mean of observed rewards)", site="reward")
                if close(Treal[x, b, y], post["T"][x][b][y], 1):
                    continue
                if (x, b) == (s, a) and y != s2 and float(Treal[x, b, y]) == float(prevT[x, b, y]):
                    stale.append((y, float(Treal[x, b, y]), post["T"][x][b][y]))
                    Tfix[x, b, y] = np.float32(fq(post["T"][x][b][y]))
                else:
                    raise Mismatch(f"model.transition[{x},{b},{y}] = {float(Treal[x, b, y])!r}, model {post['T'][x][b][y]} (empirical frequency)", site="transition")
    if stale:
        on_stale(
            f"model_update after observing ({s},{a})->{s2} rewrites only that entry: sibling successor probabilities stay stale "
            f"{[(y, v, f'{m[0]}/{m[1]}') for y, v, m in stale]} (row no longer sums to 1)"
        )
    return Tfix


class ModelAdapter:
    def __init__(self, M, ns, na, sink):
        self.M, self.ns, self.na, self.sink = M, ns, na, sink
        self.cnt = M["dyna"].Counter(
            transition_counter=[[[0] * ns for _ in range(na)] for _ in range(ns)],
            reward_history=[[[[] for _ in range(ns)] for _ in range(na)] for _ in range(ns)],
        )
        self.T = np.zeros((ns, na, ns), dtype=np.float32)
        self.R = np.zeros((ns, na, ns), dtype=np.float32)
        self.path = []
        self.view = {"count": self.cnt.transition_counter, "rh": [[[[] for _ in range(ns)] for _ in range(na)] for _ in range(ns)], "T": rtab(self.T), "R": rtab(self.R)}

    def __deepcopy__(self, memo):
        import copy

        o = ModelAdapter.__new__(ModelAdapter)
        o.M, o.ns, o.na, o.sink = self.M, self.ns, self.na, self.sink
        o.cnt = copy.deepcopy(self.cnt)
        o.T, o.R, o.path, o.view = self.T.copy(), self.R.copy(), list(self.path), self.view
        return o


def model_step(ad, op, args, exp, pre, post):
    import jax.numpy as jnp

    s, a, r, s2 = args
    D = ad.M["dyna"]
    ad.path.append({"op": op, "args": args, "post": post})
    model = D.ForwardModel(transition=jnp.asarray(ad.T), reward=jnp.asarray(ad.R))
    ad.cnt = D.counter_update(ad.cnt, s, a, fq(r), s2)
    model = D.model_update(model, ad.cnt, s, a, s2)
    T2, R2 = np.asarray(model.transition), np.asarray(model.reward)
    if post is not None:
        path = list(ad.path)
        T2 = model_compare(T2, R2, ad.cnt, post, ad.T, s, a, s2, lambda what: ad.sink(what, path))
        ad.view = post
    ad.T, ad.R = T2, R2


def _site(v):
    return v["detail"].get("site", "exception" if v["what"].startswith("exception") else "state")


def check_histories(rep, M, counters):
    quick = rep.tier == "quick"
    # ---- Monte-Carlo
    # discount lattice {0, 1/2, 1} on step-by-step episodes (gamma = 0 with 2-step episodes: the second step's return is its
    # reward alone), and LONG episodes by pattern (LONG: lengths; L = 0: no step-by-step episodes) where gamma^t leaves float32
    mc_cfgs = [
        dict(NS=2, SRC=2, L=2, E=2, N0=0, G=(1, 2)), dict(NS=2, SRC=1, L=2, E=2, N0=1, G=(1, 1)), dict(NS=2, SRC=1, L=2, E=2, N0=0, G=(0, 1)),
        dict(NS=2, SRC=1, L=0, E=1, N0=0, G=(1, 2), LONG={200}),
    ]
    if not quick:
        mc_cfgs += [dict(NS=2, SRC=1, L=3, E=2, N0=1, G=(1, 1)), dict(NS=3, SRC=2, L=2, E=2, N0=0, G=(1, 1)), dict(NS=2, SRC=1, L=2, E=3, N0=0, G=(1, 2)),
                    dict(NS=2, SRC=1, L=3, E=2, N0=1, G=(0, 1)), dict(NS=2, SRC=2, L=2, E=2, N0=0, G=(1, 4)),
                    dict(NS=2, SRC=1, L=0, E=1, N0=0, G=(1, 2), LONG={257}), dict(NS=2, SRC=1, L=0, E=1, N0=1, G=(1, 4), LONG={120}),
                    dict(NS=2, SRC=1, L=0, E=1, N0=0, G=(0, 1), LONG={200}), dict(NS=2, SRC=1, L=0, E=1, N0=0, G=(1, 1), LONG={200})]
    for k, m in enumerate(mc_cfgs):
        long = bool(m.get("LONG"))
        c = dict(NS=m["NS"], NA=2, ALG="MC", GNUM=m["G"][0], GDEN=m["G"][1], MAXLEN=m["L"], MAXEP=m["E"], N0=m["N0"], SRC=m["SRC"], LAT=m.get("LAT", 0),
                 LONGLENS=set(m.get("LONG", ())), EMIT=True)
        m = dict(m, LONG=sorted(m["LONG"])) if long else m  # JSON-able (replay files)
        g = tlc.run("TabularRun", tlc.cfg_text(constants=c, invariants=["MCMean"]), workers=1, coverage=True, tag="c14mc", timeout=1500, env=JAVA_DEEP if long else None)
        rep.add_tlc(g, f"TabularRun MC {m}")
        if not g.ok:
            rep.violation(f"spec:TabularRun:MC:{g.violated}", f"design-level violation of {g.violated}", g.error_trace)
            continue
        tlc.require_covered(g, ["MCLong", "MCEnd"] if long else ["MCStep", "MCEnd"])
        G = graph.Graph(g.emitted)
        res = graph.cover(G, G.roots()[0], lambda: MCAdapter(M, m["NS"], 2, m["N0"], m["G"]), mc_step, lambda ad: ad.view)
        ends = sum(1 for es in G.out.values() for e in es if e[0] == "MCEnd")
        counters["evals"] += ends
        counters["nontrivial"] += ends
        counters["mc_edges"] = counters.get("mc_edges", 0) + res["edges_tested"]
        if long:
            counters["mc_long_episodes"] = counters.get("mc_long_episodes", 0) + ends
            counters["mc_long_episodes_exact"] = counters.get("mc_long_episodes_exact", 0) + sum(1 for e in g.emitted if e["op"] == "MCEnd" and any(any(row) for row in e["exp"]["exact"]))
            if k == 3:
                e = next(e for e in g.emitted if e["op"] == "MCLong" and len(e["exp"]["returns"]) == 2 and len(e["exp"]["pairs"]) == 2)
                rep.sample({"mc_long_episode": {"pattern": e["exp"], "first_steps": e["args"][:3], "last_steps": e["args"][-2:]}})
        rep.traces += ends
        for v in res["violations"]:
            rep.violation("monte_carlo:update:" + _site(v), f"monte_carlo.update ({m}): {v['what']}", {"kind": "mc_path", "cfg": m, "path": v["path"], "want": None})
        if k == 0:
            rep.sample({"mc_transition": next(e for e in g.emitted if e["op"] == "MCEnd" and e["pre"]["done"] == 1)})
    if not quick:
        # long random behaviours: visit counts well beyond the exhaustive bound
        m = dict(NS=3, SRC=3, L=4, E=6, N0=0, G=(1, 2))
        c = dict(NS=3, NA=2, ALG="MC", GNUM=1, GDEN=2, MAXLEN=4, MAXEP=6, N0=0, SRC=3, LAT=1, LONGLENS=set(), EMIT=True)
        g = tlc.run("TabularRun", tlc.cfg_text(constants=c), workers=1, simulate="num=60", depth=40, seed=rep.seed + 5, tag="c14mcsim")
        G = graph.Graph(g.emitted)
        res = graph.cover(G, G.roots()[0], lambda: MCAdapter(M, 3, 2, 0, (1, 2)), mc_step, lambda ad: ad.view)
        rep.traces += res["edges_tested"]
        counters["mc_sim_edges"] = res["edges_tested"]
        for v in res["violations"]:
            rep.violation("monte_carlo:update:" + _site(v), f"monte_carlo.update (simulated): {v['what']}", {"kind": "mc_path", "cfg": m, "path": v["path"]})
    r = tlc.run("TabularRun", tlc.cfg_text(next="NextBad", constants=dict(NS=2, NA=2, ALG="MC", GNUM=1, GDEN=2, MAXLEN=1, MAXEP=2, N0=0, SRC=1, LAT=0, LONGLENS=set(), EMIT=False), invariants=["MCMean"]), workers=min(W, 4), tag="c14mcbad")
    if r.violated != "MCMean":
        raise tlc.MachineryError("canary: off-by-one step size of the running mean not refuted by MCMean")
    r = tlc.run("TabularRun", tlc.cfg_text(next="NextBadCumsum", constants=dict(NS=2, NA=2, ALG="MC", GNUM=0, GDEN=1, MAXLEN=2, MAXEP=1, N0=0, SRC=1, LAT=0, LONGLENS=set(), EMIT=False), invariants=["MCMean"]), workers=min(W, 4), tag="c14mcbad2")
    if r.violated != "MCMean":
        raise tlc.MachineryError("canary: returns by discounted cumulative sum divided by gamma^t (undefined at gamma = 0) not refuted by MCMean")

    # ---- Dyna-Q model
    md_cfgs = [dict(NS=3, SRC=1, E=3)] if quick else [dict(NS=3, SRC=1, E=4), dict(NS=2, SRC=2, E=3)]
    for k, m in enumerate(md_cfgs):
        c = dict(NS=m["NS"], NA=2, ALG="MODEL", GNUM=1, GDEN=1, MAXLEN=1, MAXEP=m["E"], N0=0, SRC=m["SRC"], LAT=0, LONGLENS=set(), EMIT=True)
        g = tlc.run("TabularRun", tlc.cfg_text(constants=c, invariants=["ModelIsEmpirical", "RowsNormalised"]), workers=1, coverage=True, tag="c14md", timeout=1500)
        rep.add_tlc(g, f"TabularRun MODEL {m}")
        if not g.ok:
            rep.violation(f"spec:TabularRun:MODEL:{g.violated}", f"design-level violation of {g.violated}", g.error_trace)
            continue
        tlc.require_covered(g, ["Observe"])
        G = graph.Graph(g.emitted)

        def sink(what, path, m=m):
            rep.violation(K_MODEL, what, {"kind": "model_path", "cfg": m, "path": path})

        res = graph.cover(G, G.roots()[0], lambda: ModelAdapter(M, m["NS"], 2, sink), model_step, lambda ad: ad.view)
        counters["evals"] += res["edges_tested"]
        two = sum(1 for kk, es in G.out.items() for e in es if sum(1 for row in G.state[e[3]]["count"] for rr in row if sum(1 for z in rr if z > 0) >= 2) > 0)
        counters["nontrivial"] += two
        counters["model_edges_two_successors"] = counters.get("model_edges_two_successors", 0) + two
        rep.traces += res["edges_tested"]
        for v in res["violations"]:
            site = _site(v)
            rep.violation(f"dynaq:model_update:{site}", f"counter_update/model_update ({m}): {v['what']}", {"kind": "model_path", "cfg": m, "path": [{"op": p["op"], "args": p["args"]} for p in v["path"]]})
        if k == 0:
            rep.sample({"model_transition": g.emitted[len(g.emitted) // 2]})
    r = tlc.run("TabularRun", tlc.cfg_text(next="NextBad", constants=dict(NS=2, NA=2, ALG="MODEL", GNUM=1, GDEN=1, MAXLEN=1, MAXEP=2, N0=0, SRC=1, LAT=0, LONGLENS=set(), EMIT=False), invariants=["ModelIsEmpirical"]), workers=min(W, 4), tag="c14mdbad")
    if r.violated != "ModelIsEmpirical":
        raise tlc.MachineryError("canary: entry-only model update not refuted by ModelIsEmpirical")


# ---------------------------------------------------------------- C. train_* runs (code -> spec)
def make_env(ns, na, seed, det_rewards, p_term=0.2, p_trunc=0.1, max_len=5):
    import gymnasium as gym

    class ScriptedEnv(gym.Env):
        """Small tabular MDP: every (s,a) has two possible successors; outcomes drawn from a seeded generator and logged."""

        def __init__(self):
            self.observation_space = gym.spaces.Discrete(ns)
            self.action_space = gym.spaces.Discrete(na)
            self.rng = np.random.default_rng(seed)
            self.log = []  # (s, a, r, s2, terminated, truncated)
            self.s = 0
            self.k = 0

        def reset(self, seed=None, options=None):
            self.s = int(self.rng.integers(ns))
            self.k = 0
            return self.s, {}

        def step(self, a):
            a = int(a)
            s = self.s
            s2 = [(s + a + 1) % ns, (s + 2 * a + 2) % ns][int(self.rng.integers(2))]
            if det_rewards:
                r = ((s + 2 * a + 3 * s2) % 5 - 2) / 2.0
            else:
                r = float(self.rng.choice([-1.0, 0.0, 0.5, 1.0]))
            term = bool(self.rng.random() < p_term)
            self.k += 1
            trunc = bool((not term) and (self.rng.random() < p_trunc or self.k >= max_len))
            self.log.append((s, a, r, s2, term, trunc))
            self.s = s2
            return s2, r, term, trunc, {"episode": {"r": 0.0}}

    return ScriptedEnv()


class Interpose:
    def __init__(self, module, **repl):
        self.module, self.repl, self.orig = module, repl, {}

    def __enter__(self):
        for k, f in self.repl.items():
            self.orig[k] = getattr(self.module, k)
            setattr(self.module, k, f(self.orig[k]))
        return self

    def __exit__(self, *exc):
        for k, f in self.orig.items():
            setattr(self.module, k, f)
        return False


def _q0(rng, ns, na, zero):
    import jax.numpy as jnp

    if zero:
        return jnp.zeros((ns, na), dtype=jnp.float32)
    return jnp.asarray(rng.choice([0.0, 0.5, 1.0, 2.0], size=(ns, na)), dtype=jnp.float32)


def run_train(M, cfg):
    """Run one train_* routine with interposed update functions.
    Returns dict(calls=[...], log=env.log, final=returned tables, plumbing=[(key, what)])."""
    import jax.numpy as jnp

    alg, ns, na, T = cfg["alg"], cfg["ns"], 2, cfg["T"]
    g, lr = cfg["gamma"][0] / cfg["gamma"][1], cfg["lr"][0] / cfg["lr"][1]
    rng = np.random.default_rng(cfg["seed"])
    env = make_env(ns, na, cfg["seed"] + 1, det_rewards=(alg == "DYNA"))
    q0 = _q0(rng, ns, na, cfg.get("zero", False))
    calls, plumbing = [], []
    A = lambda x: np.array(x, dtype=np.float32)
    out = {"calls": calls, "plumbing": plumbing, "q0": A(q0)}

    if alg in ("QL", "SARSA"):
        def wrap(orig):
            def f(q, s, a, r, s2, a2, gamma, x8, x9):
                term, lr_ = (x8, x9) if alg == "QL" else (x9, x8)
                res = orig(q, s, a, r, s2, a2, gamma, x8, x9)
                calls.append(dict(k=alg, q=A(q), s=int(s), a=int(a), r=float(r), s2=int(s2), a2=int(a2), term=bool(term), gamma=float(gamma), lr=float(lr_), post=A(res), res=res))
                return res
            return f

        mod = M["ql"] if alg == "QL" else M["sarsa"]
        train = mod.train_q_learning if alg == "QL" else mod.train_sarsa
        with Interpose(mod, _update_policy=wrap):
            final = train(env, q0, learning_rate=lr, epsilon=0.5, gamma=g, total_timesteps=T, seed=cfg["seed"], progress_bar=False)
        out["final"] = [A(final)]
        out["last"] = [calls[-1]["post"]] if calls else [A(q0)]
    elif alg == "DQL":
        q0b = _q0(rng, ns, na, cfg.get("zero", False))
        cur = [q0, q0b]

        def wrap(orig):
            def f(key, qa, qb, s, a, r, s2, gamma, lr_, term):
                res = orig(key, qa, qb, s, a, r, s2, gamma, lr_, term)
                if qa is cur[0] and qb is cur[1]:
                    which = 0
                elif qa is cur[1] and qb is cur[0]:
                    which = 1
                else:
                    which = -1
                    plumbing.append(("double_q_learning:tables_not_the_current_pair", f"call {len(calls)}: the tables passed to _dql_update are not (updated, other) of the current pair"))
                calls.append(dict(k="DQL", q=A(qa), qB=A(qb), s=int(s), a=int(a), r=float(r), s2=int(s2), term=bool(term), gamma=float(gamma), lr=float(lr_), post=A(res), which=which))
                if which >= 0:
                    cur[which] = res
                return res
            return f

        with Interpose(M["dql"], _dql_update=wrap):
            final = M["dql"].train_double_q_learning(env, q0, q0b, learning_rate=lr, epsilon=0.5, gamma=g, total_timesteps=T, seed=cfg["seed"], progress_bar=False)
        out["final"] = [A(final[0]), A(final[1])]
        out["last"] = [A(cur[0]), A(cur[1])]
        out["q0b"] = A(q0b)
    elif alg == "MC":
        def wrap(orig):
            def f(q, n, rewards, observations, actions, gamma):
                res = orig(q, n, rewards, observations, actions, gamma)
                calls.append(dict(k="MC", q=A(q), n=A(n), rew=[float(x) for x in np.asarray(rewards)], obs=[int(x) for x in np.asarray(observations)], act=[int(x) for x in np.asarray(actions)], gamma=float(gamma), post=A(res[0]), npost=A(res[1])))
                return res
            return f

        n0 = None if cfg.get("n0", 0) == 0 else jnp.full((ns, na), float(cfg["n0"]), dtype=jnp.float32)
        with Interpose(M["mc"], update=wrap):
            final = M["mc"].train_monte_carlo(env, q0, T, n_visits=n0, epsilon=0.5, gamma=g, seed=cfg["seed"], progress_bar=False)
        out["final"] = [A(final[0]), A(final[1])]
        out["last"] = [calls[-1]["post"], calls[-1]["npost"]] if calls else [A(q0), np.full((ns, na), float(cfg.get("n0", 0)), dtype=np.float32)]
    elif alg == "DYNA":
        state = {"in_plan": False, "plan": None}

        def wrap_q(orig):
            def f(obs, act, reward, next_obs, gamma, lr_, q):
                res = orig(obs, act, reward, next_obs, gamma, lr_, q)
                c = dict(k="PLAN" if state["in_plan"] else "DYNA", q=A(q), s=int(obs), a=int(act), r=float(reward), s2=int(next_obs), gamma=float(gamma), lr=float(lr_), post=A(res), t=len(env.log))
                if state["in_plan"]:
                    c["T"], c["R"] = state["plan"]
                calls.append(c)
                return res
            return f

        def wrap_c(orig):
            def f(counter, obs, act, reward, next_obs):
                res = orig(counter, obs, act, reward, next_obs)
                calls.append(dict(k="CNT", s=int(obs), a=int(act), r=float(reward), s2=int(next_obs), t=len(env.log)))
                return res
            return f

        def wrap_m(orig):
            def f(model, counter, obs, act, next_obs):
                res = orig(model, counter, obs, act, next_obs)
                import copy

                calls.append(dict(k="OBS", s=int(obs), a=int(act), s2=int(next_obs), T=A(res.transition), R=A(res.reward), count=copy.deepcopy(counter.transition_counter), rh=copy.deepcopy(counter.reward_history), t=len(env.log)))
                return res
            return f

        def wrap_p(orig):
            def f(mt, mr, ob, ab, n, key, gamma, lr_, q):
                state["in_plan"], state["plan"] = True, (A(mt), A(mr))
                k0 = len(calls)
                try:
                    res = orig(mt, mr, ob, ab, n, key, gamma, lr_, q)
                finally:
                    state["in_plan"] = False
                calls.append(dict(k="PLANCALL", n=int(n), made=len(calls) - k0, q=A(q), post=A(res), T=A(mt), R=A(mr), t=len(env.log)))
                return res
            return f

        with Interpose(M["dyna"], q_learning_update=wrap_q, counter_update=wrap_c, model_update=wrap_m, planning=wrap_p):
            final = M["dyna"].train_dynaq(env, q0, gamma=g, learning_rate=lr, epsilon=0.5, n_planning_steps=cfg["nplan"], buffer_size=cfg.get("buffer", 1000), total_timesteps=T, seed=cfg["seed"], progress_bar=False)
        out["final"] = [A(final)]
        qcalls = [c for c in calls if c["k"] in ("DYNA", "PLAN")]
        out["last"] = [qcalls[-1]["post"]] if qcalls else [A(q0)]
    else:  # pragma: no cover
        raise AssertionError(alg)
    out["log"] = list(env.log)
    return out


NAME = {"QL": "q_learning", "SARSA": "sarsa", "DQL": "double_q_learning", "MC": "monte_carlo", "DYNA": "dynaq", "PLAN": "dynaq:planning"}


def plumbing_checks(cfg, run):
    """The updates are applied to the transitions that really happened, and folded: every call starts from the
    table the previous call returned, the routine returns the last one.  (Equality of recorded values only.)"""
    alg, log, calls = cfg["alg"], run["log"], run["calls"]
    bad = list(run["plumbing"])
    name = NAME[alg]
    if len(log) != cfg["T"]:
        bad.append((f"{name}:train:steps", f"{len(log)} environment steps for total_timesteps={cfg['T']}"))
    if alg in ("QL", "SARSA", "DQL"):
        if len(calls) != len(log):
            bad.append((f"{name}:train:update_count", f"{len(calls)} updates for {len(log)} transitions"))
        for c, tr in zip(calls, log):
            if (c["s"], c["a"], c["r"], c["s2"], c["term"]) != tr[:5]:
                bad.append((f"{name}:train:update_not_on_observed_transition", f"update arguments {(c['s'], c['a'], c['r'], c['s2'], c['term'])} differ from the environment's transition {tr[:5]}"))
        if alg != "DQL":
            prev = run["q0"]
            for i, c in enumerate(calls):
                if not np.array_equal(c["q"], prev):
                    bad.append((f"{name}:train:fold_broken", f"update {i} does not start from the table returned by the previous update"))
                prev = c["post"]
    elif alg == "MC":
        eps, cur = [], []
        for tr in log:
            cur.append(tr)
            if tr[4] or tr[5]:
                eps.append(cur)
                cur = []
        if len(calls) != len(eps):
            bad.append(("monte_carlo:train:update_count", f"{len(calls)} updates for {len(eps)} finished episodes"))
        prev = (run["q0"], None)
        for i, (c, e) in enumerate(zip(calls, eps)):
            if (c["obs"], c["act"], c["rew"]) != ([t[0] for t in e], [t[1] for t in e], [t[2] for t in e]):
                bad.append(("monte_carlo:train:episode_not_the_observed_one", f"episode {i}: update got obs={c['obs']} act={c['act']} rew={c['rew']}, environment produced {[t[:3] for t in e]}"))
            if not np.array_equal(c["q"], prev[0]) or (prev[1] is not None and not np.array_equal(c["n"], prev[1])):
                bad.append(("monte_carlo:train:fold_broken", f"update {i} does not start from the tables returned by the previous update"))
            prev = (c["post"], c["npost"])
    elif alg == "DYNA":
        prev = run["q0"]
        by_t = {}
        for c in calls:
            by_t.setdefault(c["t"], []).append(c)
        for t, tr in enumerate(log, start=1):
            ks = [c["k"] for c in by_t.get(t, [])]
            want = ["DYNA", "CNT", "OBS"] + ["PLAN"] * cfg["nplan"] + ["PLANCALL"]
            if ks != want:
                bad.append(("dynaq:train:call_sequence", f"step {t}: calls {ks}, expected {want}"))
                continue
            for c in by_t[t]:
                if c["k"] in ("DYNA", "CNT") and (c["s"], c["a"], c["r"], c["s2"]) != tr[:4]:
                    bad.append(("dynaq:train:update_not_on_observed_transition", f"step {t}: {c['k']} arguments {(c['s'], c['a'], c['r'], c['s2'])} differ from the environment's transition {tr[:4]}"))
                if c["k"] == "OBS" and (c["s"], c["a"], c["s2"]) != (tr[0], tr[1], tr[3]):
                    bad.append(("dynaq:train:update_not_on_observed_transition", f"step {t}: model_update arguments differ from the environment's transition {tr[:4]}"))
                if c["k"] in ("DYNA", "PLAN"):
                    if not np.array_equal(c["q"], prev):
                        bad.append(("dynaq:train:fold_broken", f"step {t}: a Q update does not start from the table returned by the previous update"))
                    prev = c["post"]
                if c["k"] == "PLANCALL":
                    obs = next(x for x in by_t[t] if x["k"] == "OBS")
                    if not (np.array_equal(c["T"], obs["T"]) and np.array_equal(c["R"], obs["R"])):
                        bad.append(("dynaq:train:planning_not_on_learned_model", f"step {t}: planning did not receive the model returned by model_update"))
                    if not np.array_equal(c["post"], prev):
                        bad.append(("dynaq:train:fold_broken", f"step {t}: planning does not return the table of its last update"))
    for f, l in zip(run["final"], run["last"]):
        if not np.array_equal(f, l):
            bad.append((f"{name}:train:returned_table_is_not_the_fold", f"returned table {f.tolist()} differs from the result of the last update {l.tolist()}"))
    return bad


def _snap(v):
    f = Fraction(float(v)).limit_denominator(4096)
    return [f.numerator, f.denominator]


def events_of(cfg, run):
    """Recorded calls -> TLC events. Returns (events, refs) with refs[i] = the call judged by event i (or None)."""
    alg, calls, log = cfg["alg"], run["calls"], run["log"]
    ev, refs, skipped = [], [], 0
    G, LR = cfg["gamma"], cfg["lr"]
    R = lambda x: rat(x)
    if alg == "MC":
        ev.append({"k": "MCRESET", "q": rtab(run["q0"]), "n": [[int(cfg.get("n0", 0))] * run["q0"].shape[1] for _ in range(run["q0"].shape[0])]})
        refs.append(None)
        for c in calls:
            ev.append({"k": "MC", "ep": [[o, a, R(r)] for o, a, r in zip(c["obs"], c["act"], c["rew"])], "gamma": G})
            refs.append(c)
        return ev, refs, 0
    if alg == "DYNA":
        ns, na = run["q0"].shape
        ev.append({"k": "MRESET", "ns": ns, "na": na})
        refs.append(None)
    for c in calls:
        k = c["k"]
        if k in ("CNT", "PLANCALL"):
            continue
        if k == "OBS":
            cn = next(x for x in calls if x["k"] == "CNT" and x["t"] == c["t"])
            ev.append({"k": "OBS", "s": c["s"], "a": c["a"], "r": R(cn["r"]), "s2": c["s2"]})
            refs.append(c)
            continue
        q = rtab(c["q"])
        r = R(c["r"])
        if q is None or r is None or (k == "DQL" and rtab(c["qB"]) is None):
            skipped += 1  # denominators beyond TLC's integer range: not decidable exactly, skipped (counted)
            continue
        e = {"k": k, "q": q, "s": c["s"], "a": c["a"], "r": r, "s2": c["s2"], "gamma": G, "lr": LR}
        if k in ("QL", "SARSA"):
            e["a2"], e["term"] = c["a2"], c["term"]
        if k == "DQL":
            e["qB"], e["term"] = rtab(c["qB"]), c["term"]
        if k == "PLAN":
            row = c["T"][c["s"], c["a"]]
            e["trank"] = [int(x) for x in np.unique(row, return_inverse=True)[1]]
            e["rrow"] = [rat(x) or _snap(x) for x in c["R"][c["s"], c["a"]]]
            e["buf"] = [[t[0], t[1]] for t in log[: c["t"]]]
        ev.append(e)
        refs.append(c)
    return ev, refs, skipped


def judge_event(cfg, c, o, ctx):
    """One recorded call vs TLC's record for it. Returns list of (key, what)."""
    k = c["k"]
    bad = []
    if k == "MC":
        try:
            mag = max(float(np.abs(c["q"]).max()), sum(abs(x) for x in c["rew"]), 8.0)
            mc_compare(c["post"], c["npost"], o["q"], o["n"], int(cfg.get("n0", 0)), mag)
        except Mismatch as m:
            bad.append(("monte_carlo:update:" + m.detail.get("site", "state"), "train run: " + m.what))
        return bad
    if k == "OBS":
        prevT, prevE = ctx.get("prevT"), ctx.get("prevE")
        ns, na = c["T"].shape[:2]
        if prevT is None:
            prevT = np.zeros_like(c["T"])
            prevE = [[[[0, 1]] * ns for _ in range(na)] for _ in range(ns)]
        if c["count"] != o["count"]:
            bad.append(("dynaq:counter_update:counts", f"transition counter {c['count']} differs from model {o['count']}"))
        if c["rh"] != [[[[fq(r) for r in l] for l in row] for row in st] for st in o["rh"]]:
            bad.append(("dynaq:counter_update:rewards", f"reward history {c['rh']} differs from model"))
        stale = []
        for x in range(ns):
            for b in range(na):
                for y in range(ns):
                    if not close(c["R"][x, b, y], o["R"][x][b][y], 1):
                        bad.append(("dynaq:model_update:reward", f"model.reward[{x},{b},{y}] = {float(c['R'][x, b, y])!r}, model {o['R'][x][b][y]}"))
                    if close(c["T"][x, b, y], o["T"][x][b][y], 1):
                        continue
                    untouched = float(c["T"][x, b, y]) == float(prevT[x, b, y])
                    if (x, b) == (c["s"], c["a"]) and y != c["s2"] and untouched:
                        stale.append((y, float(c["T"][x, b, y]), o["T"][x][b][y]))
                    elif (x, b) != (c["s"], c["a"]) and untouched and o["T"][x][b][y] == prevE[x][b][y]:
                        pass  # an earlier stale entry of another row persists; reported when it arose
                    else:
                        bad.append(("dynaq:model_update:transition", f"model.transition[{x},{b},{y}] = {float(c['T'][x, b, y])!r}, model {o['T'][x][b][y]}"))
        if stale:
            bad.append((K_MODEL, f"train_dynaq: model_update after ({c['s']},{c['a']})->{c['s2']} leaves sibling successor probabilities stale {[(y, v, f'{m[0]}/{m[1]}') for y, v, m in stale]}"))
        ctx["prevT"], ctx["prevE"] = c["T"], o["T"]
        return bad
    name = NAME[k]
    post = np.asarray(c["post"], dtype=np.float64)
    adm = [tab(t) for t in o["adm"]]
    if k == "PLAN":
        if not o["pairok"]:
            bad.append(("dynaq:planning:pair_not_observed", f"planning updates ({c['s']},{c['a']}) which was never observed"))
        if not o["succok"]:
            bad.append(("dynaq:planning:successor_not_most_likely", f"planning uses successor {c['s2']} of ({c['s']},{c['a']}), model row {c['T'][c['s'], c['a']].tolist()}"))
        if not o["rewok"]:
            bad.append(("dynaq:planning:reward_not_model_reward", f"planning uses reward {c['r']} for ({c['s']},{c['a']})->{c['s2']}, model row {c['R'][c['s'], c['a']].tolist()}"))
    if k == "QL" and not o["a2ok"]:
        bad.append(("q_learning:train:next_action_not_greedy", f"next action {c['a2']} is not a maximiser of the table at the successor {c['s2']}"))
        adm = [tab(o["given"])]
    if any(np.array_equal(post, t) for t in adm):
        return bad
    s, a = c["s"], c["a"]
    mask = np.ones(post.shape, dtype=bool)
    mask[s, a] = False
    if not np.array_equal(post[mask], np.asarray(c["q"], dtype=np.float64)[mask]):
        bad.append((f"{name}:other_entry_changed", f"train run: entries other than ({s},{a}) changed"))
    elif k == "DQL" and post[s, a] == tab(o["dev"])[s, a]:
        bad.append((K_DQL, f"train_double_q_learning: entry ({s},{a}) became {post[s, a]} = value with the greedy action of the CURRENT state; admissible {[float(t[s, a]) for t in adm]}"))
    else:
        bad.append((f"{name}:update_value", f"train run: entry ({s},{a}) became {post[s, a]}, admissible {[float(t[s, a]) for t in adm]}"))
    return bad


def validate_runs(rep, M, cfgs, counters, corrupt=False):
    """Run the routines, validate all recorded calls in one TLC run. Returns list of (cfg, key, what)."""
    all_ev, index, found = [], [], []
    for cfg in cfgs:
        try:
            run = run_train(M, cfg)
        except Exception as ex:
            import traceback

            tb = traceback.extract_tb(ex.__traceback__)
            found.append((cfg, f"{NAME[cfg['alg']]}:train:exception", f"{type(ex).__name__} at {tb[-1].name}: {str(ex)[:200]}"))
            continue
        for key, what in plumbing_checks(cfg, run):
            found.append((cfg, key, what))
        ev, refs, skipped = events_of(cfg, run)
        counters["skipped_events"] = counters.get("skipped_events", 0) + skipped
        for e, c in zip(ev, refs):
            all_ev.append(e)
            index.append((cfg, c))
    if corrupt:  # binding canary: falsify one recorded result
        for cfg, c in index:
            if c is not None and c["k"] in ("QL", "SARSA", "DQL", "DYNA"):
                c["post"] = c["post"].copy()
                c["post"][c["s"], c["a"]] += 0.25
                break
    os.makedirs(OUT_TMP, exist_ok=True)
    path = os.path.join(OUT_TMP, f"c14-trace-{os.getpid()}-{len(all_ev)}.json")
    with open(path, "w") as f:
        json.dump({"events": all_ev}, f)
    try:
        r = tlc.run("TabularTrace", tlc.cfg_text(invariants=["Consumed"]), workers=1, env={"TRACE_FILE": path}, tag="c14trace", timeout=900)
    finally:
        os.remove(path)
    if not corrupt:
        rep.add_tlc(r, f"TabularTrace {len(all_ev)} recorded calls")
    if not r.ok or len(r.emitted) != len(all_ev):
        raise tlc.MachineryError(f"trace validation consumed {len(r.emitted)} of {len(all_ev)} events")
    ctxs = {}
    for (cfg, c), o in zip(index, r.emitted):
        if c is None:
            continue
        counters["train_events"] = counters.get("train_events", 0) + 1
        for key, what in judge_event(cfg, c, o, ctxs.setdefault(id(cfg), {})):
            found.append((cfg, key, what))
    return found


# ---------------------------------------------------------------- run / replay
def train_cfgs(tier, seed):
    n, T = (3, 8) if tier == "quick" else (12, 12)
    cfgs = []
    for i, alg in enumerate(["QL", "SARSA", "DQL", "MC", "DYNA"]):
        for j in range(n):
            cfgs.append(dict(
                alg=alg, ns=3 if j % 3 else 2, T=T if alg != "MC" else T + 6,
                gamma=[1, 2] if j % 2 else [1, 1], lr=[1, 2] if j % 3 != 2 else [1, 1],
                seed=1000 * seed + 100 * i + j, nplan=1 + j % 2, zero=(j % 4 == 3), n0=(1 if (alg == "MC" and j % 3 == 1) else 0),
                buffer=(2 if j % 4 == 1 else 1000),
            ))
    return cfgs


def run(rep):
    quick = rep.tier == "quick"
    for m in ("TabularOps", "Tabular", "TabularRun", "TabularTrace"):
        tlc.sany(m)
    M = _mods()
    counters = dict(evals=0, nontrivial=0, ties=0)
    rep.rule = (
        "single updates: TLC enumerates the complete lattice of Tabular.tla per code section (state, action, successor, [next action], "
        "sentinel tables with the visited entry and the successor row(s) overwritten from {-1,0,1/2,2}, reward, terminated, gamma in {0,1/2,1}, lr) and emits the admissible result tables; "
        "double Q-learning also on near-tie rows: successor row of the updated table = +-(2^e + level float32 steps), e in {-10,1,10}, levels {-2,0,1,3} per action (float32 ordinals; visited entry = the power of two when it lies in that row), "
        "other table valuing the actions differently, 3 random keys per vector; "
        "a vector is non-trivial when the visited entry must change. histories: every transition of the reachable graph of TabularRun.tla "
        "(Monte-Carlo episodes step by step for gamma in {0,1/2,1} and 200-step pattern episodes with gamma=1/2 whose returns-to-go cycle through 1-2 values of {-1,1/2,2} over 1-2 pairs; Dyna-Q observations incl. two successors of one pair) is replayed once; train_* runs: every recorded update call is validated by TLC"
    )
    # A. single updates
    if quick:
        plan = [("QL", 2, 0, 1), ("SARSA", 2, 0, 1), ("DQL", 2, 0, 1), ("DQLN", 2, 0, 3), ("DYNA", 2, 0, 1), ("PLAN", 2, 0, 1)]
    else:
        plan = [("QL", 3, 1, 1), ("QL", 2, 1, 1), ("SARSA", 3, 0, 1), ("SARSA", 2, 1, 1), ("DQL", 3, 0, 1), ("DQL", 2, 0, 1), ("DQLN", 3, 0, 4), ("DQLN", 2, 1, 2),
                ("DYNA", 3, 1, 1), ("DYNA", 2, 1, 1), ("PLAN", 3, 0, 1), ("PLAN", 2, 1, 1)]
    first_ql = None
    for alg, ns, lat, nkeys in plan:
        es = check_vectors(rep, M, alg, ns, lat, counters, nkeys)
        if alg == "QL" and es and first_ql is None:
            first_ql = es
    rep.traces += counters["evals"]
    # canary (a): the realistic wrong variant of double Q-learning must be refuted by TLC
    r = tlc.run("Tabular", tlc.cfg_text(next="NextBad", constants=dict(NS=2, NA=2, ALG="DQL", LAT=0, NKEYS=1, EMIT=False), invariants=["UpdateEquation"]), workers=min(W, 4), tag="c14bad")
    if r.violated != "UpdateEquation":
        raise tlc.MachineryError("canary: greedy-at-current-state deviation of double Q-learning not refuted by UpdateEquation")
    r = tlc.run("Tabular", tlc.cfg_text(next="NextBad", constants=dict(NS=2, NA=2, ALG="DQLN", LAT=0, NKEYS=1, EMIT=False), invariants=["UpdateEquation"]), workers=min(W, 4), tag="c14bad2")
    if r.violated != "UpdateEquation":
        raise tlc.MachineryError("canary: near-ties treated as ties (tolerance-greedy double Q-learning) not refuted by UpdateEquation")
    # canary (b): a corrupted expected value must be noticed by the comparison
    if first_ql:
        e = next(x for x in first_ql if tab(x["adm"][0])[x["v"]["s"], x["v"]["a"]] != tab(x["v"]["qA"])[x["v"]["s"], x["v"]["a"]])
        got, n2 = call_single(M, e["v"])
        if judge_single("QL", e, got, n2):
            pass  # a genuine violation, already reported by check_vectors
        else:
            e2 = json.loads(json.dumps(e))
            s, a = e["v"]["s"], e["v"]["a"]
            for t in e2["adm"]:
                t[s][a] = [t[s][a][0] + t[s][a][1], t[s][a][1]]
            if not judge_single("QL", e2, got, n2):
                raise tlc.MachineryError("binding canary: corrupted expected table not noticed (vectors)")
            g2 = got.copy()
            g2[(s + 1) % g2.shape[0], a] += 1
            if not any(k.endswith("other_entry_changed") for k, _ in judge_single("QL", e, g2, n2)):
                raise tlc.MachineryError("binding canary: change of an unvisited entry not noticed")

    # B. histories
    check_histories(rep, M, counters)

    # C. train_* runs
    cfgs = train_cfgs(rep.tier, rep.seed)
    for cfg, key, what in validate_runs(rep, M, cfgs, counters):
        rep.violation(key, f"{what} [train_{cfg['alg']} seed={cfg['seed']}]", {"kind": "train", "cfg": cfg})
    rep.traces += counters.get("train_events", 0)
    canary = validate_runs(rep, M, [dict(alg="SARSA", ns=2, T=3, gamma=[1, 2], lr=[1, 2], seed=7, nplan=1)], {}, corrupt=True)
    if not any(k == "sarsa:update_value" for _, k, _ in canary):
        raise tlc.MachineryError("binding canary: corrupted recorded table not noticed (train trace)")

    rep.evaluations = counters["evals"] + counters.get("train_events", 0)
    rep.distinct = counters["nontrivial"]
    rep.exhaustive = True
    rep.extra.update({k: v for k, v in counters.items() if k not in ("evals", "nontrivial")})
    rep.extra["train_runs"] = len(cfgs)
    rep.assumptions += [
        "small scope: |S| <= 3, |A| = 2, dyadic entries/rewards/gamma/lr; float32 arithmetic is exact there, so comparison is ==",
        "non-dyadic step sizes (Monte-Carlo visit counts >= 3) are compared within 4 float32 ulp of the magnitude bound per visit; model frequencies / mean rewards within 1 ulp (one division in float64, one rounding to float32)",
        "ties of the greedy action: any maximiser is admissible (set membership); greedy_policy itself is checked to return a maximiser",
        "near-ties: the order of float32 ordinals is the order of the floats (float_of_ord cross-checked with exact.ord32 and with the rational of the base power of two per vector); a value 1 float32 step below the maximum is not a maximiser; the result must be admissible under every key",
        "long Monte-Carlo episodes: compared exactly where TLC states that the arithmetic is rounding-free (every visited pair unvisited before and observing one return value), else within 4 float32 ulp of the magnitude bound (max |return| from TLC) per visit; a non-finite entry is a violation",
        "Dyna-Q's update has no termination input: modelled without the (1 - terminated) factor (named deviation from the Q-learning form, not an alarm)",
        "bulk replay calls the real jitted function under jax.vmap; a seeded sample is also called un-batched with python scalars and must agree",
        "train_* runs: epsilon=0.5 exploration with the library's own generator; the environment's outcomes come from a seeded numpy generator; recorded calls whose table denominators exceed 2^12 are skipped (counted in skipped_events)",
        "trusted: TLC, Exact.tla, float<->rational projection, graph-cover replay",
    ]
    # coordinator: the recorded runs of the tabular routines in the training-loop sweep also decide that the
    # learner is always handed the routine's current tables (LoopTrace clause LearnerOnCurrentEstimate)
    from .. import sweep

    sweep.report_property(rep, "C14", names=["q_learning", "sarsa", "double_q_learning", "monte_carlo", "dynaq"])


def _path_to_events(kind, d):
    cfg = d["cfg"]
    if kind == "mc_path":
        ns = cfg["NS"]
        q0 = [[[12 + s * 2 + a, 4] for a in range(2)] for s in range(ns)]
        q0 = [[[Fraction(*x).numerator, Fraction(*x).denominator] for x in row] for row in q0]
        ev, ep = [{"k": "MCRESET", "q": q0, "n": [[cfg["N0"]] * 2 for _ in range(ns)]}], []
        for st in d["path"]:
            if st["op"] == "MCStep":
                ep.append(st["args"])
            elif st["op"] == "MCLong":
                ep = [list(x) for x in st["args"]]
            else:
                ev.append({"k": "MC", "ep": ep, "gamma": st["args"][0]})
                ep = []
        return ev
    ev = [{"k": "MRESET", "ns": cfg["NS"], "na": 2}]
    for st in d["path"]:
        s, a, r, s2 = st["args"]
        ev.append({"k": "OBS", "s": s, "a": a, "r": r, "s2": s2})
    return ev


def replay(path, rep):
    doc = json.load(open(path))
    d = doc["replay"]
    M = _mods()
    bad = []
    if not isinstance(d, dict):
        print("design-level counterexample (TLC error trace):\n", d)
        return 1
    kind = d["kind"]
    if kind == "sweep":
        from .. import sweep

        rc = sweep.replay_one(d, "C14")
        if rc:
            print(f"VIOLATION property=C14 replay={path}")
        return rc
    if kind == "vector":
        e = d["e"]
        got, n2 = call_single(M, e["v"])
        print("vector:", e["v"])
        print("real result:", np.asarray(got).tolist(), "next action:", n2)
        print(f"admissible entry ({e['v']['s']},{e['v']['a']}):", [float(tab(t)[e["v"]["s"], e["v"]["a"]]) for t in e["adm"]], " table before:", qa_float(e["v"]).tolist())
        bad = judge_single(e["v"]["alg"], e, got, n2)
    elif kind == "train":
        bad = [(k, w) for _, k, w in validate_runs(rep, M, [d["cfg"]], {})]
    elif kind in ("mc_path", "model_path"):
        ev = _path_to_events(kind, d)
        os.makedirs(OUT_TMP, exist_ok=True)
        p = os.path.join(OUT_TMP, f"c14-replay-{os.getpid()}.json")
        json.dump({"events": ev}, open(p, "w"))
        try:
            r = tlc.run("TabularTrace", tlc.cfg_text(), workers=1, env={"TRACE_FILE": p}, tag="c14replay")
        finally:
            os.remove(p)
        outs = r.emitted[1:]
        cfg = d["cfg"]
        if kind == "mc_path":
            ad = MCAdapter(M, cfg["NS"], 2, cfg["N0"], cfg["G"])
            k = 0
            for st in d["path"]:
                if st["op"] == "MCStep":
                    ad.ep.append(st["args"])
                    continue
                if st["op"] == "MCLong":
                    ad.ep = [list(x) for x in st["args"]]
                    continue
                pre_q = ad.q
                ep = list(ad.ep)
                mc_step(ad, "MCEnd", st["args"], None, None, None)
                print("episode", ep if len(ep) <= 8 else f"{ep[:3]} ... {ep[-2:]} ({len(ep)} steps)", "->", ad.q.tolist(), ad.n.tolist(), " model:", outs[k]["q"], outs[k]["n"])
                try:
                    mc_compare(ad.q, ad.n, outs[k]["q"], outs[k]["n"], cfg["N0"], max(float(np.abs(pre_q).max()), sum(abs(fq(x[2])) for x in ep), 8.0))
                except Mismatch as m:
                    bad.append(("monte_carlo:update", m.what))
                k += 1
        else:
            ad = ModelAdapter(M, cfg["NS"], 2, lambda *a: None)
            ctx = {}
            for st, o in zip(d["path"], outs):
                model_step(ad, "Observe", st["args"], None, None, None)
                s, a, r, s2 = st["args"]
                c = dict(k="OBS", s=s, a=a, s2=s2, T=ad.T.copy(), R=ad.R.copy(), count=ad.cnt.transition_counter, rh=ad.cnt.reward_history)
                print("observe", st["args"], "-> T row", ad.T[s, a].tolist(), " model:", o["T"][s][a])
                bad += judge_event({}, c, o, ctx)
    else:
        print("unknown replay kind", kind)
        return 2
    if bad:
        print("VIOLATION property=C14 replay=" + path)
        for k, w in bad:
            print(f"  key={k} :: {w}"[:1200])
        return 1
    print("no violation on replay")
    return 0
