"""C04 - sampled subtrajectories are contiguous single-episode runs (spec/Subtraj.tla)."""
from .. import subtraj_bind as sb
from .. import tlc

LEVEL = "model_checking"
MANIFEST = dict(
    category="model_checking",
    text="Subtraj.tla transcribes add_sample/sample_batch of the subtrajectory buffers section by section; TLC checks WindowsValid (contiguous, single episode, in order, no truncated step, only written slots, for every admissible start and every sampling horizon) on all histories of normal / terminating / truncating / terminating-and-truncating (both flags on one step, as under a TimeLimit wrapper; a truncated step - its episode tail is never admissible) steps within the bounds, from the smallest admissible capacity N = H + 1 upwards; every transition of the state graph, including a Sample edge for every admissible start x horizon x view, is replayed into SubtrajectoryReplayBuffer and SubtrajectoryReplayBufferPER and the returned windows (full and reduced view) are compared field by field with the model's rows.",
    note="bounds: H+1<=N<=5,H<=3,13 adds quick; H+1<=N<=7,H<=3,17 adds thorough; the two largest replayed quick configurations without the both-flags step; prefix reading of the statement (rows after the first terminated step are only required to be written slots); trusted: harness/bufkit.py tag coding, stub generator, TLC",
    technique="TLA+ spec + TLC exhaustive over add histories; transition-coverage replay into the real buffers",
)


def run(rep):
    quick = rep.tier == "quick"
    tlc.sany("Subtraj")
    rep.rule = (
        "TLC enumerates all histories of cont/term/trunc/both (terminated and truncated at once) additions within the bound, capacities from N = H + 1; each graph transition (incl. one Sample per admissible "
        "start x sampling horizon x view) is replayed into the real buffer; non-trivial = pre-state non-empty"
    )
    # (N, H, adds, prioritized, kinds): kinds 4 = cont / term / trunc / both (terminated and truncated at once), 3 = without
    # "both" (the largest configurations, to stay within the budget).  Capacities from the smallest admissible one,
    # N = H + 1 (where the start enabled by a step, H behind the write position, is the slot the successor row goes to),
    # with enough additions for episodes longer than H that end before and after the buffer has wrapped
    cfgs = [(2, 1, 6, False, 4), (3, 2, 7, False, 4), (4, 3, 6, False, 4), (3, 1, 7, False, 4), (4, 2, 8, False, 4), (5, 3, 7, False, 3),
            (3, 2, 5, True, 4), (4, 2, 5, True, 3)] if quick else [
        (2, 1, 8, False, 4), (3, 2, 9, False, 4), (4, 3, 10, False, 4), (3, 1, 9, False, 4), (4, 2, 11, False, 4), (5, 2, 11, False, 4),
        (5, 3, 10, False, 4), (6, 3, 9, False, 4), (7, 3, 9, False, 4), (2, 1, 5, True, 4), (3, 2, 6, True, 4), (4, 2, 6, True, 4), (5, 3, 6, True, 4)]
    ev = nt = 0
    from .. import par

    jobs = [(n, h, m, prio, (1,), 1, tuple(sb.INV_C04 + (sb.INV_C08 if prio else [])), "", True, rep.seed, 4, False, 1, (), k == 4)
            for n, h, m, prio, k in cfgs]
    # the same buffers as task 0 of a MultiTaskReplayBuffer while task 1 receives unrelated steps
    jobs += [(n, h, m, prio, (1,), 1, tuple(sb.INV_C04), "(multi-task)", True, rep.seed, 4, True, 1, (), True)
             for n, h, m, prio in ([(3, 2, 6, False), (4, 2, 6, False), (3, 1, 4, True)] if quick else
                                   [(3, 2, 8, False), (4, 2, 8, False), (5, 3, 7, False), (2, 1, 5, True), (4, 2, 5, True)])]
    jobs = [("config", j) for j in jobs]
    # deeper model-only exploration (no replay): longer histories, four kinds of steps, from the smallest capacity; and the canaries
    deep = [(3, 2, 13), (5, 2, 13), (5, 3, 13)] if quick else [(4, 3, 15), (6, 3, 15), (7, 3, 17)]
    jobs += [("deep", (n, h, m, 4, 4)) for n, h, m in deep] + [("canaries", (4,))]
    # the pool hands the jobs out in this order: longest first
    cost = {"config": lambda a: (a[0] + a[1]) * a[2] * (2 if a[3] else 1), "canaries": lambda a: 0,
            "deep": lambda a: (a[0] + a[1]) * a[2] * (0.2 if quick else 4)}
    jobs.sort(key=lambda j: -cost[j[0]](j[1]))
    for o in par.pmap(sb.job, jobs, procs=4):
        out = sb.merge(rep, o)
        if out:
            ev += out[0]
            nt += out[1]
    rep.evaluations, rep.distinct, rep.exhaustive = ev, nt, True
    rep.assumptions += ["capacities / horizons beyond the bound not explored", "trusted: tag coding and projection in harness/bufkit.py"]


def replay(path, rep):
    return sb.replay(path, "C04")
