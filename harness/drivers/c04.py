"""C04 - sampled subtrajectories are contiguous single-episode runs (spec/Subtraj.tla)."""
from .. import subtraj_bind as sb
from .. import tlc

LEVEL = "model_checking"
MANIFEST = dict(
    category="model_checking",
    text="Subtraj.tla transcribes add_sample/sample_batch of the subtrajectory buffers section by section; TLC checks WindowsValid (contiguous, single episode, in order, no truncated step, only written slots, for every admissible start and every sampling horizon) on all histories of normal/terminating/truncating steps within the bounds; every transition of the state graph, including a Sample edge for every admissible start x horizon x view, is replayed into SubtrajectoryReplayBuffer and SubtrajectoryReplayBufferPER and the returned windows (full and reduced view) are compared field by field with the model's rows.",
    note="bounds: N<=5,H<=2,13 adds quick; N<=7,H<=3,17 adds thorough; prefix reading of the statement (rows after the first terminated step are only required to be written slots); trusted: harness/bufkit.py tag coding, stub generator, TLC",
    technique="TLA+ spec + TLC exhaustive over add histories; transition-coverage replay into the real buffers",
)


def run(rep):
    quick = rep.tier == "quick"
    tlc.sany("Subtraj")
    rep.rule = (
        "TLC enumerates all histories of cont/term/trunc additions within the bound; each graph transition (incl. one Sample per admissible "
        "start x sampling horizon x view) is replayed into the real buffer; non-trivial = pre-state non-empty"
    )
    cfgs = [(3, 1, 7, False), (4, 2, 8, False), (5, 3, 7, False), (4, 2, 5, True)] if quick else [
        (2, 1, 7, False), (3, 1, 9, False), (3, 2, 9, False), (4, 2, 11, False), (4, 3, 10, False), (5, 2, 11, False), (5, 3, 10, False),
        (6, 3, 9, False), (7, 3, 9, False), (4, 2, 6, True), (5, 3, 6, True)]
    ev = nt = 0
    from .. import par

    jobs = [(n, h, m, prio, (1,), 1, tuple(sb.INV_C04 + (sb.INV_C08 if prio else [])), "", True, rep.seed, 4) for n, h, m, prio in cfgs]
    # the same buffers as task 0 of a MultiTaskReplayBuffer while task 1 receives unrelated steps
    jobs += [(n, h, m, prio, (1,), 1, tuple(sb.INV_C04), "(multi-task)", True, rep.seed, 4, True)
             for n, h, m, prio in ([(4, 2, 6, False), (3, 1, 4, True)] if quick else [(4, 2, 8, False), (5, 3, 7, False), (4, 2, 5, True)])]
    for o in par.pmap(sb.config_job, jobs, procs=4):
        out = sb.merge(rep, o)
        if out:
            ev += out[0]
            nt += out[1]
    # deeper model-only exploration (no replay): longer histories
    deep = [(5, 2, 13), (5, 3, 13)] if quick else [(6, 3, 15), (7, 3, 17)]
    for n, h, m in deep:
        c = dict(N=n, H=h, MaxAdds=m, PRIO=False, PrioVals={1}, MaxBatch=1, EMIT=False)
        r = tlc.run("Subtraj", tlc.cfg_text(constants=c, invariants=sb.INV_C04), tag="stdeep", timeout=1500)
        rep.add_tlc(r, f"Subtraj model-only N={n} H={h} adds<={m}")
        if not r.ok:
            rep.violation(f"spec:Subtraj:{r.violated}", f"design-level violation {r.violated}", r.error_trace)
    sb.canaries()
    rep.evaluations, rep.distinct, rep.exhaustive = ev, nt, True
    rep.assumptions += ["capacities / horizons beyond the bound not explored", "trusted: tag coding and projection in harness/bufkit.py"]


def replay(path, rep):
    return sb.replay(path, "C04")
