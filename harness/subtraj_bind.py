"""Binding of spec/Subtraj.tla to SubtrajectoryReplayBuffer(PER)."""
from __future__ import annotations

import numpy as np

from . import bufkit, graph, tlc
from .graph import Mismatch

INV_C04 = ["WindowsValid", "MaskOnlyWritten", "LenExact"]
INV_C08 = ["MaxDominates", "NewGetMax", "Proportional", "NeverMasked"]
PROPS_C08 = ["ResetExact"]


class SubtrajAdapter:
    def __init__(self, n, h, prio, mt=False, unit=1):
        from rl_blox.blox import replay_buffer as rb

        self.prio = prio
        self.h = h
        # unit: Subtraj!PrioDefault of the configuration - a model priority p is the real priority p / unit, the initial
        # max_priority 1.0 is `unit` in the model (unit 2: model values 1, 2, 3 = 0.5, 1.0, 1.5 in the code)
        self.unit = unit
        cls = rb.SubtrajectoryReplayBufferPER if prio else rb.SubtrajectoryReplayBuffer
        base = cls(n, horizon=h)
        if prio:  # np.empty leaves arbitrary content in never-initialised priority slots
            base.priority.priority[:] = 7777.0
        # mt: the buffer under test is task 0 of a two-task MultiTaskReplayBuffer; before every addition to task 0
        # a step of an unrelated episode stream is added to task 1 through the wrapper (task isolation, C02/C04)
        self.mt = rb.MultiTaskReplayBuffer(base, 2) if mt else None
        self._buf = base
        self.foreign = 0

    @property
    def buf(self):
        return self.mt.buffers[0] if self.mt is not None else self._buf

    @buf.setter
    def buf(self, x):
        if self.mt is not None:
            self.mt.buffers[0] = x
        else:
            self._buf = x


def _check_window(batch, j, rows, h, inter):
    """Compare row j of a sampled batch with the model's window `rows`."""
    d = {k: np.asarray(v) for k, v in batch._asdict().items()}
    exp = [bufkit.st_expected_fields(r) for r in rows]
    if inter:
        for k in range(h):
            got = bufkit.st_decode({f: d[f][j, k] for f in d})
            want = {x: rows[k][x] for x in ("kind", "ep", "t", "term", "trunc")}
            if got != want:
                raise Mismatch(f"window position {k}: got {got}, model {want}")
    else:
        if d["observation"].shape[1:] != (2,) or d["next_observation"].shape[1:] != (2,):
            raise Mismatch(f"reduced view has observation shape {d['observation'].shape}")
        if [float(x) for x in d["observation"][j]] != [float(x) for x in exp[0]["observation"]]:
            raise Mismatch(f"reduced view: observation {d['observation'][j]} is not the first step's {exp[0]['observation']}")
        if float(d["action"][j]) != float(exp[0]["action"]):
            raise Mismatch(f"reduced view: action {d['action'][j]} is not the first step's {exp[0]['action']}")
        if [float(x) for x in d["next_observation"][j]] != [float(x) for x in exp[-1]["next_observation"]]:
            raise Mismatch(f"reduced view: successor {d['next_observation'][j]} is not the last step's {exp[-1]['next_observation']}")
        for f in ("reward", "terminated", "truncated"):
            got = [float(x) for x in np.asarray(d[f][j]).reshape(-1)]
            want = [float(e[f]) for e in exp]
            if got != want:
                raise Mismatch(f"reduced view: {f} {got} differs from the window's {want}")


def _values(ep, t, end):
    """add_sample arguments for step t of episode ep; end "both" = terminated AND truncated on the same step (what
    gymnasium's TimeLimit reports when the wrapped environment terminates on the step that reaches the limit)"""
    v = bufkit.st_values(ep, t, "term" if end == "both" else end)
    if end == "both":
        v["truncated"] = 1
    return v


def _observers(ad):
    """read-only public calls: whatever they return, they must leave the buffer as it is (the projection compared
    after the step, and every later sample, see a write)"""
    buf = ad.buf
    len(buf)
    if buf.current_len > 0:
        buf.reward_scale()
        if ad.mt is not None:
            ad.mt.reward_scale()
            len(ad.mt)
    _ = buf.environment_terminates


def step(ad: SubtrajAdapter, op, args, exp, pre, post):
    buf = ad.buf
    _observers(ad)
    if op == "Add":
        end, ep, t = args
        if ad.mt is not None:
            # every other addition to task 0 is preceded by a step of the unrelated stream of task 1 (select 1, add,
            # select 0); the additions in between rely on the selection made earlier - as the multi-task schedulers
            # do, which select once per block and then add and sample interleaved
            ad.nadds = getattr(ad, "nadds", 0) + 1
            if ad.nadds % 2 == 1:
                k = ad.foreign
                ad.foreign += 1
                ad.mt.select_task(1)
                ad.mt.add_sample(**bufkit.st_values(500 + k // 3, k % 3, "term" if k % 3 == 2 else "cont"))
                ad.mt.select_task(0)
            ad.mt.add_sample(**_values(ep, t, end))
            want = ad.foreign + ad.foreign // 3
            if len(ad.mt.buffers[1]) != min(want, ad.mt.buffers[1].buffer_size):
                raise Mismatch(f"task 1 holds {len(ad.mt.buffers[1])} rows after {ad.foreign} additions of its own (expected {min(want, ad.mt.buffers[1].buffer_size)})", code="other_task_length")
        else:
            buf.add_sample(**_values(ep, t, end))
    elif op == "Sample":
        s, h, inter = args["s"], args["h"], args["inter"]
        rng = bufkit.StubRng()
        rng.push("integers", [args["pos"]])
        batch = buf.sample_batch(1, h, inter, rng)
        c = rng.calls[-1]
        if (c[1], c[2]) != (0, args["ones"]):
            raise Mismatch(f"start drawn from [{c[1]},{c[2]}) but {args['ones']} starts are admissible")
        _check_window(batch, 0, exp["rows"], h, inter)
    elif op == "SampleNone":
        try:
            out = buf.sample_batch(1, 1, True, np.random.default_rng(0))
        except Exception:
            out = None
        if out is not None:
            raise Mismatch("a window was sampled although no admissible start exists (mask all zero)", code="sampled_without_admissible_start")
    elif op == "SamplePrio":
        ticks, h, inter, total = args["ticks"], args["h"], args["inter"], args["total"]
        rng = bufkit.StubRng()
        rng.push("uniform", lambda lo, hi, size: (np.asarray(ticks, dtype=float) - 0.5) / total)
        batch = buf.sample_batch(len(ticks), h, inter, rng)
        c = rng.calls[-1]
        if not (np.all(np.asarray(c[1]) == 0) and np.all(np.asarray(c[2]) == 1)):
            raise Mismatch(f"uniform variates drawn from [{c[1]},{c[2]}) instead of [0,1)")
        got = [int(x) for x in np.asarray(buf.priority.sampled_indices).reshape(-1)]
        if got != list(exp["starts"]):
            raise Mismatch(f"ticks {ticks}/{total} selected starts {got}, model {list(exp['starts'])}")
        for j in range(len(ticks)):
            _check_window(batch, j, exp["rows"][j], h, inter)
    elif op == "UpdatePriority":
        buf.update_priority(np.asarray(args[0], dtype=float) / ad.unit)
    elif op == "ResetMax":
        buf.reset_max_priority()
        if post is not None:  # the model's post-state: the true maximum of the filled region, whichever side of 1.0
            mp, want = float(buf.priority.max_priority) * ad.unit, post["maxPrio"]
            if mp != want:
                stored = [float(x) for x in buf.priority.priority[: len(buf)]]
                raise Mismatch(f"tracked maximum after reset is {mp / ad.unit}, true maximum of the stored priorities {stored} is {want / ad.unit}",
                               code="tracked_max_is_not_true_max", want=post)
    else:  # pragma: no cover
        raise AssertionError(op)


def project(ad: SubtrajAdapter):
    unit = getattr(ad, "unit", 1)
    if not ad.prio or unit == 1:
        return bufkit.project_subtraj(ad.buf, ad.prio)
    # priorities in model units (bufkit.project_subtraj accepts whole numbers only)
    buf = ad.buf
    v = bufkit.project_subtraj(buf, False)
    pr = []
    for i in range(buf.buffer_size):
        x = float(buf.priority.priority[i]) * unit if i < buf.current_len else 0.0
        if x != int(x):
            raise Mismatch(f"priority {x / unit} of slot {i} is not one of the supplied values")
        pr.append(int(x))
    mp = float(buf.priority.max_priority) * unit
    v["prio"], v["maxPrio"] = pr, (int(mp) if mp == int(mp) else mp)
    v["sampled"] = [int(x) for x in np.asarray(buf.priority.sampled_indices).reshape(-1)]
    return v


def real_rng_windows(ad, model_state, seed, b=16, live=False):
    """Under a real generator every sampled window must start at an admissible start."""
    import copy

    # sampling mutates the prioritized variant's last-batch record: on a copy, except in walks over the uniform
    # variant (live=True), where sampling is a pure observer in the model and must be one in the code
    buf = ad.buf if live else copy.deepcopy(ad.buf)
    rng = np.random.default_rng(seed)
    starts = [i for i, m in enumerate(model_state["mask"]) if m == 1]
    if live and ad.mt is not None:
        # through the wrapper, as the learners sample: whichever task is drawn, sampling is an observer
        for _ in range(2):
            try:
                ad.mt.sample_batch(2, 1, True, rng)
            except Exception:  # the drawn task may have no admissible start yet
                pass
    if not starts:
        return
    batch = buf.sample_batch(b, ad.h, True, rng)
    d = {k: np.asarray(v) for k, v in batch._asdict().items()}
    ok = set()
    for s in starts:
        r = model_state["slots"][s]
        ok.add((r["ep"], r["t"]))
    for j in range(b):
        got = bufkit.st_decode({f: d[f][j, 0] for f in d})
        if (got["ep"], got["t"]) not in ok or got["kind"] != "step":
            raise Mismatch(f"window starts at {got}, which is not an admissible start")


def run_config(rep, n, h, m, prio, prio_vals=(1,), max_batch=1, invs=(), label="", real_rng=True):
    out = config_job(n, h, m, prio, tuple(prio_vals), max_batch, tuple(invs), label, real_rng, rep.seed, 16)
    return merge(rep, out)


def merge(rep, out):
    for r in out["tlc"]:
        rep.states += r["distinct"]
        rep.transitions += r["generated"]
        rep.extra.setdefault("tlc_runs", []).append(r)
    for key, what, replay in out["violations"]:
        rep.violation(key, what, replay)
    rep.traces += out["edges"]
    if out.get("sample"):
        rep.sample(out["sample"])
    return (out["edges"], out["nontrivial"]) if out["edges"] else None


def config_job(n, h, m, prio, prio_vals, max_batch, invs, label, real_rng, seed, workers=4, mt=False, unit=1, props=(), both=False):
    """One Subtraj configuration: TLC property run, generation run, transition-coverage replay."""
    out = {"tlc": [], "violations": [], "edges": 0, "nontrivial": 0, "sample": None}

    class _R:  # minimal stand-in for Report inside the worker
        pass

    rep = _R()
    rep.seed = seed
    rep.add_tlc = lambda r, name: out["tlc"].append({"name": name, "distinct": r.distinct, "generated": r.generated, "depth": r.depth, "wall_s": round(r.wall_s, 1)})
    rep.violation = lambda key, what, replay=None: out["violations"].append((key, what, replay))
    rep.sample = lambda s: out.__setitem__("sample", s)
    rep.traces = 0
    res = _run_config(rep, n, h, m, prio, prio_vals, max_batch, invs, label, real_rng, workers, mt, unit, props, both)
    if res:
        out["edges"], out["nontrivial"] = res
    return out


def job(kind, args):
    """Pool entry point of C04: "config" = config_job(*args); "deep" = model-only TLC run (N, H, adds, kinds, workers) with the
    C04 invariants on longer histories; "canaries" = canaries().  All return config_job's record."""
    if kind == "config":
        return config_job(*args)
    out = {"tlc": [], "violations": [], "edges": 0, "nontrivial": 0, "sample": None}
    if kind == "deep":
        n, h, m, kinds, workers = args
        c = dict(N=n, H=h, MaxAdds=m, PRIO=False, PrioVals={1}, MaxBatch=1, EMIT=False)
        if kinds == 4:
            c["Ends"] = tlc.Subst("EndsBoth")
        r = tlc.run("Subtraj", tlc.cfg_text(constants=c, invariants=INV_C04), tag="stdeep", timeout=1500, workers=workers)
        out["tlc"].append({"name": f"Subtraj model-only N={n} H={h} adds<={m} kinds={kinds}", "distinct": r.distinct, "generated": r.generated,
                           "depth": r.depth, "wall_s": round(r.wall_s, 1)})
        if not r.ok:
            out["violations"].append((f"spec:Subtraj:{r.violated}", f"design-level violation {r.violated}", r.error_trace))
    elif kind == "canaries":
        canaries(*args)
    else:  # pragma: no cover
        raise AssertionError(kind)
    return out


def _run_config(rep, n, h, m, prio, prio_vals=(1,), max_batch=1, invs=(), label="", real_rng=True, workers=16, mt=False, unit=1, props=(), both=False):
    c = dict(N=n, H=h, MaxAdds=m, PRIO=prio, PrioVals=set(prio_vals), MaxBatch=max_batch, EMIT=False)
    if both:  # definition override: the additions include the step that is terminated and truncated at once
        c["Ends"] = tlc.Subst("EndsBoth")
    if unit != 1:  # definition override: the initial tracked maximum is `unit` model units (C08: priorities below 1.0)
        c["PrioDefault"] = tlc.Subst(f"PrioDefault{unit}")
    r = tlc.run("Subtraj", tlc.cfg_text(constants=c, invariants=list(invs), properties=["EnvTermSticky"] + list(props)), coverage=True, tag=f"st{n}{h}", workers=workers)
    rep.add_tlc(r, f"Subtraj N={n} H={h} adds<={m} prio={prio} {label}")
    if not r.ok:
        rep.violation(f"spec:Subtraj:{r.violated}", f"design-level violation of {r.violated} (N={n},H={h})", r.error_trace)
        return None
    tlc.require_covered(r, ["Add"])
    c["EMIT"] = True
    g = tlc.run("Subtraj", tlc.cfg_text(constants=c), workers=1, tag=f"stgen{n}{h}", timeout=1800)
    G = graph.Graph(g.emitted)
    root = G.roots()[0]
    # the situations this configuration is there for must be in the graph that is replayed (else the verifier is broken)
    adds_ = [e for e in g.emitted if e["op"] == "Add"]
    if both and not any(e["args"][0] == "both" and e["pre"]["len"] > 0 for e in adds_):
        raise tlc.MachineryError(f"Subtraj N={n} H={h}: no addition of a terminated-and-truncated step in the generated graph")
    if n == h + 1 and m >= h + 2:
        # smallest capacity: an episode longer than H ends (the start enabled by that step is the successor row's slot) ...
        long_end = [e for e in adds_ if e["args"][0] != "cont" and e["pre"]["epT"] >= h]
        # ... on a full, wrapped buffer as well
        if not long_end or not any(e["pre"]["len"] == n for e in long_end):
            raise tlc.MachineryError(f"Subtraj N={n} H={h}: no episode longer than the horizon ends at capacity H + 1 in the generated graph")

    def stp(o, op, a, e, pre, post):
        step(o, op, a, e, pre, post)
        if real_rng and op == "Add" and post is not None:
            real_rng_windows(o, post, rep.seed)

    res = graph.cover(G, root, lambda: SubtrajAdapter(n, h, prio, mt, unit), stp, project)
    rep.traces += res["edges_tested"]

    # histories on one live object: observers (sampling) interleaved with additions (graph.walks)
    def wstp(o, op, a, e, pre, post):
        step(o, op, a, e, pre, post)
        if real_rng and not prio and op == "Add" and post is not None:
            real_rng_windows(o, post, rep.seed, live=True)

    wres = graph.walks(G, root, lambda: SubtrajAdapter(n, h, prio, mt, unit), wstp, project, n=24, max_len=3 * m, seed=rep.seed)
    rep.traces += wres["walks"]
    res["violations"] += wres["violations"]
    cls = ("SubtrajectoryReplayBufferPER" if prio else "SubtrajectoryReplayBuffer") + ("[task 0 of MultiTaskReplayBuffer]" if mt else "")
    for v in res["violations"]:
        rep.violation(
            f"{cls}:{v['path'][-1]['op']}:{v['code']}",
            f"{cls} (N={n}, H={h}): {v['what']}",
            {"class": cls, "N": n, "H": h, "prio": prio, "mt": mt, "unit": unit, "path": v["path"], "detail": v["detail"]},
        )
    nontrivial = sum(1 for k, es in G.out.items() for e in es if G.state[k]["len"] > 0)
    rep.sample({"N": n, "H": h, "transition": g.emitted[len(g.emitted) // 2]})
    return res["edges_tested"], nontrivial


def canaries(workers=16):
    c = dict(N=5, H=2, MaxAdds=9, PRIO=False, PrioVals={1}, MaxBatch=1, EMIT=False)
    r = tlc.run("Subtraj", tlc.cfg_text(next="NextBadTrunc", constants=c, invariants=["WindowsValid"]), tag="stbad1", workers=workers)
    if r.violated != "WindowsValid":
        raise tlc.MachineryError("canary: truncated-tail deviation not refuted by WindowsValid")
    c = dict(N=6, H=3, MaxAdds=9, PRIO=False, PrioVals={1}, MaxBatch=1, EMIT=False)
    r = tlc.run("Subtraj", tlc.cfg_text(constants=c, invariants=["WindowsValidBadMod"]), tag="stbad2", workers=workers)
    if r.violated != "WindowsValidBadMod":
        raise tlc.MachineryError("canary: modulo-capacity windows not refuted")
    # (c) termination taking precedence over truncation for a step with both flags: refuted only if such steps are explored
    c = dict(N=3, H=1, MaxAdds=4, PRIO=False, PrioVals={1}, MaxBatch=1, EMIT=False)
    r = tlc.run("Subtraj", tlc.cfg_text(next="NextBadBoth", constants=c, invariants=["WindowsValid"]), tag="stbad3", workers=workers)
    if r.violated != "WindowsValid":
        raise tlc.MachineryError("canary: admissible tail of a terminated-and-truncated episode not refuted by WindowsValid")
    # (d) successor row's slot cleared before the start H behind is enabled: differs only at capacity H + 1
    c = dict(N=3, H=2, MaxAdds=5, PRIO=False, PrioVals={1}, MaxBatch=1, EMIT=False)
    r = tlc.run("Subtraj", tlc.cfg_text(next="NextBadEarlyClear", constants=c, invariants=["MaskOnlyWritten"]), tag="stbad4", workers=workers)
    if r.violated != "MaskOnlyWritten":
        raise tlc.MachineryError("canary: admissible successor row at capacity H + 1 not refuted by MaskOnlyWritten")
    c["N"] = 4
    r = tlc.run("Subtraj", tlc.cfg_text(next="NextBadEarlyClear", constants=c, invariants=list(INV_C04)), tag="stbad5", workers=workers)
    if not r.ok:
        raise tlc.MachineryError("canary: the early-clear order is refuted at capacity H + 2, where it must be equivalent")


def replay(path, pid):
    import json

    d = json.load(open(path))["replay"]
    ad = SubtrajAdapter(d["N"], d["H"], d["prio"], d.get("mt", False), d.get("unit", 1))
    try:
        for st in d["path"]:
            step(ad, st["op"], st["args"], st.get("exp"), None, None)
            print(st["op"], st["args"])
        got = project(ad)
        print(got)
        want = (d.get("detail") or {}).get("want")  # the model's state after the last step, where the violation recorded it
        if want is not None and graph.canon(got) != graph.canon(want):
            raise Mismatch(f"state after the last step differs from the model's {want}")
    except Mismatch as m:
        print(f"VIOLATION property={pid} replay={path}")
        print("  ", m.what)
        return 1
    except Exception as e:
        print(f"VIOLATION property={pid} replay={path}")
        print("   exception", repr(e))
        return 1
    return 0
