"""Adapters for the on-policy routines: REINFORCE, actor-critic, A2C, PPO.

These routines keep no replay buffer; what they keep for learning is the
result of one *collection call* (an `EpisodeDataset`, a rollout
`ReplayBuffer` with (T, N, ...) rows, or PPO's flattened env-major arrays).
The collection function is a module-level name that the train function looks
up at call time (`reinforce.sample_trajectories`,
`actor_critic.sample_trajectories` - imported by name into that module -,
`a2c.collect_trajectories`, `ppo.collect_trajectories`); it is interposed by a
wrapper that calls the real one and then emits one `add` event per kept row,
per environment in time order, decoded from the kept arrays only.

Conventions that differ from the replay-buffer adapters (all reported):

* policy probe: subclass of the policy head whose `sample` reports the
  observation(s) it was conditioned on together with the sampled action
  (`chosen`, discrete heads; `argmax` is set to the whole support because a
  stochastic head may choose any action - this keeps GreedyIsMaximiser silent
  and lets ChosenActionPassed compare sampled and passed action).  A batch of
  N observations (vector envs) gives N `policy` events, env = row index.
* REINFORCE / actor-critic: the EpisodeDataset keeps (obs, action, next_obs,
  reward) grouped by episode and NO termination flag: cfg check_term=False
  (and chk_term=False on every add).  (actor-critic's TD weights
  `r + gamma v(next) - v`, actor_critic.py:64-67, bootstrap on every row; that
  is a matter of the loss, not of stored experience.)
* C10 (action bounds) does not cover these routines: cfg check_bounds=False.
* A2C: rollout rows (obs, action, reward, termination, truncation); no
  successor is kept, GAE uses the value of the next row / of `last_obs`
  (a2c.py:342-345), so `next` = observation of the next kept row of that
  environment (last row: the returned last observation).  The routine is run
  as its tests / examples run it: SyncVectorEnv in gymnasium's default
  NEXT_STEP autoreset mode + RecordEpisodeStatistics.  In that mode the call
  after an episode end does NOT step the sub-environment: it resets it,
  ignores the action and returns reward 0 / no flags (gymnasium
  sync_vector_env.py step()).  The row the routine keeps for such a call is
  accepted as what the vector environment produced for it (obs = final
  observation, reward 0, next = reset observation, no flags, action ignored):
  cfg autoreset=True, and the row - recognised from the kept flags only
  (previous kept row of that environment has termination or truncation set) -
  is emitted as `add` with `auto=True` in its natural per-env position; the
  trace spec matches it against the rows pushed by the sub-environment's
  auto-reset `reset` events.
  The routine's own counter (global_step += num_envs per vector call) also
  counts these no-op calls, so with many episode ends fewer environment steps
  than total_timesteps are executed and the block overshoot (BudgetRespected)
  only shows with long episodes, e.g. script [(50, "term")], budget 26.
* PPO: SAME_STEP autoreset (asserted by the routine).  Kept: observation,
  action, reward, terminated, next_value.  `next` = the observation on which
  the kept next_value was computed (recorded by a critic subclass on eager
  calls and bound to the kept array by bit-equality of the values).
* sub-environment i of a vector env runs the episode script rotated by i, so
  the environments do not end their episodes in lock step.
* rows that reach a learner: the module-level policy / value update functions
  the train functions look up at call time (`train_policy_reinforce`,
  `train_policy_actor_critic`, `train_policy_a2c`, `train_value_function` in
  each module's namespace, `update_ppo`) are interposed; before the real one
  runs, one `learn_rows` event carries every row of the batch it is handed
  (obs tag, and - where the learner gets them - action, reward, successor,
  termination flag; `has` names the fields present).  LoopTrace judges each
  row against the ENVIRONMENT LOG (EvLearnRows / CRowVerdict): the row must be
  one real step, whatever the layout of the batch (time-major, env-major,
  shuffled).  A2C (2 envs x 3 steps per update) and PPO (2 envs x 3 vector
  steps per iteration) run with several environments and several steps per
  update in every scenario, so a layout mismatch between the columns of the
  prepared batch shows.
"""
from __future__ import annotations

import numpy as np

from .algos import base_cfg, final_digests, finish, guarded, interpose, routine
from .envs import Recorder, ScriptEnv, adigest, decode_obs

NOTAG = [-1, -1, -1]


# ------------------------------------------------------------------ helpers
def _act(a, discrete):
    a = np.asarray(a)
    if discrete:
        v = float(a.reshape(-1)[0]) if a.size == 1 else float("nan")
        return int(v) if v == int(v) else f"nonint:{v}"
    return adigest(np.asarray(a, dtype=np.float32).reshape(-1))


def _r4(r):
    return int(round(float(np.asarray(r).reshape(-1)[0]) * 4))


def _probed_policy(base_cls, rec, discrete, n_actions=0):
    """Policy head whose sample() reports observation(s) and sampled action(s)."""
    import jax

    def host(o, a):
        o, a = np.asarray(o), np.asarray(a)
        rows = [(0, o, a)] if o.ndim == 1 else [(e, o[e], a[e]) for e in range(o.shape[0])]
        for e, oe, ae in rows:
            f = dict(env=e, obs=decode_obs(oe))
            if discrete:
                f.update(chosen=int(ae), argmax=list(range(n_actions)))
            else:
                f.update(actd=adigest(np.asarray(ae, dtype=np.float32).reshape(-1)))
            rec.emit("policy", **f)

    class Probed(base_cls):
        def sample(self, observation, key):
            action = super().sample(observation, key)
            if isinstance(observation, jax.core.Tracer) or isinstance(action, jax.core.Tracer):
                jax.debug.callback(host, observation, action, ordered=True)
            else:
                host(observation, action)
            return action

    Probed.__name__ = Probed.__qualname__ = "Probed" + base_cls.__name__
    return Probed


def _nets(rec, sc, discrete, n_actions, critic_cls=None):
    """Tiny real policy / value networks with optimisers; everything watched."""
    import optax
    from flax import nnx
    from rl_blox.blox.function_approximator.gaussian_mlp import GaussianMLP
    from rl_blox.blox.function_approximator.mlp import MLP
    from rl_blox.blox.function_approximator.policy_head import GaussianPolicy, SoftmaxPolicy

    if discrete:
        policy = _probed_policy(SoftmaxPolicy, rec, True, n_actions)(MLP(3, n_actions, [8], "swish", nnx.Rngs(sc["seed"])))
    else:
        policy = _probed_policy(GaussianPolicy, rec, False)(GaussianMLP(True, 3, n_actions, [8], "swish", nnx.Rngs(sc["seed"])))
    popt = nnx.Optimizer(policy, optax.adam(0.01), wrt=nnx.Param)
    vf = (critic_cls or MLP)(3, 1, [8], "swish", nnx.Rngs(sc["seed"] + 1))
    vopt = nnx.Optimizer(vf, optax.adam(0.01), wrt=nnx.Param)
    for k, v in dict(policy=policy, value_function=vf, policy_opt=popt, value_opt=vopt).items():
        rec.watch_module(k, v)
    return policy, popt, vf, vopt


def _cfg(name, sc, nenvs, budget, **over):
    c = base_cfg(name, sc, nenvs=nenvs, budget=budget, start=0, eplimit=0, warmlearn=-1, warmact=-1, explore_only_in_warmup=False,
                 policy_probe=True, check_bounds=False, ret_applicable=False, trained=["policy", "value_function"], targets=[], rules=[])
    c.update(over)
    return c


def _final(policy, popt, vf, vopt):
    return final_digests(policy=policy, value_function=vf, policy_opt=popt, value_opt=vopt)



# ------------------------------------------------------------------ rows that reach a learner
_LEARNER_COLUMNS = dict(obs=("observations", "observation"), act=("actions", "action"), next=("next_observations", "next_observation"),
                        r=("rewards", "reward"), term=("terminated", "terminations", "termination"))


def _call_args(real, a, k):
    """arguments of a call by parameter name (signature of the real function, also through nnx.jit / functools.wraps)"""
    import inspect

    try:
        return dict(inspect.signature(real).bind(*a, **k).arguments)
    except (TypeError, ValueError):
        return dict(k)


def _learner_wrapper(rec, real, label, discrete, start=0):
    """Module-level update function `real` (looked up by the train function at call time): report every row of the batch
    it is handed as one `learn_rows` event (taken from the ARGUMENTS only), then call it."""

    def learner(*a, **k):
        args = _call_args(real, a, k)
        col = {}
        for f, names in _LEARNER_COLUMNS.items():
            for nm in names:
                if nm in args and args[nm] is not None:
                    col[f] = np.asarray(args[nm])
                    break
        if "obs" in col and col["obs"].ndim >= 1:
            n = len(col["obs"])
            has = [f for f in ("act", "r", "next", "term") if f in col and col[f].ndim >= 1 and len(col[f]) == n]
            rows = []
            for i in range(n):
                row = dict(obs=decode_obs(col["obs"][i]), has=has)
                if "act" in has:
                    # discrete heads are trained on `action - action_space.start`
                    row["act"] = _act(col["act"][i] + start if discrete else col["act"][i], discrete)
                if "r" in has:
                    row["r4"] = _r4(col["r"][i])
                if "next" in has:
                    row["next"] = decode_obs(col["next"][i])
                if "term" in has:
                    row["term"] = bool(np.asarray(col["term"][i]).reshape(-1)[0])
                rows.append(row)
            rec.emit("learn_rows", learner=label, lrows=rows, n=n)
        return real(*a, **k)

    return learner


def _learners(rec, mod, names, discrete, start=0):
    """interposition dict for those of `names` the module defines"""
    return {nm: _learner_wrapper(rec, getattr(mod, nm), nm, discrete, start) for nm in names if hasattr(mod, nm)}


# ------------------------------------------------------------------ REINFORCE / actor-critic (single env, EpisodeDataset)
def _episode_dataset_wrapper(rec, real, discrete):
    import jax

    def sample_trajectories(*a, **k):
        ds = real(*a, **k)
        jax.effects_barrier()
        # what the learners receive are the flattened rows of prepare_policy_gradient_dataset (observation, action,
        # successor observation per sample): the kept transition is judged in THAT form; the raw episode record is
        # used where the prepared view is not available (rewards are only kept in the record)
        prep = None
        try:
            env = a[0] if a else k.get("env")
            po, pa, pn = (np.asarray(x) for x in ds.prepare_policy_gradient_dataset(env.action_space, 1.0)[:3])
            if len(po) == len(pa) == len(pn) == sum(len(ep) for ep in ds.episodes):
                start = getattr(env.action_space, "start", 0) if discrete else 0
                prep = (po, pa + start if discrete else pa, pn)
        except Exception:  # noqa: BLE001
            prep = None
        j = 0
        for i, ep in enumerate(ds.episodes):
            for t, (o, act, no, r) in enumerate(ep):
                if prep is not None:
                    o, act, no = prep[0][j], prep[1][j], prep[2][j]
                j += 1
                rec.emit("add", env=0, obs=decode_obs(o), act=_act(act, discrete), r4=_r4(r), next=decode_obs(no), term=False, chk_term=False,
                         episode=i, t=t)
        return ds

    return sample_trajectories


def _single_env_pg(name, sc, discrete, mod, train, with_baseline=True):
    import jax

    from .probes import recording_logger

    rec = Recorder()
    if discrete:
        env = ScriptEnv(rec, sc["script"], discrete_actions=3)
        na = 3
    else:
        env = ScriptEnv(rec, sc["script"], low=sc.get("low", (-1.0, -0.5)), high=sc.get("high", (2.0, 0.25)))
        na = env.action_space.shape[0]
    policy, popt, vf, vopt = _nets(rec, sc, discrete, na)
    logger = recording_logger(rec)
    kwargs = dict(seed=sc["seed"], total_timesteps=sc["budget"], gamma=0.5, steps_per_update=sc.get("steps_per_update", 5),
                  train_after_episode=bool(sc.get("train_after_episode", False)), logger=logger, progress_bar=False)
    wrapper = _episode_dataset_wrapper(rec, mod.sample_trajectories, discrete)
    learners = _learners(rec, mod, ("train_policy_reinforce", "train_policy_actor_critic", "train_value_function"), discrete,
                         getattr(env.action_space, "start", 0) if discrete else 0)
    try:
        with interpose(mod, sample_trajectories=wrapper, **learners):
            if with_baseline:
                res, err = guarded(lambda: train(env, policy, popt, vf, vopt, **kwargs))
            else:
                res, err = guarded(lambda: train(env, policy, popt, **kwargs))
    finally:
        jax.effects_barrier()
    cfg = _cfg(name, sc, 1, sc["budget"], check_term=False)  # no termination flag is kept
    return finish(rec, name, sc, cfg, returned=None, final=_final(policy, popt, vf, vopt), error=err)


@routine("reinforce")
def run_reinforce(sc):
    from rl_blox.algorithm import reinforce as m

    return _single_env_pg("reinforce", sc, True, m, m.train_reinforce)


@routine("reinforce_gauss")
def run_reinforce_gauss(sc):
    """Continuous variant (GaussianPolicy on a Box action space)."""
    from rl_blox.algorithm import reinforce as m

    return _single_env_pg("reinforce_gauss", sc, False, m, m.train_reinforce)


@routine("actor_critic")
def run_actor_critic(sc):
    from rl_blox.algorithm import actor_critic as m

    return _single_env_pg("actor_critic", sc, True, m, m.train_ac)


# ------------------------------------------------------------------ vector environments
def _vector_env(rec, sc, mode, n=2, **kw):
    import gymnasium as gym

    script = list(sc["script"])
    subs = []
    for i in range(n):
        k = i % len(script)
        subs.append(ScriptEnv(rec, script[k:] + script[:k], env_id=i, **kw))
    am = getattr(gym.vector.AutoresetMode, mode)
    return gym.vector.SyncVectorEnv([(lambda e=e: e) for e in subs], autoreset_mode=am), subs


# ------------------------------------------------------------------ A2C
def _a2c_wrapper(rec, real, discrete, nenvs):
    prev_done = {e: False for e in range(nenvs)}  # kept flags of the last row of the previous block

    def collect_trajectories(*a, **k):
        out = real(*a, **k)
        buf, last_obs = out[0], np.asarray(out[1])
        b = buf.buffer
        T = len(buf)
        obs, acts, rews = np.asarray(b["obs"]), np.asarray(b["actions"]), np.asarray(b["rewards"])
        terms, truncs = np.asarray(b["terminations"]), np.asarray(b["truncations"])
        for e in range(nenvs):
            for t in range(T):
                row_before_done = prev_done[e] if t == 0 else bool(terms[t - 1, e]) or bool(truncs[t - 1, e])
                nxt = obs[t + 1, e] if t + 1 < T else last_obs[e]
                f = dict(env=e, obs=decode_obs(obs[t, e]), act=_act(acts[t, e], discrete), r4=_r4(rews[t, e]), next=decode_obs(nxt),
                         term=bool(terms[t, e]), trunc_kept=bool(truncs[t, e]), t=t, auto=row_before_done)
                rec.emit("add", **f)  # auto: row kept for an auto-reset call (matched against what the vector env produced for it)
            if T:
                prev_done[e] = bool(terms[T - 1, e]) or bool(truncs[T - 1, e])
        return out

    return collect_trajectories


@routine("a2c")
def run_a2c(sc):
    import gymnasium as gym
    from rl_blox.algorithm import a2c as m

    from .probes import recording_logger

    rec = Recorder()
    n = 2
    venv, subs = _vector_env(rec, sc, sc.get("autoreset", "NEXT_STEP"), n, discrete_actions=3)
    envs = gym.wrappers.vector.RecordEpisodeStatistics(venv)
    policy, popt, vf, vopt = _nets(rec, sc, True, 3)
    logger = recording_logger(rec)
    kwargs = dict(seed=sc["seed"], total_timesteps=sc["budget"], gamma=0.5, gae_lambda=0.5, steps_per_update=sc.get("steps_per_update", 3),
                  log_frequency=None, logger=logger, progress_bar=False)
    learners = _learners(rec, m, ("train_policy_a2c", "train_value_function"), True, int(getattr(venv.single_action_space, "start", 0)))
    with interpose(m, collect_trajectories=_a2c_wrapper(rec, m.collect_trajectories, True, n), **learners):
        res, err = guarded(lambda: m.train_a2c(envs, policy, popt, vf, vopt, **kwargs))
    cfg = _cfg("a2c", sc, n, sc["budget"], autoreset=True)
    return finish(rec, "a2c", sc, cfg, returned=None, final=_final(policy, popt, vf, vopt), error=err)


# ------------------------------------------------------------------ PPO
def _probed_critic(calls):
    import jax
    from rl_blox.blox.function_approximator.mlp import MLP

    class ProbedCritic(MLP):
        def __call__(self, x):
            y = super().__call__(x)
            if not isinstance(x, jax.core.Tracer) and not isinstance(y, jax.core.Tracer):
                calls.append((np.asarray(x), np.asarray(y)))
            return y

    return ProbedCritic


def _ppo_wrapper(rec, real, discrete, nenvs, calls):
    def collect_trajectories(*a, **k):
        del calls[:]
        out = real(*a, **k)
        obs, acts = np.asarray(out.observation), np.asarray(out.action)
        rews, terms, nvals = np.asarray(out.reward).reshape(-1), np.asarray(out.terminated).reshape(-1), np.asarray(out.next_value).reshape(-1)
        T = obs.shape[0] // nenvs
        # eager critic calls on a batch of N observations, in program order: one per kept time step
        cand = [c for c in calls if c[0].ndim == 2 and c[0].shape[0] == nenvs]
        for e in range(nenvs):
            for t in range(T):
                j = e * T + t  # env-major flattening (ppo.py reshape_batch)
                nxt, bound = NOTAG, False
                if len(cand) == T:
                    x, y = cand[t]
                    bound = np.asarray(y).reshape(-1)[e].tobytes() == nvals[j].tobytes()
                    if bound:
                        nxt = decode_obs(x[e])
                rec.emit("add", env=e, obs=decode_obs(obs[j]), act=_act(acts[j], discrete), r4=_r4(rews[j]), next=nxt, term=bool(terms[j]),
                         t=t, next_bound=bool(bound))
        return out

    return collect_trajectories


@routine("ppo")
def run_ppo(sc):
    from rl_blox.algorithm import ppo as m

    from .probes import recording_logger

    rec = Recorder()
    n = 2
    envs, subs = _vector_env(rec, sc, "SAME_STEP", n, discrete_actions=3)
    calls = []
    policy, popt, vf, vopt = _nets(rec, sc, True, 3, critic_cls=_probed_critic(calls))
    logger = recording_logger(rec) if sc.get("ppo_logger", True) else None
    bs = sc.get("ppo_batch", 3)  # vector steps per iteration
    iterations = max(1, sc["budget"] // (bs * n))
    learners = _learners(rec, m, ("update_ppo",), True)  # PPO hands the sampled actions to the learner as they are
    with interpose(m, collect_trajectories=_ppo_wrapper(rec, m.collect_trajectories, True, n, calls), **learners):
        res, err = guarded(lambda: m.train_ppo(envs, policy, vf, popt, vopt, iterations=iterations, epochs=2, batch_size=bs, seed=sc["seed"],
                                               logger=logger, progress_bar=False))
    # one "step" of the routine is one vector step = N environment steps: iterations * batch_size * N environment steps in total
    cfg = _cfg("ppo", sc, n, iterations * bs * n, autoreset=False)  # SAME_STEP: no separate auto-reset calls / rows
    return finish(rec, "ppo", sc, cfg, returned=None, final=_final(policy, popt, vf, vopt), error=err)
