"""Adapters (see ADAPTERS.md) for the routines that are not a single off-/on-policy learner:

  pets       rl_blox.algorithm.pets.train_pets              (model-based: planner probe via `mpc_action`)
  cmaes      rl_blox.algorithm.cmaes.train_cmaes            (episode budget, nothing kept for learning)
  rollout    rl_blox.util.experiment_helper.generate_rollout
  uts        rl_blox.algorithm.uniform_task_sampling.train_uts  over train_sac   (as tests/test_uts.py)
  smt        rl_blox.algorithm.smt.train_smt                    over train_ddpg  (as tests/test_smt.py)
  active_mt  rl_blox.algorithm.active_mt.train_active_mt        over train_ddpg  (as examples/amt_continuous_example.py)

Multi-task schedulers: the task set is a real `DiscreteTaskSet` over ONE ScriptEnv (that is how the class
works: one base environment, re-parameterised by `set_context`); `set_context` switches the env_id of the
base environment, so every tag / event names the task (cfg nenvs = number of tasks).  The single-task
learner is wrapped so that every chained call leaves an `inner_call` (start, budget, eplimit) and an
`inner_ret` (start, n = count the learner reports, executed = steps the environment really executed so
far) event; LoopTrace ignores them (frame clauses only) - see the report for what a trace spec should
check on them.  `add` events of the MultiTaskReplayBuffer are filed under env = the task the buffer has
selected (src_env = the task the base environment is set to), so a transition kept in another task's
buffer shows up as StoredNotProduced / StoreObs.  smt / active_mt end with a `training_steps` event
(per_task as returned, per_env_executed as counted from the step events); `ret` = sum(training_steps).

Cost: every chained call re-creates its jitted functions inside the learner (train_sac / train_ddpg build
`train_step` with a fresh functools.partial), so a scheduler run is dominated by 10-20 re-compilations.
"""
from __future__ import annotations

import functools

import numpy as np

from .algos import _PROBE, _box_env, _probed_tanh_policy, base_cfg, final_digests, finish, guarded, interpose, routine
from .envs import Recorder, ScriptEnv, adigest, decode_obs
from .probes import _act, recording_buffer, recording_logger

# ------------------------------------------------------------------ probes that know the live environment
# The host callback looks the recorder up at CALL time: class-level jitted methods (GaussianTanhPolicy.sample)
# keep their traces across runs in one process, so nothing run-specific may be closed over at trace time.
_CUR = {"rec": None, "env": None}


def _host_policy(o):
    r = _CUR["rec"]
    if r is not None:
        e = _CUR["env"]
        r.emit("policy", obs=decode_obs(np.asarray(o)), env=int(e.env_id) if e is not None else 0)


def _probe(observation):
    import jax

    if getattr(observation, "ndim", 1) == 1:
        jax.debug.callback(_host_policy, observation, ordered=True)


class _probing:
    """Context: route policy probes of this module (and of algos._probed_tanh_policy) to `rec`."""

    def __init__(self, rec, env=None):
        self.rec, self.env = rec, env

    def __enter__(self):
        _CUR.update(rec=self.rec, env=self.env)
        _PROBE["fn"] = _probe

    def __exit__(self, *a):
        import jax

        jax.effects_barrier()
        _PROBE["fn"] = None
        _CUR.update(rec=None, env=None)


def _sample_fields(sample):
    f = {"obs": decode_obs(sample["observation"]), "act": _act(sample["action"]), "r4": int(round(float(sample["reward"]) * 4)),
         "next": decode_obs(sample["next_observation"])}
    for k in ("termination", "terminated"):
        if k in sample:
            f["term"] = bool(sample[k])
    return f


# ------------------------------------------------------------------ PE-TS
@routine("pets")
def run_pets(sc):
    from rl_blox.algorithm import pets
    from rl_blox.blox import replay_buffer as rb

    rec = Recorder()
    env = _box_env(rec, sc)
    ls = sc["warm"]
    # with a long warm-up the model is refined every 2 steps: steps t < learning_starts with (learning_starts - t) a
    # multiple of the interval then exist at which the buffer already holds enough rows for a real update
    nspi = sc.get("n_steps_per_iteration", 2 if ls >= 6 else 4)
    state = pets.create_pets_state(env, seed=sc["seed"], n_ensemble=2, hidden_nodes=(4,), learning_rate=0.01, batch_size=2)
    rec.watch_module("dynamics", state.model)
    buf = recording_buffer(rb.ReplayBuffer, rec, sc["cap"])
    logger = recording_logger(rec)

    def reward_model(act, obs):  # vectorised, jit-able: (..., A), (..., O) -> (...)
        import jax.numpy as jnp

        return obs[..., 1] - jnp.sum(act * act, axis=-1)

    real_mpc = pets.mpc_action

    def mpc_action(config, mpc_state, optimize_fn, obs):
        # the observation the planner is conditioned on; `current`: it plans with the live dynamics model
        rec.emit("policy", obs=decode_obs(obs), current=bool(mpc_state.dynamics_model is state.model))
        return real_mpc(config, mpc_state, optimize_fn, obs)

    with interpose(pets, mpc_action=mpc_action):
        res, err = guarded(lambda: pets.train_pets(
            env, reward_model, state, plan_horizon=2, n_particles=2, n_samples=10, n_opt_iter=1, seed=sc["seed"],
            total_timesteps=sc["budget"], learning_starts=ls, learning_starts_gradient_steps=2, n_steps_per_iteration=nspi,
            gradient_steps=1, replay_buffer=buf, logger=logger, progress_bar=False))
    # Documentation: "Learning starts after this number of random steps was taken" -> the first model update is
    # legitimate once steps 0..ls-1 have been executed, i.e. latest executed index >= ls-1; the model is refined
    # before step t whenever t >= ls and (t-ls) % n_steps_per_iteration == 0, i.e. latest index = t-1.
    rules = [dict(comps=["dynamics"], counter="step", mod=nspi, rem=(ls - 1) % nspi, after=ls - 1)]
    cfg = base_cfg("pets", sc, start=0, eplimit=0, warmlearn=ls - 1, warmact=ls, explore_only_in_warmup=True, ulpk=0, policy_probe=True,
                   ret_applicable=False, trained=["dynamics"], targets=[], segment="sample", rules=rules)
    return finish(rec, "pets", sc, cfg, returned=None, final=final_digests(dynamics=state.model), error=err, buffer=buf)


# ------------------------------------------------------------------ CMA-ES
@routine("cmaes")
def run_cmaes(sc):
    from flax import nnx
    from rl_blox.algorithm import cmaes
    from rl_blox.blox.function_approximator.mlp import MLP

    rec = Recorder()
    env = _box_env(rec, sc)
    na = env.action_space.shape[0]
    policy = _probed_tanh_policy()(MLP(3, na, [4], "relu", nnx.Rngs(sc["seed"])), env.action_space)
    rec.watch_module("policy", policy)
    logger = recording_logger(rec)
    total_episodes = sc.get("eplimit") or 6
    with _probing(rec):
        res, err = guarded(lambda: cmaes.train_cmaes(env, policy, total_episodes, seed=sc["seed"], variance=0.25,
                                                     n_samples_per_update=sc.get("n_samples_per_update", 3), active=bool(sc.get("cma_active", False)),
                                                     logger=logger, progress_bar=False))
    # one episode per candidate, no step budget, nothing is kept for learning (fitness = return only); the policy
    # parameters are set before each episode (candidate) - warm-up / cadence rules do not apply.
    cfg = base_cfg("cmaes", sc, budget=-1, start=0, eplimit=total_episodes, warmlearn=-1, warmact=-1, explore_only_in_warmup=False, ulpk=2,
                   policy_probe=True, ret_applicable=False, trained=["policy"], targets=[], rules=[])
    return finish(rec, "cmaes", sc, cfg, returned=None, final=final_digests(policy=policy), error=err)


# ------------------------------------------------------------------ generate_rollout
@routine("rollout")
def run_rollout(sc):
    import jax
    from rl_blox.util import experiment_helper

    rec = Recorder()
    env = ScriptEnv(rec, sc["script"], discrete_actions=3)

    def policy(observation, key):  # uniformly random: every action is a maximiser of the (constant) preference
        a = int(jax.random.randint(key, (), 0, 3))
        rec.emit("policy", obs=decode_obs(observation), chosen=a, argmax=[0, 1, 2])
        return a

    res, err = guarded(lambda: experiment_helper.generate_rollout(env, policy, seed=sc["seed"]))
    if res is not None:
        # what the helper keeps: obs[0..T], actions[0..T-1], rewards[0..T-1]; it keeps no termination flag, so the
        # `term` field is copied from the produced step (neutral) - alignment of obs / act / reward / next is checked.
        obs, acts, rews = (np.asarray(x) for x in res)
        terms = [e["term"] for e in rec.events if e["ev"] == "step"]
        for i in range(len(acts)):
            rec.emit("add", env=0, obs=decode_obs(obs[i]), act=int(acts[i]), r4=int(round(float(rews[i]) * 4)),
                     next=decode_obs(obs[i + 1]) if i + 1 < len(obs) else [-1, -1, -1], term=bool(terms[i]) if i < len(terms) else False)
    # one call = one episode; no step budget, no warm-up, no learning
    cfg = base_cfg("rollout", sc, budget=-1, start=0, eplimit=1, warmlearn=-1, warmact=-1, explore_only_in_warmup=False, policy_probe=True,
                   ret_applicable=False, trained=[], targets=[], rules=[])
    return finish(rec, "rollout", sc, cfg, returned=None, final={}, error=err)


# ------------------------------------------------------------------ multi-task schedulers
N_TASKS = 3


def _task_set(rec, sc):
    from rl_blox.blox.multitask import DiscreteTaskSet

    base = ScriptEnv(rec, sc["script"], low=sc.get("low", (-1.0, -0.5)), high=sc.get("high", (2.0, 0.25)), env_id=0)

    def set_context(env, context):  # the context IS the task id: tags and events of the base env now name the task
        env.env_id = int(np.asarray(context).ravel()[0])
        env.action_space.attach(rec, env.env_id)

    contexts = np.arange(N_TASKS, dtype=np.float32)[:, np.newaxis]
    # context_aware=False: observations stay the 3-component tags (the context is already component 2 of the tag)
    return base, DiscreteTaskSet(base, set_context, contexts, context_aware=False)


def _traced(rec, base, train_st):
    """Wrap the single-task learner: one inner_call / inner_ret event per chained call."""

    def call(*a, **k):
        start = int(k.get("global_step", 0))
        rec.emit("inner_call", env=int(base.env_id), start=start, budget=int(k.get("total_timesteps", -1)), eplimit=int(k.get("total_episodes") or 0),
                 warm=int(k.get("learning_starts", -1)), seed=int(k.get("seed", -1)), executed=int(base.n_steps))
        res = train_st(*a, **k)
        n = getattr(res, "global_step", None)
        if n is None:
            n = getattr(res, "steps_trained", None)
        rec.emit("inner_ret", env=int(base.env_id), start=start, n=-1 if n is None else int(n), executed=int(base.n_steps))
        return res

    return call


def _recording_mt_buffer(rec, base, cap):
    from rl_blox.blox.replay_buffer import MultiTaskReplayBuffer, ReplayBuffer

    class RecordingMultiTaskReplayBuffer(MultiTaskReplayBuffer):
        def select_task(self, task_id):
            out = super().select_task(task_id)
            rec.emit("select_task", task=int(task_id))
            return out

        def add_sample(self, *a, **sample):
            out = super().add_sample(*a, **sample)
            # filed under the task the buffer has selected: that is the stream the routine claims the transition belongs to
            rec.emit("add", env=int(self.selected_task), src_env=int(base.env_id), **_sample_fields(sample))
            return out

        def sample_batch(self, *a, **k):
            out = super().sample_batch(*a, **k)
            rec.emit("sample", n=int(len(self)), task=int(getattr(self, "sampled_task_idx", -1)))
            return out

    return RecordingMultiTaskReplayBuffer(ReplayBuffer(cap), N_TASKS)


def _recording_env_buffer(rec, base, cap):
    """Plain ReplayBuffer whose add events carry the env id of the task that produced the transition."""
    from rl_blox.blox.replay_buffer import ReplayBuffer

    class RecordingReplayBuffer(ReplayBuffer):
        def add_sample(self, **sample):
            out = super().add_sample(**sample)
            rec.emit("add", env=int(base.env_id), **_sample_fields(sample))
            return out

        def sample_batch(self, *a, **k):
            out = super().sample_batch(*a, **k)
            rec.emit("sample", n=int(self.current_len))
            return out

    return RecordingReplayBuffer(cap)


def _ddpg_parts(rec, env, sc):
    import optax
    from flax import nnx
    from rl_blox.blox.function_approximator.mlp import MLP

    na = env.action_space.shape[0]
    policy = _probed_tanh_policy()(MLP(3, na, [8], "relu", nnx.Rngs(sc["seed"])), env.action_space)
    popt = nnx.Optimizer(policy, optax.adam(0.01), wrt=nnx.Param)
    q = MLP(3 + na, 1, [8], "relu", nnx.Rngs(sc["seed"] + 1))
    qopt = nnx.Optimizer(q, optax.adam(0.01), wrt=nnx.Param)
    ptgt, qtgt = nnx.clone(policy), nnx.clone(q)
    mods = dict(policy=policy, q=q, policy_target=ptgt, q_target=qtgt)
    for k, v in mods.items():
        rec.watch_module(k, v)
    return mods, dict(policy=policy, policy_optimizer=popt, q=q, q_optimizer=qopt, policy_target=ptgt, q_target=qtgt)


def _per_env_steps(rec):
    out = [0] * N_TASKS
    for e in rec.events:
        if e["ev"] == "step":
            out[e["env"]] += 1
    return out


def _sched_cfg(name, sc, **over):
    d = dict(nenvs=N_TASKS, start=0, eplimit=0, warmlearn=sc["warm"], warmact=sc["warm"], policy_probe=True, ret_applicable=True)
    d.update(over)
    return base_cfg(name, sc, **d)


@routine("uts")
def run_uts(sc):
    import optax
    from flax import nnx
    from rl_blox.algorithm import sac
    from rl_blox.algorithm.uniform_task_sampling import train_uts
    from rl_blox.blox.double_qnet import ContinuousClippedDoubleQNet
    from rl_blox.blox.function_approximator.gaussian_mlp import GaussianMLP
    from rl_blox.blox.function_approximator.mlp import MLP
    from rl_blox.blox.function_approximator.policy_head import GaussianTanhPolicy

    class ProbedGaussianTanhPolicy(GaussianTanhPolicy):
        def __call__(self, observation):
            _probe(observation)
            return super().__call__(observation)

    rec = Recorder()
    base, tasks = _task_set(rec, sc)
    env = tasks.get_task(0)
    na = env.action_space.shape[0]
    policy = ProbedGaussianTanhPolicy(GaussianMLP(False, 3, na, [8], "swish", nnx.Rngs(sc["seed"])), env.action_space)
    popt = nnx.Optimizer(policy, optax.adam(0.01), wrt=nnx.Param)
    q = ContinuousClippedDoubleQNet(MLP(3 + na, 1, [8], "relu", nnx.Rngs(sc["seed"] + 1)), MLP(3 + na, 1, [8], "relu", nnx.Rngs(sc["seed"] + 2)))
    qopt = nnx.Optimizer(q, optax.adam(0.01), wrt=nnx.Param)
    qtgt = nnx.clone(q)
    ec = sac.EntropyControl(env, 0.2, True, 1e-3)
    buf = _recording_env_buffer(rec, base, sc["cap"])
    logger = recording_logger(rec)
    for k, v in dict(policy=policy, q=q, q_target=qtgt).items():
        rec.watch_module(k, v)
    # as examples/uts_example.py binds it
    train_st = functools.partial(sac.train_sac, policy=policy, policy_optimizer=popt, q=q, q_target=qtgt, q_optimizer=qopt, entropy_control=ec,
                                 replay_buffer=buf, gamma=0.5, tau=0.25, batch_size=sc["batch"], policy_delay=2, target_network_delay=3)
    with _probing(rec, base):
        res, err = guarded(lambda: train_uts(tasks, _traced(rec, base, train_st), total_timesteps=sc["budget"], episodes_per_task=1, seed=sc["seed"],
                                             exploring_starts=sc["warm"], progress_bar=False, logger=logger))
    # "exploring_starts: number of random exploration steps at the beginning of training"; total_timesteps: "number
    # of total environment steps to train for".  ulpk: SAC samples mean + std*noise without clipping (its own matter).
    cfg = _sched_cfg("uts", sc, check_bounds=False,  # coordinator: the single-task learner here is SAC, which C10 does not name
                      explore_only_in_warmup=True, ulpk=0, trained=["policy", "q"], targets=["q_target"], rules=[])
    ret = None if res is None else getattr(res, "global_step", None)
    return finish(rec, "uts", sc, cfg, returned=ret, final=final_digests(policy=policy, q=q, q_target=qtgt), error=err)


def _ddpg_rules(sc):
    return [dict(comps=["q", "policy", "policy_target", "q_target"], counter="always", after=sc["warm"])]


@routine("smt")
def run_smt(sc):
    from rl_blox.algorithm import ddpg
    from rl_blox.algorithm.smt import train_smt

    rec = Recorder()
    base, tasks = _task_set(rec, sc)
    env = tasks.get_task(0)
    mods, parts = _ddpg_parts(rec, env, sc)
    buf = _recording_mt_buffer(rec, base, sc["cap"])
    logger = recording_logger(rec)
    train_st = functools.partial(ddpg.train_ddpg, gamma=0.5, tau=0.25, batch_size=sc["batch"], exploration_noise=0.5, **parts)  # as tests/test_smt.py
    b1 = sc.get("b1", (2 * sc["budget"]) // 3)
    b2 = sc["budget"] - b1
    # thresholds far above any reachable return: no task is ever "solved"; a task whose budget kappa*B is used up
    # moves to the unsolvable pool and the worst task of the main pool replaces it -> both stages are exercised
    with _probing(rec, base):
        res, err = guarded(lambda: train_smt(tasks, _traced(rec, base, train_st), buf, b1=b1, b2=b2, solved_threshold=1e9, unsolvable_threshold=1e9,
                                             scheduling_interval=1, kappa=sc.get("kappa", 0.25), K=2, n_average=1, learning_starts=sc["warm"],
                                             seed=sc["seed"], logger=logger, progress_bar=False))
    # learning_starts is documented "per task", the code gates on the global count; the global reading is implied by
    # the per-task one (no update / policy action before `warm` steps in total), random actions may legitimately
    # occur later under the per-task reading -> explore_only_in_warmup=False.
    cfg = _sched_cfg("smt", sc, explore_only_in_warmup=False, ulpk=2, trained=["policy", "q"], targets=["policy_target", "q_target"], rules=_ddpg_rules(sc))
    ret = None if res is None else int(np.sum(res[1]))  # training_steps: "number of training steps for each task"
    if res is not None:
        rec.emit("training_steps", per_task=[int(x) for x in res[1]], per_env_executed=_per_env_steps(rec))
    return finish(rec, "smt", sc, cfg, returned=ret, final=final_digests(**mods), error=err)


# D-UCB hyper-parameters differ from scenario to scenario (a selector given by NAME must be built from the values of
# THIS call: what an earlier call in the process passed is no input of a run)
_DUCB = {"A": dict(r_max=200.0, ducb_gamma=0.5, xi=0.25), "B": dict(r_max=50.0, ducb_gamma=0.75, xi=0.5),
         "C": dict(r_max=100.0, ducb_gamma=0.25, xi=0.125), "D": dict(r_max=20.0, ducb_gamma=0.875, xi=1.0),
         "M": dict(r_max=10.0, ducb_gamma=0.875, xi=2.0)}


@routine("active_mt")
def run_active_mt(sc):
    from rl_blox.algorithm import ddpg
    from rl_blox.algorithm.active_mt import train_active_mt

    rec = Recorder()
    base, tasks = _task_set(rec, sc)
    env = tasks.get_task(0)
    mods, parts = _ddpg_parts(rec, env, sc)
    buf = _recording_mt_buffer(rec, base, sc["cap"])
    logger = recording_logger(rec)
    train_st = functools.partial(ddpg.train_ddpg, gamma=0.5, tau=0.25, batch_size=sc["batch"], exploration_noise=0.5, **parts)
    with _probing(rec, base):
        res, err = guarded(lambda: train_active_mt(tasks, _traced(rec, base, train_st), buf, **_DUCB.get(sc.get("label"), _DUCB["A"]),
                                                   task_selector=sc.get("task_selector", "Monotonic Progress"), total_timesteps=sc["budget"],
                                                   scheduling_interval=1, learning_starts=sc["warm"], seed=sc["seed"], logger=logger, progress_bar=False))
    cfg = _sched_cfg("active_mt", sc, explore_only_in_warmup=False, ulpk=2, trained=["policy", "q"], targets=["policy_target", "q_target"], rules=_ddpg_rules(sc))
    ret = None if res is None else int(np.sum(res[1]))
    if res is not None:
        rec.emit("training_steps", per_task=[int(x) for x in res[1]], per_env_executed=_per_env_steps(rec))
    return finish(rec, "active_mt", sc, cfg, returned=ret, final=final_digests(**mods), error=err)
