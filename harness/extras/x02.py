"""X02 - run-level bookkeeping of the LAP / TD7 / MR.Q training loops.

Specification: spec/Bookkeeping.tla (design model: one action per call / section of the loop bodies of train_td7,
train_mrq, train_td3_lap that touches ValueClippingState, the tracked maximum priority, the MR.Q reward scales or the
metrics handed to the logger; model-checked on its own with small constants) and spec/BookkeepingTrace.tla (trace
validation: real runs recorded by harness/extras/x02_record.py are replayed event by event through the effects of the
Bookkeeping actions and judged clause by clause; the run-level invariants are evaluated on the real histories).

TLC gives every verdict; Python only records, projects floats (float32 ordinals, exact rationals) and reads verdicts.
"""
from __future__ import annotations

import copy
import json
import os
import subprocess
import sys
import time
from concurrent.futures import ThreadPoolExecutor

from .. import tlc

LEVEL = "model_checking"
TITLE = "Run-level bookkeeping of the TD3+LAP / TD7 / MR.Q loops: value-clipping range, maximum-priority reset cadence, reward-scale hand-over, logged metrics"
MANIFEST = dict(
    category="model_checking",
    text="TLC model-checks spec/Bookkeeping.tla (program-counter model of the loop bodies) for: min_value / max_value are the running extremes of every critic target batch; the target range changes only at update points (epoch % target_delay == 0) and then equals the running range; the clipping bounds of iteration k are the target range before k's own update; reset_max_priority runs exactly at the update points (TD7, MR.Q) resp. on the hard-coded 250-step grid (TD3+LAP), the tracked maximum dominates all stored priorities and is monotone between resets; at an update point target_reward_scale takes the old reward_scale and reward_scale the mean absolute stored reward, every critic call gets the pair in force, the encoder block runs target_delay mini-batches; the logger is handed the metrics snapshot. Real runs of train_td7 / train_mrq / train_td3_lap (scripted environment, recording buffer/logger, interposed module-level names) are validated against the same operators by spec/BookkeepingTrace.tla, clause by clause, and the run-level invariants are re-evaluated on the recorded histories - the right level because these are counter / ordering / hand-over defects of a sequential loop that an explicit state machine plus exact trace validation decides.",
    note="bounds: design model <= 6 loop passes, target_delay 2-3, 3 target values, 3 rewards, 3 priorities, buffer of 2-4 slots; traces: 6 (quick) / 12 (thorough) runs of 8-14 steps, target_delay 2/3, learning_starts 0/2/249, capacities below the run length, signed dyadic rewards; tiny real networks (values compared as float32 bit patterns / exact rationals, no tolerances); trusted: TLC, spec/Exact.tla, the probes in harness/extras/x02_record.py (positional layout of td7._train_step / td7_update_critic / update_model_based_encoder), numpy's last-wins rule for repeated indices",
    technique="TLA+ design model + TLC (invariants, one action property, five named deviation canaries); trace validation (BookkeepingTrace) of real train_td7 / train_mrq / train_td3_lap runs with td7_update_critic, ValueClippingState, _train_step, hard/soft_target_net_update, nnx.cached_partial(update_critic_and_policy / update_model_based_encoder), PriorityBuffer methods, reward_scale, sample_batch and logger.record_stat interposed",
)

ROOT = os.path.dirname(os.path.dirname(os.path.dirname(os.path.abspath(__file__))))
WORKERS = int(os.environ.get("VERIF_TLC_WORKERS", "8"))

INVS = ["TypeOK", "RunningRangeIsExtremeOfSeen", "TargetRangeIsRunningAtLastUpdatePoint", "ClipBoundsAreTargetRangeBeforeStep", "ResetCadence",
        "TargetCopiesAtUpdatePoints", "MaxPriorityDominates", "ScalesHandedOver", "CriticGetsPairInForce", "EncoderBlocksAtUpdatePoints",
        "LoggedTargetRangeLags", "LoggedRewardScaleIsCurrent"]
PROPS = ["MonotoneBetweenResets"]
S = tlc.Subst


def _design(routine, *, delay=2, grid=3, warm=1, start=0, steps=5, cap=2, subtraj=False, prefill=0, vals="ValsOne", rewards="RewardsOne", prios="PriosOne", dev="NoDev"):
    return dict(Routine=routine, Delay=delay, Grid=grid, Warm=warm, Start=start, Steps=steps, Cap=cap, Subtraj=subtraj, Prefill=prefill,
                Vals=S(vals), Rewards=S(rewards), Prios=S(prios), DEV=S(dev), EMIT=False)


def design_configs(tier):
    cfgs = [
        ("td7 value range", _design("td7", delay=2, warm=1, steps=5, cap=2, vals="ValsSmall")),
        ("td7 priorities", _design("td7", delay=2, warm=0, steps=5, cap=3, prios="PriosSmall")),
        ("mrq scales", _design("mrq", delay=2, warm=1, steps=4, cap=3, subtraj=True, prefill=2, rewards="RewardsSigned")),
        ("td3_lap grid", _design("td3_lap", grid=3, warm=1, start=2, steps=6, cap=3, prios="PriosSmall")),
    ]
    if tier == "thorough":
        cfgs += [
            ("td7 value range, continued run, delay 3", _design("td7", delay=3, warm=1, start=3, steps=6, cap=2, vals="ValsSmall")),
            ("mrq scales, delay 3", _design("mrq", delay=3, warm=0, steps=5, cap=4, subtraj=True, prefill=1, rewards="RewardsSigned")),
            ("mrq priorities", _design("mrq", delay=2, warm=1, start=2, steps=4, cap=4, subtraj=True, prios="PriosSmall")),
        ]
    return cfgs


# deviation -> (configuration, invariant that must refute it)
CANARIES = [
    ("DevTargetBeforeRange", _design("td7", delay=2, warm=1, steps=5, cap=2, vals="ValsSmall", dev="DevTargetBeforeRange"), "TargetRangeIsRunningAtLastUpdatePoint"),
    ("DevClipRunning", _design("td7", delay=2, warm=1, steps=5, cap=2, vals="ValsSmall", dev="DevClipRunning"), "ClipBoundsAreTargetRangeBeforeStep"),
    ("DevLogCurrent", _design("td7", delay=2, warm=1, steps=5, cap=2, vals="ValsSmall", dev="DevLogCurrent"), "LoggedTargetRangeLags"),
    ("DevResetEveryStep", _design("td7", delay=2, warm=0, steps=4, cap=3, prios="PriosSmall", dev="DevResetEveryStep"), "ResetCadence"),
    ("DevHandoverSwapped", _design("mrq", delay=2, warm=1, steps=4, cap=3, subtraj=True, prefill=2, rewards="RewardsSigned", dev="DevHandoverSwapped"), "ScalesHandedOver"),
]


COMMON_ACTIONS = ["EnterRoutine", "EnvStepAndStore", "BeginIteration", "CriticUpdate", "UpdatePriority", "EndOfStep"]
ROUTINE_ACTIONS = {
    "td7": ["UpdateRange", "SnapshotMetrics", "CopyTargets", "ResetMaxPriority", "UpdateTargetRange", "LogMetrics"],
    "mrq": ["CopyTargets", "HandOver", "ResetMaxPriority", "TrainEncoderBlock", "LogRewardScale"],
    "td3_lap": [],
}


def _tlc_design(name, consts, workers, invariants=None):
    """One TLC run of the design model.  Full runs (all invariants + the action property) also collect action coverage:
    every action of the routine's loop body must have been taken (vacuity guard)."""
    full = invariants is None
    r = tlc.run("Bookkeeping", tlc.cfg_text(constants=consts, invariants=invariants or INVS, properties=PROPS if full else []), workers=workers,
                coverage=full, tag="x02design", timeout=600)
    if full and r.ok:
        need = COMMON_ACTIONS + ROUTINE_ACTIONS[consts["Routine"]] + (["StoreBefore"] if consts["Prefill"] else [])
        tlc.require_covered(r, need)
    return name, r


# ------------------------------------------------------------------ recording
def _record_group(tier, seed, group, outdir, repo, timeout=300):
    out = os.path.join(outdir, f"{group}.json")
    env = dict(os.environ)
    env.update(PYTHONPATH=repo + os.pathsep + ROOT, JAX_PLATFORMS="cpu", TF_CPP_MIN_LOG_LEVEL="3", PYTHONHASHSEED="0")
    env["XLA_FLAGS"] = env.get("XLA_FLAGS", "") + " --xla_cpu_multi_thread_eigen=false"
    env.setdefault("OMP_NUM_THREADS", "2")
    last = ""
    for attempt in range(2):  # an ordered jax.debug.callback of the adapters' policy probes was seen to hang under heavy load
        try:
            p = subprocess.run([sys.executable, "-m", "harness.extras.x02_record", tier, str(seed), group, out], env=env, cwd=ROOT,
                               capture_output=True, text=True, timeout=timeout * (attempt + 1))
        except subprocess.TimeoutExpired as e:
            last = f"timeout {e}"
            continue
        if p.returncode == 0 and os.path.exists(out):
            with open(out) as f:
                return json.load(f)
        last = p.stderr[-2000:]
        break
    raise tlc.MachineryError(f"X02 recorder for group {group} failed: {last}")


# ------------------------------------------------------------------ normalisation for TLC
Z = [0, False]
RZ = [0, 1, False]
VC0 = dict(minV=Z, maxV=Z, minT=Z, maxT=Z)
EV_DEFAULTS = dict(r4=0, ends=False, idx=[], maxp=Z, p=[], n=0, epoch=0, delay=0, state=VC0, after=VC0, lo=Z, hi=Z, qmin=Z, qmax=Z,
                   rs=RZ, trs=RZ, v=RZ, hor=0, inter=False, nsub=0, bs=0, eh=0, opt_steps=0, key="", o=Z, q=RZ, step=-1)


def normalise(tr):
    """Uniform records (no nulls); the slots / tracked maximum reported by initialize_priority are attached to the add
    event that follows; the buffer facts (capacity, kind) go to the configuration."""
    from ..exact import ord32

    cfg = dict(tr["cfg"])
    cfg.update(big=ord32(1e8), one=ord32(1.0), ncopies=4 if cfg["routine"] == "td7" else 2, cap=2, subtraj=False)
    evs, held = [], None
    for e in tr["events"]:
        k = e["ev"]
        if k == "bk_buffer":
            cfg.update(cap=int(e["cap"]), subtraj=bool(e["subtraj"]))
            continue
        if k == "prio_init":
            if held is not None:
                evs.append(dict(EV_DEFAULTS, **held))
            held = dict(e)
            continue
        n = dict(EV_DEFAULTS)
        n.update(e)
        if k == "add" and held is not None:
            n.update(idx=held["idx"], maxp=held["maxp"])
            held = None
        elif held is not None:
            evs.append(dict(EV_DEFAULTS, **held))
            held = None
        evs.append(n)
    keep = ("routine", "delay", "grid", "warm", "start", "cap", "subtraj", "big", "one", "ncopies", "bs", "eh", "qh")
    return {"id": tr["id"], "cfg": {k: cfg[k] for k in keep}, "events": evs}


DUMMY = dict(Routine="td7", Delay=2, Grid=250, Warm=0, Start=0, Steps=1, Cap=2, Subtraj=False, Prefill=0, Vals=S("ValsOne"), Rewards=S("RewardsOne"),
             Prios=S("PriosOne"), DEV=S("NoDev"), EMIT=False)


def validate(traces, tag="x02trace", timeout=600):
    """-> {trace id: dict(steps, iterations, updates, copies, viol=[(pos, clause), ...])}, TlcResult, normalised traces"""
    norm = [normalise(t) for t in traces]
    os.makedirs(os.path.join(tlc.OUT, "tmp"), exist_ok=True)
    path = os.path.join(tlc.OUT, "tmp", f"{tag}-{os.getpid()}-{int(time.time() * 1000) % 100000}.json")
    with open(path, "w") as f:
        json.dump(norm, f)
    try:
        r = tlc.run("BookkeepingTrace", tlc.cfg_text(init="TInit", next="TNext", constants=DUMMY, constraints=["Verdict"]), workers=1,
                    env={"TRACE_FILE": path}, tag=tag, timeout=timeout)
    finally:
        os.remove(path)
    out = {}
    for line in r.stdout.splitlines():
        if line.startswith('<<"VERDICT", "'):
            d = json.loads(json.loads(line[len('<<"VERDICT", '):-2]))
            out[d["id"]] = dict(steps=d["steps"], iterations=d["iterations"], updates=d["updates"], copies=d["copies"],
                                viol=sorted((int(a), b) for a, b in d["viol"]))
    missing = [t["id"] for t in norm if t["id"] not in out]
    if missing:
        raise tlc.MachineryError(f"BookkeepingTrace gave no verdict for traces {missing}: {r.stdout[-2500:]}")
    return out, r, norm


# ------------------------------------------------------------------ binding canaries
def _first(evs, pred, nth=0):
    hits = [i for i, e in enumerate(evs) if pred(e)]
    return hits[min(nth, len(hits) - 1)] if hits else None


def _c_bound(t):  # one clipping bound one float32 step off
    i = _first(t["events"], lambda e: e["ev"] == "bk_critic", 3)
    t["events"][i]["lo"] = [t["events"][i]["lo"][0] + 1, True]


def _c_noreset(t):  # a reset_max_priority call dropped at an update point
    i = _first(t["events"], lambda e: e["ev"] == "prio_reset")
    del t["events"][i:i + 2]


def _c_logcurrent(t):  # the logger handed the target range of AFTER the update (the state at the time of the call)
    i = _first(t["events"], lambda e: e["ev"] == "bk_target_range")
    j = next(k for k in range(i, len(t["events"])) if t["events"][k]["ev"] == "bk_log" and t["events"][k]["key"] == "max_target_value")
    t["events"][j]["o"] = t["events"][i]["after"]["maxT"]


def _c_pair(t):  # the pair handed to the critic swapped
    i = _first(t["events"], lambda e: e["ev"] == "bk_critic" and e["rs"] != e["trs"])
    e = t["events"][i]
    e["rs"], e["trs"] = e["trs"], e["rs"]


def _c_reward(t):  # a stored reward of a different magnitude: the recorded scale is no longer the mean absolute reward
    i = _first(t["events"], lambda e: e["ev"] == "add")
    t["events"][i]["r4"] += 4


def _c_grid(t):  # the reset moved off the 250-step grid
    i = _first(t["events"], lambda e: e["ev"] == "prio_reset")
    ev = t["events"][i:i + 2]
    del t["events"][i:i + 2]
    j = _first(t["events"], lambda e: e["ev"] == "prio_update", 9)
    t["events"][j + 1:j + 1] = ev


CORRUPTIONS = [("td7", "bound", _c_bound, "BoundsAreTargetRange"), ("td7", "noreset", _c_noreset, "ResetExactlyAtUpdatePoints"),
               ("td7", "logcurrent", _c_logcurrent, "LoggedMetricsAreSnapshot"), ("mrq", "pair", _c_pair, "CriticGetsCurrentScales"),
               ("mrq", "reward", _c_reward, "RewardScaleIsMeanAbsReward"), ("td3_lap", "grid", _c_grid, "ResetOnFixedGrid")]


def corruptions(traces):
    """Corrupted copies of recorded traces -> (trace, clause the trace specification must name).  A corruption that cannot
    be built (the run lacks the event: the repository deviates) is skipped; run() demands enough judged corruptions."""
    by = {}
    for t in traces:
        if not t.get("error"):
            by.setdefault(t["cfg"]["routine"], t)
    out = []
    for rname, name, fn, clause in CORRUPTIONS:
        if rname not in by:
            continue
        b = copy.deepcopy(by[rname])
        b["id"], b["base"] = "canary:" + name, by[rname]["id"]
        try:
            fn(b)
        except Exception:
            continue
        out.append((b, clause))
    return out


# ------------------------------------------------------------------ run
def _violations(rep, traces, out):
    n_events = 0
    for t in traces:
        v = out[t["id"]]
        n_events += len(t["events"])
        rname = t["cfg"]["variant"]
        if t.get("error"):
            rep.violation(f"{rname}:raised", f"{t['id']}: the routine (or a probe inside it) raised {t['error']}", {"routine": rname, "scenario": t["scenario"], "clause": "raised"})
        norm = None
        for pos, clause in v["viol"]:
            if norm is None:
                norm = normalise(t)
            e = norm["events"][pos - 1]
            short = {k: e[k] for k in e if e[k] != EV_DEFAULTS.get(k)}
            rep.violation(f"{rname}:{clause}", f"{t['id']} event {pos}: clause {clause} fails at {short}"[:700],
                          {"routine": rname, "scenario": t["scenario"], "position": pos, "clause": clause})
    return n_events


def run(rep):
    quick = rep.tier == "quick"
    repo = os.environ.get("VERIF_REPO_ROOT", "/repo")
    tlc.sany("Bookkeeping")
    tlc.sany("BookkeepingTrace")
    from . import x02_record

    groups = sorted({g for g, _, _ in x02_record.scenarios(rep.tier, rep.seed)})
    outdir = os.path.join(tlc.OUT, "tmp", f"x02-{os.getpid()}")
    os.makedirs(outdir, exist_ok=True)
    w = max(1, min(4, WORKERS // 2))
    try:
        with ThreadPoolExecutor(max_workers=len(groups) + 3) as ex:
            recs = [ex.submit(_record_group, rep.tier, rep.seed, g, outdir, repo) for g in groups]
            designs = [ex.submit(_tlc_design, n, c, w) for n, c in design_configs(rep.tier)]
            canaries = [ex.submit(_tlc_design, n, c, 1, [inv]) for n, c, inv in CANARIES]
            # -- design model
            for f in designs:
                name, r = f.result()
                rep.add_tlc(r, f"Bookkeeping design model: {name}")
                if not r.ok:
                    rep.violation(f"spec:Bookkeeping:{r.violated}", f"design-level violation of {r.violated} ({name})", r.error_trace[:3000])
            for f, (dev, _, inv) in zip(canaries, CANARIES):
                name, r = f.result()
                if r.violated != inv:
                    raise tlc.MachineryError(f"canary: deviation {dev} not refuted by invariant {inv} (TLC says {r.violated})")
            traces = [t for f in recs for t in f.result()]
    finally:
        import shutil

        shutil.rmtree(outdir, ignore_errors=True)
    # -- trace validation (real runs + corrupted copies in one TLC run)
    corr = corruptions(traces)
    out, r, norm = validate(traces + [c for c, _ in corr])
    rep.add_tlc(r, "BookkeepingTrace batched trace validation")
    n_events = _violations(rep, traces, out)
    # a corruption only counts when the trace it was derived from is accepted: on a deviating repository the "corrupted"
    # value may be the conforming one
    counted = 0
    for c, clause in corr:
        if out[c["base"]]["viol"]:
            continue
        counted += 1
        got = {cl for _, cl in out[c["id"]]["viol"]}
        if clause not in got:
            raise tlc.MachineryError(f"binding canary {c['id']}: corrupted trace not rejected by clause {clause} (got {sorted(got)})")
    if counted < 4 and not rep.violations:
        raise tlc.MachineryError(f"binding canaries: only {counted} could be judged (a routine produced no usable trace)")
    if not rep.violations:
        # non-vacuity of the recorded runs: update points, differing scales, target ranges that differ from the running ranges
        for t in traces:
            v, rname = out[t["id"]], t["cfg"]["routine"]
            if v["updates"] < (1 if rname == "td3_lap" else 2):
                raise tlc.MachineryError(f"scenario {t['id']} contains too few update points ({v['updates']})")
            if rname == "mrq" and not any(e["ev"] == "bk_critic" and e["rs"] != e["trs"] and e["trs"][0] != 0 for e in t["events"]):
                raise tlc.MachineryError(f"scenario {t['id']}: the reward scale never differs from the target reward scale")
        def _lagging(t):  # some running range differs from a non-initial target range
            return any(e["ev"] == "bk_range" and (e["after"]["minV"] != e["after"]["minT"] or e["after"]["maxV"] != e["after"]["maxT"])
                       and e["after"]["maxT"][0] != 0 for e in t["events"])

        lag = [t["id"] for t in traces if t["cfg"]["routine"] == "td7" and _lagging(t)]
        rep.extra["td7_traces_with_lagging_target_range"] = lag
        if not lag:
            raise tlc.MachineryError("no TD7 run in which the running range differs from a non-initial target range")
    # -- evidence
    per = {}
    for t in traces:
        v = out[t["id"]]
        p = per.setdefault(t["cfg"]["variant"], dict(traces=0, events=0, steps=0, iterations=0, update_points=0, target_copies=0))
        p["traces"] += 1
        p["events"] += len(t["events"])
        p["steps"] += v["steps"]
        p["iterations"] += v["iterations"]
        p["update_points"] += v["updates"]
        p["target_copies"] += v["copies"]
    calls = {}
    for t in traces:
        for e in t["events"]:
            calls[e["ev"]] = calls.get(e["ev"], 0) + 1
    rep.traces = len(traces)
    rep.evaluations = n_events
    rep.distinct = sum(p["iterations"] for p in per.values())
    rep.rule = ("one case = one learning iteration of a real train_td7 / train_mrq / train_td3_lap run (critic call with its clipping bounds or reward-scale pair, "
                "range / priority / hand-over updates, reset and target-update events, logger records), judged by BookkeepingTrace; scenarios: target_delay 2 and 3, "
                "learning_starts 0 / 2 / 249, continued runs (start > 0, pre-filled buffer), capacities below the run length, signed dyadic rewards with distinct magnitudes; "
                "non-trivial: every run contains >= 2 update points, the reward scale differs between consecutive update points, target ranges differ from the running ranges")
    rep.exhaustive = False
    rep.extra["per_routine"] = per
    rep.extra["real_calls"] = calls
    rep.extra["binding_canaries"] = [c["id"] + " -> " + cl for c, cl in corr]
    rep.extra["spec_canaries"] = [f"{d} refuted by {i}" for d, _, i in CANARIES]
    for rname, kinds in (("td7", ("bk_critic", "bk_target_range")), ("mrq", ("bk_rs", "bk_critic"))):
        for t in traces:
            if t["cfg"]["routine"] == rname:
                for kind in kinds:
                    i = _first(t["events"], lambda e: e["ev"] == kind, 2)
                    if i is not None:
                        rep.sample({"trace": t["id"], "position": i + 1, **t["events"][i]})
                break
    rep.assumptions += [
        "float32-valued quantities (value range, priorities) are compared through their float32 ordinals; every recorded value is checked to be exactly representable",
        "reward scales (float64 means of dyadic rewards) are projected to the unique rational with denominator <= 4096 whose correctly rounded double is the recorded value",
        "probes rely on the positional layout of td7._train_step, td7.td7_update_critic and update_model_based_encoder; a changed layout surfaces as '<routine>:raised'",
        "documented-vs-coded: the logger of train_td7 gets the target range from BEFORE the update of the same iteration (LoggedTargetRangeLags); train_td3_lap resets the maximum priority on a hard-coded 250-step grid (GridDue); reward_scale averages over the zero-reward slots the subtrajectory buffer adds at episode ends",
    ]


def replay(path, rep):
    with open(path) as f:
        doc = json.load(f)
    r = doc.get("replay") or {}
    if not isinstance(r, dict) or "scenario" not in r:
        print("design-level finding, nothing to replay against the code:", doc.get("what"))
        return 1
    from . import x02_record

    t = x02_record.record(r["routine"], r["scenario"])
    out, _, _ = validate([t], tag="x02replay")
    v = out[t["id"]]
    bad = sorted({c for _, c in v["viol"]})
    print(t["id"], "steps", v["steps"], "iterations", v["iterations"], "failing clauses:", bad, "error:", t.get("error"))
    fails = (r.get("clause") in bad) or (r.get("clause") == "raised" and t.get("error"))
    if fails:
        print(f"EXTRA-DEVIATION spec={rep.pid} replay={path}")
        return 1
    return 0
