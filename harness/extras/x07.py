"""X07 - function approximators and composite networks (spec/Nets.tla, spec/NetsOps.tla).

No listed property states this behaviour.  Seven small machines in one module (constant Part):

  mlp    MLP / LayerNormMLP / GaussianMLP: structure from hidden_nodes, forward law on an exact lattice, batch rows,
         TLC-chosen perturbations with the set of outputs that may change
  dq     ContinuousClippedDoubleQNet over two MLP critics (element-wise minimum, mean, critic independence)
  sale   SALE / ActorSALE / CriticSALE / DeterministicSALEPolicy data flow as a dependency relation
  act    activation lookup by name and the signature of every named activation
  cfg    constructor validation and call totality as a state machine
  norm   avg_l1_norm on vectors whose mean absolute value is a power of two
  tab    greedy / epsilon-greedy action selection, Q-table construction

spec -> code: TLC prints one EMIT record per completed stage of a test vector (structure, parameter assignment on the lattice
{-1, -1/2, 0, 1/2, 1, 2}, inputs, expected outputs as exact rationals); harness/extras/x07_bind.py builds the real module,
overwrites its parameters, calls it eagerly and under nnx.jit and compares.
"""
from __future__ import annotations

import concurrent.futures as cf
import copy
import json
import os
import time
from collections import Counter

from .. import exact, tlc

TITLE = "function approximators and composite networks"
LEVEL = "model_checking"
MANIFEST = dict(
    category="model_checking",
    text="TLC checks the invariants of spec/Nets.tla on complete small lattices (hidden_nodes semantics: one hidden layer per entry, sizes chained from n_features, every hidden layer activated - LayerNormMLP: normalised, then activated -, the output layer affine; GaussianMLP returns (mean, log_var) with the mean first and head-wise parameter independence; row b of a batched pass is the pass of row b alone; ContinuousClippedDoubleQNet is the element-wise minimum / mean of two critics that share the input and no parameter; SALE: zs = AvgL1Norm(f(s)), zsa = g(zs ++ a) un-normalised, the actor sees AvgL1Norm(l0(s)) ++ zs, the critic AvgL1Norm(q0(sa)) ++ zsa ++ zs, the policy depends on the state embedding only through its normalised value and never on g; constructor validation order; activation lookup by name with distinguishable signatures; greedy = first maximiser, epsilon-greedy explores iff roll < epsilon) and refutes 22 wrong variants. Every TLC-generated vector (structure, lattice parameters, inputs, perturbation, expected outputs) is replayed into the real MLP, LayerNormMLP, GaussianMLP, ContinuousClippedDoubleQNet, SALE, ActorSALE, CriticSALE, DeterministicSALEPolicy, avg_l1_norm, q_policy.greedy_policy, value_policy.{make_q_table, greedy_policy, epsilon_greedy_policy}: parameters overwritten with the lattice assignment, called eagerly and under nnx.jit, outputs compared exactly (float32 == rational), outputs outside a perturbation's may-change set bit for bit.",
    note="small scope: <= 2 hidden layers of width <= 3, n_features / n_outputs <= 2, batches of <= 3 rows, parameters and inputs in {-1, -1/2, 0, 1/2, 1, 2}; layer norm only over 1 or 2 features (ideal sign model, rational slack in units of 2^-22 derived in spec/NetsOps.tla from eps = 1e-6 and the operation count); non-dyadic activations as closed rational brackets of width 1/32 at nine probes; SALE values only where every AvgL1Norm divisor is a power of two (otherwise dependency checks only); trusted: harness/extras/x07_bind.py, TLC",
    technique="TLA+ spec + TLC (invariants on staged test vectors, deviation canaries, witnesses of named deviations); replay of TLC-generated vectors and perturbations into the real modules with overwritten parameters, eager and nnx.jit",
)
W = max(1, min(int(os.environ.get("VERIF_TLC_WORKERS", "8")), 8))

PARTS = ["tab", "norm", "cfg", "act", "dq", "sale", "mlp"]   # binding order: the small ones first
INV = {
    "mlp": ["StructureLaw", "OutputShape", "HiddenLayersActivated", "OutputLayerAffine", "GaussHeads", "RowIsSingle", "RowIndependence", "MDependencySound"],
    "dq": ["MinElementwise", "MinIsLowerBound", "MeanIsMidpoint", "DShape", "CriticIndependence"],
    "sale": ["ZsNormalised", "ZsaIsEncoderOutput", "ActorLayout", "CriticLayout", "PolicyIsActorOnZs", "QMinIsMin", "SDependencySound"],
    "act": ["ResolveFaithful", "BracketsOrdered", "NamesDistinguishable"],
    "cfg": ["InvalidRejected", "ValidBuilt", "SizesRejectedByAssertion", "CallTotal"],
    "norm": ["NormUnitMeanAbs", "NormKeepsSigns", "NormRowwise", "NormScaleInvariant", "NormIdempotent"],
    "tab": ["GreedyIsMaximiser", "EpsilonExtremes", "QGreedyFirstMax"],
}
# (wrong variant, part, invariants one of which TLC must report)
CANARIES = [
    ("ActivationOnOutputLayer", "mlp", ["OutputLayerAffine", "GaussHeads"]),
    ("NoActivationOnLastHidden", "mlp", ["HiddenLayersActivated"]),
    ("NormAfterActivation", "mlp", ["HiddenLayersActivated"]),
    ("SplitSwapped", "mlp", ["GaussHeads"]),
    ("NormOverBatchAxis", "mlp", ["RowIsSingle", "RowIndependence"]),
    ("MaxInsteadOfMin", "dq", ["MinElementwise", "MinIsLowerBound"]),
    ("SharedCriticParameters", "dq", ["CriticIndependence"]),
    ("FirstCriticOnly", "dq", ["MinElementwise", "MinIsLowerBound"]),
    ("ZsNotNormalised", "sale", ["ZsNormalised"]),
    ("EncoderActionFirst", "sale", ["ZsaIsEncoderOutput"]),
    ("ZsaNormalised", "sale", ["ZsaIsEncoderOutput"]),
    ("ActorNormAfterConcat", "sale", ["ActorLayout"]),
    ("PolicyUsesRawEmbedding", "sale", ["PolicyIsActorOnZs", "SDependencySound"]),
    ("CriticConcatZsFirst", "sale", ["CriticLayout"]),
    ("MaxInsteadOfMin", "sale", ["QMinIsMin"]),
    ("LookupIgnoresName", "act", ["ResolveFaithful"]),
    ("SizesNotValidated", "cfg", ["SizesRejectedByAssertion"]),
    ("ZeroWidthAccepted", "cfg", ["InvalidRejected"]),
    ("SumInsteadOfMean", "norm", ["NormUnitMeanAbs"]),
    ("NormOverAllAxes", "norm", ["NormRowwise", "NormUnitMeanAbs"]),
    ("LastMaximiser", "tab", ["GreedyIsMaximiser", "QGreedyFirstMax"]),
    ("ExploreAtOrBelow", "tab", ["EpsilonExtremes"]),
]
# statements a reader of the documentation might expect and the code does NOT satisfy
WITNESSES = [
    ("HiddenNodesNotValidated", "cfg", "HiddenNodesRejectedByAssertion"),
    ("LookupAcceptsAnyAttribute", "cfg", "ActivationIsAFunction"),
]
MIN_RECORDS = {"mlp": 1500, "dq": 200, "sale": 300, "act": 300, "cfg": 400, "norm": 300, "tab": 300}


def C(part, variant="code", wide=False, emit=False):
    return dict(Part=part, Variant=variant, Wide=bool(wide), EMIT=bool(emit))


class Jobs:
    """TLC runs in parallel threads (each is its own JVM); results by name."""

    def __init__(self, par):
        self.ex = cf.ThreadPoolExecutor(max_workers=par)
        self.f = {}

    def add(self, name, constants, invariants=(), emit=False):
        cfg = tlc.cfg_text(constants=constants, invariants=invariants, view="GenView" if emit else None)
        self.f[name] = self.ex.submit(tlc.run, "Nets", cfg, workers=1 if emit else min(W, 4),
                                      tag="x07-" + "".join(ch if ch.isalnum() else "_" for ch in name)[:28], timeout=1500)

    def get(self, name):
        return self.f[name].result()

    def close(self):
        self.ex.shutdown(wait=False, cancel_futures=True)


def q(x):
    return exact.q(x)


# ------------------------------------------------------------------ non-vacuity of the generated lattices
def lattice_stats(part, recs):
    """-> (stats, distinct non-trivial cases); raises MachineryError when a lattice lost the cases the module is about"""
    c = Counter(r["op"] for r in recs)
    st = {"records": dict(c)}
    if len(recs) < MIN_RECORDS[part]:
        raise tlc.MachineryError(f"{part}: only {len(recs)} vectors generated")
    distinct = 0
    if part == "mlp":
        neg = Counter()
        kinds = Counter()
        for r in recs:
            if r["op"] != "Forward":
                continue
            k = r["args"]["s"]["kind"]
            kinds[k] += 1
            if any(q(v) < 0 for rows in r["exp"]["outs"].values() for row in rows for v in row):
                neg[k] += 1
            if k == "lnmlp":
                sl = max(q(v) for rows in r["exp"]["slack"]["out"] for v in rows)
                neg["lnmlp:sign_class" if sl > 0 else "lnmlp:exact"] += 1
        st["forward_by_kind"] = dict(kinds)
        st["with_negative_output"] = dict(neg)
        for k in ("mlp", "lnmlp", "gauss_shared", "gauss_sep"):
            if neg[k] < 10:
                raise tlc.MachineryError(f"mlp lattice: {neg[k]} {k} vectors with a negative output (an activation on the output layer would go unnoticed)")
        if neg["lnmlp:sign_class"] < 10 or neg["lnmlp:exact"] < 10:
            raise tlc.MachineryError("mlp lattice: layer-norm classes missing")
        ch = Counter()
        for r in recs:
            if r["op"] != "Perturb":
                continue
            e = r["exp"]
            key = (r["args"]["s"]["kind"], r["args"]["pert"]["kind"])
            changed = any(e["outs"][n][b] != e["outs2"][n][b] for n in e["outs"] for b in range(len(e["outs"][n])))
            kept = any(v for n in e["same"] for v in e["same"][n])
            ch[key + ("changed",)] += changed
            ch[key + ("with_protected_output",)] += kept
        st["perturbations"] = {"/".join(k): v for k, v in sorted(ch.items())}
        for key in [("mlp", "input"), ("mlp", "group"), ("lnmlp", "group"), ("gauss_shared", "logvar_cols"), ("gauss_sep", "group"), ("gauss_shared", "input")]:
            if ch[key + ("changed",)] < 5:
                raise tlc.MachineryError(f"mlp lattice: perturbation class {key} never changes an output")
        for key in [("mlp", "input"), ("gauss_shared", "logvar_cols"), ("gauss_sep", "group"), ("lnmlp", "lnshift")]:
            if ch[key + ("with_protected_output",)] < 5:
                raise tlc.MachineryError(f"mlp lattice: perturbation class {key} protects no output")
        distinct = sum(neg[k] for k in ("mlp", "lnmlp", "gauss_shared", "gauss_sep")) + sum(v for k, v in ch.items() if k[2] == "changed")
    elif part == "dq":
        pat = Counter()
        for r in recs:
            if r["op"] == "DoubleQ":
                o = r["exp"]["outs"]
                for r1, r2 in zip(o["q1"], o["q2"]):
                    pat["".join("<" if q(a) < q(b) else ">" if q(a) > q(b) else "=" for a, b in zip(r1, r2))] += 1
        st["q1_vs_q2_rows"] = dict(pat)
        if pat["<>"] + pat["><"] < 3 or pat["<"] < 3 or pat[">"] < 3:
            raise tlc.MachineryError(f"dq lattice: no rows where the minimum is taken from different critics ({dict(pat)})")
        distinct = sum(v for k, v in pat.items() if set(k) != {"="}) + sum(1 for r in recs if r["op"] == "DoubleQPerturb" and r["exp"]["outs"] != r["exp"]["outs2"])
    elif part == "sale":
        ex, chg = Counter(), Counter()
        for r in recs:
            e = r["exp"]
            if r["op"] == "Sale":
                for n, rows in e["exact"].items():
                    ex[n] += sum(rows)
            else:
                p = r["args"]["pert"]
                key = p["kind"] + (":" + p["grp"] if p["grp"] else "")
                for n in e["outs"]:
                    if any(a != b for a, b in zip(e["outs"][n], e["outs2"][n])):
                        chg[(key, n)] += 1
        st["rows_with_exact_float32_value"] = dict(ex)
        st["dependency_witnesses"] = {f"{k[0]}->{k[1]}": v for k, v in sorted(chg.items())}
        for n in ("zs", "zsa", "pi", "act_d", "q1", "q2", "qmin", "q_d"):
            if ex[n] < 3:
                raise tlc.MachineryError(f"sale lattice: only {ex[n]} rows where {n} is exact in float32")
        need = {"state": ["zs", "zsa", "pi", "act_d", "q1", "q2", "qmin", "q_d"], "action": ["zsa", "q1", "q2", "q_d"], "zarg": ["act_d", "q_d"], "zsaarg": ["q_d"],
                "group:f": ["zs", "zsa", "pi", "q1", "q2"], "group:g": ["zsa", "q1", "q2"], "group:l0": ["pi", "act_d"], "group:pnet": ["pi", "act_d"],
                "group:q0a": ["q1", "q_d"], "group:qneta": ["q1", "q_d"], "group:q0b": ["q2"], "group:qnetb": ["q2"]}
        for key, names in need.items():
            for n in names:
                if chg[(key, n)] < 1:
                    raise tlc.MachineryError(f"sale lattice: no vector where {key} changes {n} (the dependency relation would be vacuous)")
        if any(k[0] == "fscale" for k in chg):
            raise tlc.MachineryError("sale model: scaling the state embedding changed an output")
        distinct = sum(chg.values())
    elif part == "act":
        names = {r["args"]["name"] for r in recs if r["exp"]["status"] == "ok"}
        st["activation_names"] = len(names)
        if len(names) < 15 or not any(r["exp"]["status"] == "AttributeError" for r in recs) or not any(r["exp"]["status"] == "TypeError" for r in recs):
            raise tlc.MachineryError("act lattice: names or rejected names missing")
        distinct = sum(1 for r in recs if r["exp"]["status"] != "ok" or q(r["args"]["x"]) != 0)
    elif part == "cfg":
        sc = Counter(r["exp"]["status"] for r in recs if r["op"] == "Construct")
        cc = Counter(r["exp"]["status"] for r in recs if r["op"] == "Call")
        st["construct_status"], st["call_status"] = dict(sc), dict(cc)
        if min(sc["ok"], sc["AssertionError"], sc["AttributeError"], sc["error"], cc["ok"], cc["TypeError"]) < 4:
            raise tlc.MachineryError(f"cfg lattice: status classes missing ({dict(sc)}, {dict(cc)})")
        distinct = len(recs)
    elif part == "norm":
        distinct = sum(1 for r in recs if any(q(v) != 0 for row in r["args"]["xs"] for v in row))
    elif part == "tab":
        ties = sum(1 for r in recs if r["op"] == "Greedy" and len({json.dumps(v) for v in r["args"]["table"][max(0, min(2, r["args"]["obs"]))]}) < 3)
        ex = Counter(r["exp"]["explore"] for r in recs if r["op"] == "EpsGreedy")
        boundary = sum(1 for r in recs if r["op"] == "EpsGreedy" and r["args"]["roll"] == r["args"]["eps"])
        st.update(greedy_rows_with_ties=ties, explore=dict(ex), roll_equals_epsilon=boundary)
        if ties < 10 or ex[True] < 10 or ex[False] < 10 or boundary < 4:
            raise tlc.MachineryError("tab lattice: ties / branches / boundary cases missing")
        distinct = len(recs)
    return st, distinct


# ------------------------------------------------------------------ binding canaries
def _bump(x):
    return [x[0] * 3 + 2 * x[1], x[1] * 2]


def binding_canaries(by_part, failed_ops):
    """corrupted copies of generated records must be rejected by the comparison (-> number checked)"""
    from . import x07_bind as xb

    done = 0

    def must_fail(rec, what):
        nonlocal done
        if rec["op"] in failed_ops:   # the unchanged record already fails on this tree: nothing to learn from a corrupted copy
            return
        if not xb.check(rec):
            raise tlc.MachineryError(f"binding canary: {what} was not noticed")
        done += 1

    fw = next(r for r in by_part["mlp"] if r["op"] == "Forward" and r["args"]["s"]["kind"] == "mlp" and len(r["args"]["s"]["hn"]) == 2)
    c = copy.deepcopy(fw)
    c["exp"]["outs"]["out"][0][0] = _bump(c["exp"]["outs"]["out"][0][0])
    must_fail(c, "a corrupted expected output of MLP")
    c = copy.deepcopy(fw)
    c["exp"]["struct"]["layers"][0] = [c["exp"]["struct"]["layers"][0][0], c["exp"]["struct"]["layers"][0][1] + 1]
    must_fail(c, "a corrupted hidden-layer shape")
    g = next(r for r in by_part["mlp"] if r["op"] == "Forward" and r["args"]["s"]["kind"] == "gauss_shared" and r["exp"]["outs"]["mean"] != r["exp"]["outs"]["log_var"])
    c = copy.deepcopy(g)
    c["exp"]["outs"]["mean"], c["exp"]["outs"]["log_var"] = c["exp"]["outs"]["log_var"], c["exp"]["outs"]["mean"]
    must_fail(c, "mean and log_var exchanged in the expectation")
    p = next(r for r in by_part["mlp"] if r["op"] == "Perturb" and r["args"]["pert"]["kind"] == "group" and r["args"]["s"]["kind"] == "mlp"
             and r["exp"]["outs"]["out"][0] != r["exp"]["outs2"]["out"][0])
    c = copy.deepcopy(p)
    c["exp"]["same"]["out"][0] = True
    c["exp"]["valued"] = False
    must_fail(c, "a changed output declared independent of the perturbation")
    ln = next(r for r in by_part["mlp"] if r["op"] == "Forward" and r["args"]["s"]["kind"] == "lnmlp" and q(r["exp"]["slack"]["out"][0][0]) > 0)
    c = copy.deepcopy(ln)
    x = c["exp"]["outs"]["out"][0][0]
    c["exp"]["outs"]["out"][0][0] = [x[0] * 1024 + x[1], x[1] * 1024]     # + 2^-10: far outside the slack, far inside any loose tolerance
    must_fail(c, "a LayerNormMLP expectation moved by 2^-10")
    d = next(r for r in by_part["dq"] if r["op"] == "DoubleQ" and r["exp"]["outs"]["q1"] != r["exp"]["outs"]["q2"])
    c = copy.deepcopy(d)
    o = c["exp"]["outs"]
    o["min"] = [[a if q(a) > q(b) else b for a, b in zip(r1, r2)] for r1, r2 in zip(o["q1"], o["q2"])]
    must_fail(c, "the maximum as expected double-Q value")
    s = next(r for r in by_part["sale"] if r["op"] == "Sale" and r["exp"]["exact"]["zs"][0] and any(q(v) != 0 for v in r["exp"]["outs"]["zs"][0]))
    c = copy.deepcopy(s)
    c["args"]["returns"] = ["zs", "zsa"]
    must_fail(c, "the pair returned by SALE read in the wrong order")
    sp = next(r for r in by_part["sale"] if r["op"] == "SalePerturb" and r["args"]["pert"]["grp"] == "g" and r["exp"]["outs"]["zsa"][0] != r["exp"]["outs2"]["zsa"][0])
    c = copy.deepcopy(sp)
    c["exp"]["same"]["zsa"][0] = True
    c["exp"]["exact2"]["zsa"] = [False for _ in c["exp"]["exact2"]["zsa"]]
    must_fail(c, "zsa declared independent of the state-action encoder")
    e = next(r for r in by_part["tab"] if r["op"] == "EpsGreedy" and r["exp"]["explore"])
    c = copy.deepcopy(e)
    c["exp"]["calls"] = ["split", "uniform"]
    must_fail(c, "an exploration step expected without a choice call")
    a = next(r for r in by_part["act"] if r["args"]["name"] == "tanh" and q(r["args"]["x"]) == 1)
    c = copy.deepcopy(a)
    r0 = next(r for r in by_part["act"] if r["args"]["name"] == "relu" and r["args"]["x"] == a["args"]["x"] and r["args"]["P"] == a["args"]["P"])
    c["exp"] = copy.deepcopy(r0["exp"])
    must_fail(c, "tanh judged with the bracket of relu")
    return done


# ------------------------------------------------------------------ run
def run(rep):
    quick = rep.tier == "quick"
    t00 = time.time()
    tlc.sany("NetsOps")
    tlc.sany("Nets")
    jobs = Jobs(par=4 if quick else 5)
    wide = not quick
    for p in PARTS:
        jobs.add("gen " + p, C(p, wide=wide, emit=True), emit=True)
    for p in PARTS:
        jobs.add("prop " + p, C(p, wide=wide), INV[p])
    for v, p, must in CANARIES:
        jobs.add(f"canary {p} {v}", C(p, variant=v), must)   # only the invariants that state the law the variant breaks
    for nm, p, inv in WITNESSES:
        jobs.add("witness " + nm, C(p), [inv])
    try:
        _run(rep, jobs)
    finally:
        jobs.close()
    rep.extra["wall_s_total"] = round(time.time() - t00, 1)


def _run(rep, jobs):
    from . import x07_bind as xb

    xb.SEED = rep.seed
    by_part, failed_ops = {}, set()
    evaluations = distinct = 0
    real_calls = Counter()
    for p in PARTS:
        g = jobs.get("gen " + p)
        recs = g.emitted
        by_part[p] = recs
        st, d = lattice_stats(p, recs)
        rep.extra.setdefault("lattices", {})[p] = st
        distinct += d
        t0 = time.time()
        for i, r in enumerate(recs):
            evaluations += 1
            for key, what in xb.check(r):
                failed_ops.add(r["op"])
                rep.violation(key, what, {"part": p, "record": r})
        real_calls[p] = len(recs)
        rep.extra.setdefault("binding_wall_s", {})[p] = round(time.time() - t0, 1)
        rep.traces += len(recs)
    rep.extra["vectors_replayed"] = dict(real_calls)
    rep.extra["binding_canaries_rejected"] = binding_canaries(by_part, failed_ops)
    fw = next(r for r in by_part["mlp"] if r["op"] == "Forward" and r["args"]["s"]["kind"] == "gauss_shared" and len(r["args"]["s"]["hn"]) == 1)
    rep.sample({"GaussianMLP": {"structure": fw["args"]["s"], "xs": fw["args"]["xs"], "head": fw["args"]["P"]["head"], "expected": fw["exp"]["outs"]}})
    sp = next(r for r in by_part["sale"] if r["op"] == "SalePerturb" and r["args"]["pert"]["kind"] == "fscale")
    rep.sample({"SALE fscale": {"state": sp["args"]["inp"]["st"], "expected_zs": sp["exp"]["outs"]["zs"], "same": sp["exp"]["same"]}})
    dq = next(r for r in by_part["dq"] if r["op"] == "DoubleQ" and r["args"]["s"]["no"] == 2)
    rep.sample({"double Q": {"xs": dq["args"]["xs"], "expected": dq["exp"]["outs"]}})

    # ---- model side: properties, canaries, witnesses
    for p in PARTS:
        rep.add_tlc(jobs.get("gen " + p), "gen " + p)
        r = jobs.get("prop " + p)
        rep.add_tlc(r, "prop " + p)
        if not r.ok:
            rep.violation(f"spec:Nets:{r.violated}", f"design-level violation of {r.violated} in part {p}", r.error_trace)
    for v, p, must in CANARIES:
        r = jobs.get(f"canary {p} {v}")
        if not (r.violated and any(m in r.violated for m in must)):
            raise tlc.MachineryError(f"canary '{v}' ({p}) not refuted (expected one of {must}, got {r.violated})")
    for nm, p, inv in WITNESSES:
        r = jobs.get("witness " + nm)
        if r.violated != inv:
            raise tlc.MachineryError(f"the model of the code no longer shows the named deviation {nm}: {inv} holds")
    rep.extra["canaries_refuted"] = len(CANARIES)
    rep.extra["deviation_witnesses"] = [w[0] for w in WITNESSES]

    rep.evaluations = evaluations
    rep.distinct = distinct
    rep.exhaustive = True
    rep.rule = ("TLC enumerates, per part, every staged vector of the lattice: structure (kind x hidden_nodes x n_features x n_outputs x activation) x parameter seed "
                "(weights / biases in {-1, -1/2, 0, 1/2, 1, 2} through the generator of NetsOps.tla) x input batch, then every perturbation of the vector (one input "
                "component, one parameter group, the log-variance columns, a common bias shift, the embedding scale); every record is replayed once into the real "
                "modules (eager and nnx.jit, batch and single rows); a case is non-trivial when an output is negative / a perturbation changes an output / q1 and q2 "
                "differ / a configuration is invalid / a probe is non-zero")
    rep.assumptions += [
        "small scope: <= 2 hidden layers, widths <= 3, n_features / n_outputs <= 2, batches <= 3 rows; parameters and inputs on the dyadic lattice: float32 is exact",
        "layer norm over 1 or 2 features only: ideal model (bias / sign pattern) with a rational slack derived from eps = 1e-6 and the operation count (NetsOps.tla: LnDelta, LnSlack); "
        "the order of operations of every network is checked bit for bit against the real sub-modules applied in the model's order",
        "non-dyadic activations: closed brackets of width 1/32 around the mathematical value at nine probes (ActTable); exact activations relu, identity, relu6, hard_tanh",
        "SALE values are compared where every AvgL1Norm divisor on the path is a power of two; all other rows serve the dependency relation (bit-identical outputs)",
        "TLC's -coverage is not used (its instrumentation does not terminate on the nested operator definitions); non-vacuity is established from the generated records (lattice_stats)",
        "named deviations are modelled as the code behaves (see final report): HiddenNodesNotValidated, LookupAcceptsAnyAttribute, HeadsShareTrunkEitherWay, "
        "WidthOneLayerNormIsConstant, GreedyFlattensBatch, GreedyClampsObservation, SubkeyReusedForChoice",
        "trusted: harness/extras/x07_bind.py (parameter overwrite, projection), TLC",
    ]


# ------------------------------------------------------------------ replay
def replay(path, rep):
    from . import x07_bind as xb

    d = json.load(open(path))["replay"]
    if not isinstance(d, dict) or "record" not in d:
        print("design-level violation: nothing to replay against the code")
        print(str(d)[:2000])
        return 1
    rec = d["record"]
    print("part", d["part"], "op", rec["op"])
    print("args:", json.dumps(rec["args"])[:1500])
    bad = xb.check(rec)
    if bad:
        print("EXTRA-DEVIATION spec=X07 replay=" + path)
        for code, what in bad:
            print("  ", code, "::", what)
        return 1
    print("the record is accepted")
    return 0
