"""X03 - iteration structure of the on-policy learners (PPO, A2C, REINFORCE, actor-critic) and EpisodeDataset.

spec/OnPolicy.tla       design model: EpisodeDataset state machine + the iteration
                        (BeginCollect, SampleStart, SampleStep, Collect, Epoch, Minibatch, PolicyStep, ValueStep, EndIteration)
spec/OnPolicyTrace.tla  trace validation of real runs, re-using those actions, one verdict per trace

(1) TLC checks the design model on small configurations (all three families, minibatch sizes that divide and do not
    divide the batch, with and without shuffling) and refutes five named deviations.
(2) spec -> code: every transition of the EpisodeDataset state graph is replayed into the real class (graph.cover).
(3) code -> spec: train_ppo / train_a2c / train_reinforce / train_ac run on scripted environments with interposed
    module-level names and recording optimisers (harness/extras/x03_record.py, a worker process); OnPolicyTrace judges
    every event; corrupted copies of accepted traces must be rejected with the expected clause.
"""
from __future__ import annotations

import copy
import json
import os
import subprocess
import sys
import time
from concurrent.futures import ThreadPoolExecutor
from fractions import Fraction

import numpy as np

from .. import exact, graph, tlc
from ..graph import Mismatch

TITLE = "Iteration structure of the on-policy learners (collect / epochs / optimiser steps / fresh data set) and EpisodeDataset"
LEVEL = "model_checking"
MANIFEST = dict(
    category="model_checking",
    text="OnPolicy.tla models one iteration of train_ppo, train_a2c, train_reinforce and train_ac as collect -> (epoch -> minibatch -> optimiser steps)* -> discard, parameterised by a configuration record, together with the EpisodeDataset state machine. TLC checks on every behaviour of small configurations that each row is used exactly once per epoch, that the number of optimiser steps is the sum over phases of epochs x minibatches, that a collection acts with the parameters left by the previous iteration, that the data set holds rows of the current iteration only and that iterations continue exactly while the step budget / iteration count allows; five deviations are refuted. Every transition of the EpisodeDataset graph is replayed into the real class, and event streams of the real routines (interposed collection / update / loss functions, recording optimisers, tag observations) are validated by OnPolicyTrace.tla, which re-uses the model's actions and names the failing clause.",
    note="small scope (<= 2 environments, <= 3 vector steps, <= 2 epochs in the design model; runs of 2-4 iterations); routines run under jax.disable_jit() so that loss evaluations and optimiser steps inside jitted update functions are observable; trusted: harness/envs.py tags, harness/extras/x03_record.py projections, TLC",
    technique="TLA+ spec + TLC exhaustive model checking; transition-coverage replay into EpisodeDataset; trace validation of recorded runs against the same actions",
)

ROOT = os.path.dirname(os.path.dirname(os.path.dirname(os.path.abspath(__file__))))
WORKERS = int(os.environ.get("VERIF_TLC_WORKERS", "8"))
DESIGN_INVS = ["TypeOK", "RowOncePerEpoch", "StepCountFormula", "StepCountAtEpochs", "CollectUsesLatest", "GradOnCurrent", "BudgetRule",
               "CollectionSize", "MinSamplesRule", "DatasetFresh"]
TRACE_INVS = [i for i in DESIGN_INVS if i != "DatasetFresh"]  # rows are tags there, not <<iteration, k>>
DS_INVS = ["DsLenIsTotal", "DsInsertionOrder", "DsIndicesRestart", "DsPreparedAligned"]
CANARIES = [  # (Next, invariant that must be violated, what)
    ("NextDropTail", "RowOncePerEpoch", "a remainder smaller than the minibatch size is dropped"),
    ("NextOffByOne", "RowOncePerEpoch", "minibatch slices start one row late"),
    ("NextStale", "CollectUsesLatest", "the behaviour policy is a snapshot that is never refreshed"),
    ("NextKeep", "DatasetFresh", "the data set is kept and the next collection appended"),
    ("NextShort", "StepCountFormula", "one epoch too few"),
]
BOX = 99


def constants(tier, emit=False):
    if tier == "quick":
        return dict(EMIT=emit, Algos={"ppo", "a2c", "pg"}, NEnvsS={1, 2}, NStepsS={2, 3}, EpochsS={1, 2}, MBs={0, 2, 4}, Shuffles={False, True}, Iterations=2, Budget=7,
                    MinSamples=3, EpLens={1, 2}, MaxSamples=4, MaxEpisodes=3, Starts={0, 2, BOX})
    return dict(EMIT=emit, Algos={"ppo", "a2c", "pg"}, NEnvsS={1, 2}, NStepsS={2, 3, 4}, EpochsS={1, 2, 3}, MBs={0, 2, 3, 4}, Shuffles={False, True}, Iterations=3, Budget=9,
                MinSamples=3, EpLens={1, 2, 3}, MaxSamples=5, MaxEpisodes=4, Starts={0, 2, BOX})


# ---------------------------------------------------------------- EpisodeDataset binding (spec -> code)
def encode(k):
    return (np.array([k, 1], dtype=np.float32), np.int64(2 + k % 3), np.array([k, 2], dtype=np.float32), float(2 ** (k - 1)))


def ds_project(ds):
    eps = []
    for e in ds.episodes:
        ids = []
        for tup in e:
            if len(tup) != 4:
                raise Mismatch(f"a stored sample has {len(tup)} fields")
            o, a, n, r = tup
            k = int(np.asarray(o)[0])
            wo, wa, wn, wr = encode(k)
            if not (np.array_equal(np.asarray(o), wo) and int(a) == int(wa) and np.array_equal(np.asarray(n), wn) and float(r) == wr):
                raise Mismatch(f"stored sample is not a whole sample: obs {np.asarray(o).tolist()} action {a} next {np.asarray(n).tolist()} reward {r}")
            ids.append(k)
        eps.append(ids)
    return {"episodes": eps, "cnt": max([k for e in eps for k in e], default=0)}


def ds_step(ds, op, args, exp, pre, post):
    import gymnasium as gym

    if op == "start_episode":
        ds.start_episode()
    elif op == "add_sample":
        try:
            ds.add_sample(*encode(args[0]))
            got = "ok"
        except AssertionError:
            got = "AssertionError"
        if got != exp:
            raise Mismatch(f"add_sample -> {got}, model {exp}", code=f"add_sample_{exp}")
    elif op == "len":
        if len(ds) != exp[0]:
            raise Mismatch(f"len() = {len(ds)}, model {exp[0]}", code="len")
    elif op == "indices":
        got = [int(i) for i in ds._indices()]
        if got != list(exp):
            raise Mismatch(f"_indices() = {got}, model {list(exp)}", code="indices")
    elif op == "average_return":
        got = ds.average_return()
        want = float(Fraction(int(exp[0]), int(exp[1])))  # correctly rounded quotient of two exactly representable numbers
        if float(got) != want:
            raise Mismatch(f"average_return() = {got!r}, model {exp[0]}/{exp[1]}", code="average_return")
    elif op == "prepare":
        g, start = args
        space = gym.spaces.Box(low=-10.0, high=10.0, shape=(1,)) if start == BOX else gym.spaces.Discrete(8, start=int(start))
        out = ds.prepare_policy_gradient_dataset(space, float(Fraction(int(g[0]), int(g[1]))))
        if len(out) != 5:
            raise Mismatch(f"prepare_policy_gradient_dataset returns {len(out)} arrays", code="prepare_arity")
        obs, act, nxt, ret, disc = [np.asarray(x) for x in out]
        n = len(exp)
        if not (obs.shape[0] == act.shape[0] == nxt.shape[0] == ret.shape[0] == disc.shape[0] == n):
            raise Mismatch(f"flattened arrays have lengths {[x.shape[0] for x in (obs, act, nxt, ret, disc)]}, model {n}", code="prepare_length")
        for i, row in enumerate(exp):
            k = row["id"]
            if obs[i].tolist() != [k, 1] or nxt[i].tolist() != [k, 2]:
                raise Mismatch(f"row {i}: observation {obs[i].tolist()} / next {nxt[i].tolist()}, model sample {k}", code="prepare_rows_observation")
            if int(act[i]) != row["act"] or float(act[i]) != row["act"]:
                raise Mismatch(f"row {i}: action {act[i]}, model {row['act']} (start {start})", code="prepare_rows_action")
            if not exact.eq(ret[i], row["ret"]):
                raise Mismatch(f"row {i}: return {ret[i]!r}, model {row['ret']} (gamma {g})", code="prepare_rows_return")
            if not exact.eq(disc[i], row["disc"]):
                raise Mismatch(f"row {i}: gamma_discount {disc[i]!r}, model {row['disc']} (gamma {g})", code="prepare_rows_discount")
    else:  # pragma: no cover
        raise AssertionError(op)


def ds_factory():
    from rl_blox.algorithm.reinforce import EpisodeDataset

    return EpisodeDataset()


def dataset_part(rep, emitted):
    G = graph.Graph(emitted)
    root = G.roots()[0]
    res = graph.cover(G, root, ds_factory, ds_step, ds_project)
    for v in res["violations"]:
        rep.violation(f"EpisodeDataset:{v['path'][-1]['op']}:{v['code']}", f"EpisodeDataset: {v['what']}", {"kind": "dataset", "path": v["path"], "detail": v["detail"]})
    # binding canary: a corrupted expectation must be noticed by the comparison
    bad = copy.deepcopy([e for e in emitted if e["op"] == "len" and e["pre"]["cnt"] > 0][:1] + [e for e in emitted if e["op"] == "prepare"][-1:])
    bad[0]["exp"] = [bad[0]["exp"][0] + 1]
    bad[1]["exp"][-1]["ret"] = [bad[1]["exp"][-1]["ret"][0] + 1, bad[1]["exp"][-1]["ret"][1]]
    for b in bad:
        ds = ds_factory()
        for ep in b["pre"]["episodes"]:
            ds.start_episode()
            for k in ep:
                ds.add_sample(*encode(k))
        try:
            ds_step(ds, b["op"], b["args"], b["exp"], None, None)
        except Mismatch:
            continue
        raise tlc.MachineryError(f"binding canary: corrupted expectation of {b['op']} not noticed")
    return G, res


# ---------------------------------------------------------------- trace binding (code -> spec)
KEEP = {"reset", "step", "collect_begin", "ds_start", "ds_add", "collect_end", "update_begin", "loss", "opt", "update_end", "end", "error"}
EV_DEFAULTS = dict(env=0, obs=[-1, -1, -1], term=False, trunc=False, n=0, ne=0, tae=False, pv=-1, vv=-1, kind="none", rows=[], eps=[], before=-1, after=-1, dp=0, dv=0, msg="")


def normalise(trace):
    """Recorded stream -> uniform records for TLC (no nulls; only the events OnPolicyTrace reads)."""
    evs = []
    for e in trace["events"]:
        if e["ev"] not in KEEP:
            continue
        n = dict(EV_DEFAULTS, ev=e["ev"])
        for k in EV_DEFAULTS:
            if k in e:
                n[k] = e[k]
        ver = e.get("ver") or {}
        if "pv" not in e and "policy" in ver:
            n["pv"] = ver["policy"]  # version id of the live policy's parameter content at the event
        if "vv" not in e and "value" in ver:
            n["vv"] = ver["value"]
        n["msg"] = str(n["msg"])[:200]
        evs.append(n)
    return {"id": trace["id"], "cfg": trace["cfg"], "events": evs}


def validate(norm, tag="x03trace", timeout=600):
    os.makedirs(os.path.join(tlc.OUT, "tmp"), exist_ok=True)
    path = os.path.join(tlc.OUT, "tmp", f"{tag}-{os.getpid()}.json")
    with open(path, "w") as f:
        json.dump(norm, f)
    c = dict(EMIT=False, Algos=set(), NEnvsS={1}, NStepsS={1}, EpochsS={1}, MBs={0}, Shuffles={False}, Iterations=1, Budget=1, MinSamples=1, EpLens={1},
             MaxSamples=1, MaxEpisodes=1, Starts={0})
    try:
        r = tlc.run("OnPolicyTrace", tlc.cfg_text(init="TInit", next="TNext", constants=c, invariants=TRACE_INVS), workers=1, env={"TRACE_FILE": path},
                    tag=tag, timeout=timeout)
    finally:
        os.remove(path)
    out = {}
    for line in r.stdout.splitlines():
        if line.startswith('<<"VERDICT", "'):
            d = json.loads(json.loads(line[len('<<"VERDICT", '):-2]))
            out[d["id"]] = d
    if r.violated:
        raise tlc.MachineryError(f"a model invariant failed along a validated trace ({r.violated}) - clause set incomplete: {r.error_trace[:1500]}")
    missing = [t["id"] for t in norm if t["id"] not in out]
    if missing:
        raise tlc.MachineryError(f"OnPolicyTrace gave no verdict for {missing}: {r.stdout[-1500:]}")
    return out, r


def _find(evs, pred, nth=0):
    idx = [i for i, e in enumerate(evs) if pred(e)]
    return idx[nth] if len(idx) > nth else None


def corruptions(norm):
    """Corrupted copies of accepted traces -> [(trace, clauses of which at least one must be named)]."""
    out = []
    by = {t["id"].split(":")[0]: t for t in reversed(norm)}
    ppo, pg, a2c = by.get("ppo"), by.get("reinforce") or by.get("actor_critic"), by.get("a2c")
    if ppo:
        t = copy.deepcopy(ppo)
        t["id"] = "canary:dropped_optimiser_step"
        del t["events"][_find(t["events"], lambda e: e["ev"] == "opt")]
        out.append((t, {"StepAfterLoss", "OptimiserStepCount"}))
        t = copy.deepcopy(ppo)
        t["id"] = "canary:row_used_twice"
        e = t["events"][_find(t["events"], lambda e: e["ev"] == "loss", 1)]
        e["rows"][-1] = list(e["rows"][0])
        out.append((t, {"MinibatchFromDataset"}))
        t = copy.deepcopy(ppo)
        t["id"] = "canary:stale_collection"
        t["events"][_find(t["events"], lambda e: e["ev"] == "collect_begin", 1)]["pv"] = 0
        out.append((t, {"CollectUsesLatest"}))
        t = copy.deepcopy(ppo)
        t["id"] = "canary:epoch_missing"
        j = _find(t["events"], lambda e: e["ev"] == "update_end")
        del t["events"][j - 3:j]  # the last epoch of the first update: loss, opt, opt
        out.append((t, {"OptimiserStepCount"}))
    if pg:
        t = copy.deepcopy(pg)
        t["id"] = "canary:dataset_not_cleared"
        i1, i2 = _find(t["events"], lambda e: e["ev"] == "collect_end", 0), _find(t["events"], lambda e: e["ev"] == "collect_end", 1)
        if i2 is not None:
            e1, e2 = t["events"][i1], t["events"][i2]
            e2["eps"] = copy.deepcopy(e1["eps"]) + e2["eps"]
            e2["rows"] = copy.deepcopy(e1["rows"]) + e2["rows"]
            out.append((t, {"DatasetIsWhatWasAdded", "RowsAreThisCollection"}))
        t = copy.deepcopy(pg)
        t["id"] = "canary:value_before_policy"
        i = _find(t["events"], lambda e: e["ev"] == "update_begin" and e["kind"] == "policy")
        j = _find(t["events"], lambda e: e["ev"] == "update_end" and e["kind"] == "policy")
        k = _find(t["events"], lambda e: e["ev"] == "update_end" and e["kind"] == "value")
        if None not in (i, j, k):
            t["events"] = t["events"][:i] + t["events"][j + 1:k + 1] + t["events"][i:j + 1] + t["events"][k + 1:]
            out.append((t, {"PhaseOrder"}))
    if a2c:
        t = copy.deepcopy(a2c)
        t["id"] = "canary:vector_step_missing"
        i = _find(t["events"], lambda e: e["ev"] == "step", 2)
        del t["events"][i]
        out.append((t, {"CollectLength", "RowsAreThisCollection"}))
    return out


def record(tier, seed, only=None, timeout=900):
    """Run the recording worker (own process: JAX state, jax.disable_jit) -> list of traces."""
    os.makedirs(os.path.join(tlc.OUT, "tmp"), exist_ok=True)
    out = os.path.join(tlc.OUT, "tmp", f"x03rec-{os.getpid()}-{int(time.time() * 1000) % 100000}.json")
    env = dict(os.environ)
    repo = os.environ.get("VERIF_REPO_ROOT", "/repo")
    env["PYTHONPATH"] = repo + os.pathsep + ROOT
    env["JAX_PLATFORMS"] = "cpu"
    env["TF_CPP_MIN_LOG_LEVEL"] = "3"
    env.setdefault("OMP_NUM_THREADS", "2")
    cmd = [sys.executable, "-m", "harness.extras.x03_record", tier, str(seed), out, ",".join(only) if only else ""]
    p = subprocess.Popen(cmd, env=env, cwd=ROOT, stdout=subprocess.PIPE, stderr=subprocess.PIPE, text=True)

    def wait():
        try:
            so, se = p.communicate(timeout=timeout)
        except subprocess.TimeoutExpired:
            p.kill()
            raise tlc.MachineryError("recording worker timed out")
        if p.returncode != 0 or not os.path.exists(out):
            raise tlc.MachineryError(f"recording worker failed ({p.returncode}): {se[-2000:]}")
        try:
            return json.load(open(out))
        finally:
            os.remove(out)

    return wait


def judge_traces(rep, traces):
    norm = [normalise(t) for t in traces]
    verdicts, r = validate(norm)
    accepted = [t for t in norm if not verdicts[t["id"]]["clauses"]]
    cor = corruptions(accepted)
    if len(cor) < (5 if len(accepted) == len(norm) else 0):
        raise tlc.MachineryError(f"only {len(cor)} binding canaries could be built")
    if cor:
        cv, r2 = validate([c for c, _ in cor], tag="x03canary")
        for c, want in cor:
            got = set(cv[c["id"]]["clauses"])
            if not (got & want):
                raise tlc.MachineryError(f"binding canary {c['id']}: corrupted trace judged {sorted(got)}, expected one of {sorted(want)}")
        rep.extra["binding_canaries"] = {c["id"]: cv[c["id"]]["clauses"] for c, _ in cor}
    return norm, verdicts, r


def run(rep):
    quick = rep.tier == "quick"
    for m in ("OnPolicy", "OnPolicyTrace"):
        tlc.sany(m)
    # the real runs start now, in their own process(es)
    from .x03_record import scenarios

    ids = [sc["id"] for sc in scenarios(rep.tier, rep.seed)]
    parts = [ids] if quick else [ids[0::2], ids[1::2]]
    waits = [record(rep.tier, rep.seed, only=part) for part in parts]

    C = constants(rep.tier)
    pool = ThreadPoolExecutor(4)
    w = max(2, WORKERS // 2)
    f_design = pool.submit(tlc.run, "OnPolicy", tlc.cfg_text(constants=C, invariants=DESIGN_INVS), workers=w, coverage=True, tag="x03design")
    f_ds = pool.submit(tlc.run, "OnPolicy", tlc.cfg_text(constants=C, init="DsInit", next="DsNext", invariants=DS_INVS, properties=["DsOnlyLastGrows"]),
                       workers=2, tag="x03ds")
    f_gen = pool.submit(tlc.run, "OnPolicy", tlc.cfg_text(constants=dict(C, EMIT=True), init="DsInit", next="DsNext", view="DsView"), workers=1, tag="x03dsgen")
    f_can = [pool.submit(tlc.run, "OnPolicy", tlc.cfg_text(constants=C, next=nx, invariants=[inv]), workers=2, tag="x03" + nx) for nx, inv, _ in CANARIES]
    f_can.append(pool.submit(tlc.run, "OnPolicy", tlc.cfg_text(constants=C, init="DsInit", next="DsNextBadAdd", properties=["DsOnlyLastGrows"]), workers=2, tag="x03dsbad"))

    # (1) design model
    r = f_design.result()
    rep.add_tlc(r, "OnPolicy design model (ppo, a2c, pg configurations)")
    if not r.ok:
        rep.violation(f"spec:OnPolicy:{r.violated}", f"design-level violation of {r.violated}", r.error_trace)
    else:
        tlc.require_covered(r, ["BeginCollect", "SampleStart", "Epoch", "PolicyStep", "ValueStep", "EndIteration"])
    r = f_ds.result()
    rep.add_tlc(r, "OnPolicy EpisodeDataset machine")
    if not r.ok:
        rep.violation(f"spec:OnPolicy:{r.violated}", f"design-level violation of {r.violated} (EpisodeDataset machine)", r.error_trace)
    for (nx, inv, what), f in zip(CANARIES + [("DsNextBadAdd", "DsOnlyLastGrows", "add_sample appends to the first episode")], f_can):
        rc = f.result()
        if not rc.violated or inv not in rc.violated:
            raise tlc.MachineryError(f"canary {nx} ({what}) not refuted by {inv}: {rc.violated}")
    rep.extra["spec_canaries_refuted"] = [nx for nx, _, _ in CANARIES] + ["DsNextBadAdd"]

    # (2) EpisodeDataset: every transition of the state graph into the real class
    g = f_gen.result()
    rep.add_tlc(g, "OnPolicy EpisodeDataset graph generation")
    G, res = dataset_part(rep, g.emitted)
    prep = [e for e in g.emitted if e["op"] == "prepare" and len(e["pre"]["episodes"]) > 1 and e["pre"]["cnt"] > 2]
    rep.sample({"dataset_transition": prep[(7 * rep.seed + 5) % len(prep)]})
    nontrivial_ds = sum(1 for k, es in G.out.items() for e in es if G.state[k]["cnt"] > 0)

    # (3) recorded runs of the real routines
    got = {t["id"]: t for wt in waits for t in wt()}
    if sorted(got) != sorted(ids):
        raise tlc.MachineryError(f"recording workers returned {sorted(got)}, expected {sorted(ids)}")
    traces = [got[i] for i in ids]
    norm, verdicts, rt = judge_traces(rep, traces)
    rep.add_tlc(rt, f"OnPolicyTrace {len(norm)} recorded runs, {sum(len(t['events']) for t in norm)} events")
    calls = {}
    for t, raw in zip(norm, traces):
        v = verdicts[t["id"]]
        routine = t["id"].split(":")[0]
        for e in t["events"]:
            calls[e["ev"]] = calls.get(e["ev"], 0) + 1
        for c in v["clauses"]:
            pos = v["pos"]
            ctx = t["events"][max(0, pos - 3):pos]
            shown = {k: x for k, x in t["events"][pos - 1].items() if x != EV_DEFAULTS.get(k)} if 0 < pos <= len(t["events"]) else {}
            rep.violation(f"{routine}:{c}", f"{t['id']}: clause {c} fails at event {pos} {json.dumps(shown)[:400]} (all failing clauses: {v['clauses']})",
                          {"kind": "trace", "id": t["id"], "clauses": v["clauses"], "pos": pos, "context": ctx, "scenario": raw.get("scenario")})
    rep.extra["real_calls"] = calls
    rep.extra["runs"] = {t["id"]: dict(iterations=verdicts[t["id"]]["iters"], policy_steps=verdicts[t["id"]]["psteps"], value_steps=verdicts[t["id"]]["vsteps"],
                                       counted=verdicts[t["id"]]["counted"], clauses=verdicts[t["id"]]["clauses"], wall_s=raw.get("wall_s")) for t, raw in zip(norm, traces)}
    first = norm[0]["events"]
    i = _find(first, lambda e: e["ev"] == "loss")
    rep.sample({"trace": norm[0]["id"], "events": [{k: v for k, v in e.items() if v != EV_DEFAULTS.get(k)} for e in first[i - 1:i + 3]]})
    rep.sample({"verdict": verdicts[norm[-1]["id"]]})

    rep.traces = res["edges_tested"] + len(norm)
    rep.evaluations = res["edges_tested"] + sum(len(t["events"]) for t in norm)
    rep.distinct = nontrivial_ds + sum(calls.get(k, 0) for k in ("collect_end", "loss", "opt"))
    rep.exhaustive = True
    rep.rule = ("design model: TLC explores every behaviour of every configuration in DesignCfgs (families ppo / a2c / pg; 1-2 environments, 2-3 vector steps, "
                "1-2 epochs or gradient steps, minibatch sizes whole / dividing / not dividing, shuffled or not); data-set machine: every transition of the reachable graph "
                "(<= %d samples, <= %d episodes; queries len / _indices / average_return / prepare for gamma in {0, 1/2, 1} and Discrete start 0, 2 and a Box) replayed once "
                "into the real EpisodeDataset - non-trivial = the data set holds a sample; runs: every recorded event of every scenario is judged, non-trivial = "
                "collection results, loss evaluations and optimiser steps" % (C["MaxSamples"], C["MaxEpisodes"]))
    rep.assumptions += [
        "the routines run under jax.disable_jit(): the Python control flow inside the jitted update functions is what is observed; XLA-compiled execution of the same trace is not",
        "parameter versions are content digests of nnx.Param leaves: an optimiser step that leaves every parameter bit-identical would be invisible (not required by any clause)",
        "small scope: design model <= 2 environments x 3 steps x 2 epochs x 2 iterations; runs of 2-4 iterations with tiny networks",
        "trusted: harness/envs.py tag observations, harness/extras/x03_record.py wrappers (which only log), TLC",
    ]
    pool.shutdown(wait=False)


def replay(path, rep):
    d = json.load(open(path))
    r = d["replay"]
    if r.get("kind") == "dataset":
        ds = ds_factory()
        try:
            for st in r["path"]:
                if st["op"] == "<construct>":
                    continue
                ds_step(ds, st["op"], st["args"], st.get("exp"), None, None)
                print(st["op"], st["args"], "->", ds_project(ds))
        except Mismatch as m:
            print("EXTRA-DEVIATION spec=X03 replay=" + path)
            print("  ", m.what)
            return 1
        except Exception as ex:
            print("EXTRA-DEVIATION spec=X03 replay=" + path)
            print("   exception", type(ex).__name__, ex)
            return 1
        want = r.get("detail", {}).get("want")
        if want is not None and graph.canon(ds_project(ds)) != graph.canon(want):
            print("EXTRA-DEVIATION spec=X03 replay=" + path)
            print("   state after the last step differs from the model:", ds_project(ds), "model", want)
            return 1
        return 0
    if r.get("kind") == "trace":
        traces = record(rep.tier, rep.seed, only=[r["id"]])()
        if not traces:  # scenario of the other tier
            traces = record("thorough", rep.seed, only=[r["id"]])()
        norm = [normalise(t) for t in traces]
        verdicts, _ = validate(norm, tag="x03replay")
        rc = 0
        for t in norm:
            v = verdicts[t["id"]]
            print(t["id"], "verdict:", v)
            if v["clauses"]:
                for e in t["events"][max(0, v["pos"] - 4):v["pos"]]:
                    print("   ", json.dumps({k: x for k, x in e.items() if x != EV_DEFAULTS.get(k)})[:400])
                rc = 1
        if rc:
            print("EXTRA-DEVIATION spec=X03 replay=" + path)
        return rc
    print("design-level finding; re-run bin/check X03")
    return 1
