"""X06 - KeyDiscipline: the pseudo-random-key discipline of the training routines of rl_blox.

JAX PRNG keys are values; the documented JAX contract is that a key is used at most once (split, or consumed by one sampler),
and every routine documents `seed` as the single source of its randomness.  The `train_*` loops are eager Python, so the key
operations of a loop happen on concrete keys: harness/extras/x06_record.py observes them (jax.random.key / PRNGKey / split /
fold_in / samplers, the jit boundary of rl_blox's own functions, np.random.default_rng, nnx.Rngs) without touching /repo.

Specification: spec/KeyDiscipline.tla - an OBSERVER (Observe(cfg, ledger, operation): the tree of keys derived so far, what was
done with each key, and the violated clauses with both call sites) and a PROGRAM model of the loops in which keys are values
determined by their derivation; TLC checks NoReuse / SingleRoot / ThreadedLoop on all small behaviours and refutes the named
deviations.  spec/KeyDisciplineTrace.tla replays the recorded operations of real runs through the same observer (one TLC run,
one VERDICT per trace), compares two runs of the same seed operation by operation and checks that runs with different seeds share
no key.

TLC gives every verdict; Python records, projects (key digests -> small naturals, operation -> signature) and reads verdicts.
"""
from __future__ import annotations

import copy
import fcntl
import hashlib
import json
import os
import shutil
import subprocess
import sys
import time
import uuid
from concurrent.futures import ThreadPoolExecutor

from .. import tlc
from . import x06_cfg

LEVEL = "model_checking"
TITLE = "Pseudo-random-key discipline of the training routines: no key reused, every key from `seed`, loop keys threaded, same seed = same key operations"
MANIFEST = dict(
    category="model_checking",
    text="TLC model-checks spec/KeyDiscipline.tla: a program model of the training loops in which PRNG keys are values determined by their derivation (root(seed), i-th child, fold_in(data)) issues root / split / fold_in / consume operations with their call sites; an observer that only sees the operations keeps the ledger of derived keys and names every violated clause together with the two call sites involved. Invariants: NoReuse (no key split twice, consumed twice, split and consumed, folded twice with the same data), SingleRoot (every key used descends from a key created from the routine's seed, every generator is seeded with it; schedulers: seed + global_step), ThreadedLoop (the carried key of a loop is replaced by a child of itself in every iteration) and the agreement of the clause bookkeeping with the structural statement on the ledger. The same observer validates the key operations recorded from real runs of the training routines (spec/KeyDisciplineTrace.tla), a second run with the same seed is compared operation by operation, and a run with a different seed must share no key - the right level because these are ordering / hand-over properties of sequential eager loops over immutable key values, which an explicit state machine plus exact trace validation decides.",
    note="bounds: design model <= 3 iterations x 1 call and 2 x 2 calls, seeds {0, 1}, sub-keys per split <= 3, inner loops <= 2 rounds; traces: scenario A (two runs with seed s; thorough: a third with s + 100) and scenario B (seed 0; thorough: also scenario C) of every routine of the tier (quick 23 routines incl. the eager-planner variant of PE-TS, thorough 28); only concrete keys are observable: key operations inside jitted functions are seen as ONE use of each key that crosses the jit boundary; calls jax / flax make internally (nnx.Rngs streams, initialisers) are not judged; trusted: TLC, the interposition in harness/extras/x06_record.py, 64-bit key digests (threefry key data)",
    technique="TLA+ design model + TLC (4 invariants + 1 action property, 10 named deviation canaries, 4 witnesses); trace validation (KeyDisciplineTrace) of recorded key operations of real runs of train_dqn / nature_dqn / ddqn / ddqn_per / ddpg / td3 / td3_lap / sac / td7 / mrq / pets (jitted and eager planner) / cmaes / reinforce / ac / a2c / ppo / q_learning / sarsa / double_q_learning / monte_carlo / dynaq / generate_rollout (+ active_mt / smt / uts); lock-step comparison of two same-seed runs; key-disjointness of different-seed runs",
)

ROOT = os.path.dirname(os.path.dirname(os.path.dirname(os.path.abspath(__file__))))
CACHE = os.path.join(ROOT, ".cache", "x06")
WORKERS = int(os.environ.get("VERIF_TLC_WORKERS", "8"))

INVS = ["NoReuse", "SingleRoot", "ThreadedLoop", "ObserverAgrees"]
ACTIONS = ["Prologue", "NextCall", "Finish", "Root", "Split", "FoldIn", "Consume"]
# deviation -> invariant / property that must refute it; [code]: what the unchanged code does at one site (x06_cfg.ODDITIES)
DEVIATIONS = [
    ("ReuseParentAfterSplit", "NoReuse"),          # the loop draws from the key it has just split
    ("SameKeyEveryIteration", "ThreadedLoop"),     # `_, sub = split(key)`: the carried key is not re-bound
    ("SameKeyEveryIteration", "ThreadedLoopStep"),
    ("ConsumeTwice", "NoReuse"),                   # one sub-key for two samplers                                   [code: epsilon_greedy_policy]
    ("CarriedKeyConsumed", "NoReuse"),             # a sampler draws from the carried key, which is split next round  [code: train_ensemble]
    ("InnerLoopKeyNotThreaded", "ThreadedLoop"),   # every round of an inner loop starts from the same key            [code: pets._pets_optimize]
    ("TwoRootsSameSeed", "NoReuse"),               # a second chain rooted at key(seed) again                         [code: train_pets]
    ("WarmupConsumesRoot", "NoReuse"),             # a compile call draws from a root that is split later             [code: train_pets]
    ("HardCodedRoot", "SingleRoot"),               # key(0) whatever the seed
    ("SchedulerRootCollision", "NoReuse"),         # scheduler key(seed) and first inner call key(seed + 0)           [code: train_uts]
    ("FoldSameData", "NoReuse"),                   # fold_in with constant data
]
QUICK_DEVS = ["ReuseParentAfterSplit", "SameKeyEveryIteration", "ConsumeTwice", "CarriedKeyConsumed", "TwoRootsSameSeed", "HardCodedRoot"]
SPAN = 64  # schedulers: root seeds seed .. seed + SPAN are derived from `seed` (budgets of the scenarios are <= 30 steps)
REUSE_CLAUSES = ("SplitTwice", "ConsumeTwice", "SplitAndConsume", "FoldTwice", "FoldAndUse")
WITNESSES = ["WitnessFoldStream", "WitnessTwoChains", "WitnessSecondCall", "WitnessInnerLoop"]


# ------------------------------------------------------------------ recording (worker processes)
def _repo_root():
    from .. import sweep

    return sweep.repo_root()


def _cache_key(tier, seed):
    from .. import sweep

    h = hashlib.sha256(sweep.cache_key(tier, seed, "x06").encode())
    for f in ("x06_worker.py", "x06_record.py"):
        h.update(open(os.path.join(ROOT, "harness", "extras", f), "rb").read())
    h.update(json.dumps(x06_cfg.GROUPS[tier]).encode())
    return h.hexdigest()[:24]


def _worker(names, tier, seed, out, timeout=600, attempts=3):
    env = dict(os.environ)
    env.update(PYTHONHASHSEED="0", PYTHONPATH=_repo_root() + os.pathsep + ROOT, JAX_PLATFORMS="cpu", TF_CPP_MIN_LOG_LEVEL="3")
    env["XLA_FLAGS"] = env.get("XLA_FLAGS", "") + " --xla_cpu_multi_thread_eigen=false"
    env.setdefault("OMP_NUM_THREADS", "2")
    last = None
    for k in range(attempts):  # a jitted policy probe was seen to hang under heavy load (see sweep._run_worker); runs are deterministic
        try:
            p = subprocess.run([sys.executable, "-m", "harness.extras.x06_worker", ",".join(names), tier, str(seed), out], env=env, cwd=ROOT,
                               capture_output=True, text=True, timeout=timeout * (k + 1))
        except subprocess.TimeoutExpired as e:
            last = e
            continue
        if p.returncode != 0 or not os.path.exists(out):
            raise tlc.MachineryError(f"X06 worker {names} failed: {p.stderr[-1500:]}")
        return out
    raise tlc.MachineryError(f"X06 worker {names} timed out {attempts} times: {last}")


def record(tier, seed, procs=8):
    """-> list of recorded runs (x06_worker.py).  Cached (key: repository + adapters + recorder content, tier, seed)."""
    d = os.path.join(CACHE, _cache_key(tier, seed))
    os.makedirs(d, exist_ok=True)
    lock = open(os.path.join(d, ".lock"), "w")
    fcntl.flock(lock, fcntl.LOCK_EX)
    try:
        groups = x06_cfg.GROUPS[tier]
        paths = [os.path.join(d, f"g{i}.json") for i in range(len(groups))]
        todo = [(g, p) for g, p in zip(groups, paths) if not os.path.exists(p)]
        if todo:
            with ThreadPoolExecutor(max_workers=procs) as ex:
                for f in [ex.submit(_worker, g, tier, seed, p) for g, p in todo]:
                    f.result()
        runs = []
        for p in paths:
            with open(p) as f:
                runs += json.load(f)
        return runs
    finally:
        fcntl.flock(lock, fcntl.LOCK_UN)
        lock.close()
        try:
            ds = sorted((os.path.getmtime(os.path.join(CACHE, x)), x) for x in os.listdir(CACHE))
            for mt, x in ds[:-6]:
                if time.time() - mt > 7200:
                    shutil.rmtree(os.path.join(CACHE, x), ignore_errors=True)
        except OSError:
            pass


# ------------------------------------------------------------------ projection
def _keys_of(e):
    ks = [e["k"]] if e.get("k") else []
    ks += e.get("children", [])
    if e.get("child"):
        ks.append(e["child"])
    return ks


def _judged(e):
    # generators the harness builds for its own objects (stub networks, scripted tables) are no behaviour of rl_blox
    return not (e["origin"] == "harness" and e["op"] == "root" and e["kind"] in ("nnx", "numpy"))


def _sig(e):
    f = [e["op"], e["site"], e.get("k", ""), e.get("children", []), e.get("child", ""), e.get("data", -1), e.get("seed", -1), e.get("kind", "")]
    return hashlib.sha1(json.dumps(f).encode()).hexdigest()[:12]


def project_events(events, table):
    out = []
    for e in events:
        if not _judged(e):
            continue
        for d in _keys_of(e):
            table.setdefault(d, len(table) + 1)
        ch = e.get("children", []) if e["op"] == "split" else ([e["child"]] if e["op"] == "fold" else [])
        out.append(dict(op=e["op"], k=table[e["k"]] if e.get("k") else 0, ch=[table[c] for c in ch], data=int(e.get("data", -1)), site=e["site"],
                        seed=int(e.get("seed", -1)), kind=e.get("kind", ""), sig=_sig(e)))
    return out


def tla_cfg(routine, seed, foreign=()):
    c = x06_cfg.key_cfg(routine)
    return dict(seed=int(seed), span=0 if c["seed_rule"] == "exact" else SPAN, loops=c["loops"],
                allow=[dict(name=a[0], clauses=a[1], a=a[2], b=a[3]) for a in c["allow"]], foreign=sorted(foreign))


def normalise(runs):
    """recorded runs -> traces for KeyDisciplineTrace.  Every recorded run but the same-seed repetitions `b` is a trace; the
    reference run `a` of a scenario carries the signatures of its repetition as twin; the first trace of a routine carries the
    keys of all runs of that routine with a different seed as foreign keys (one digest table per routine)."""
    by = {}
    for r in runs:
        by.setdefault(r["routine"], []).append(r)
    out = []
    for routine, rs in sorted(by.items()):
        table = {}
        # a scheduler derives the seeds of its inner calls as seed + global_step: runs whose seeds are closer than the run is long
        # share inner roots by construction and are not compared
        span = SPAN if x06_cfg.key_cfg(routine)["seed_rule"] == "plus_steps" else 0
        rs = sorted(rs, key=lambda r: (r["label"], r["run"]))
        proj = {(r["label"], r["run"]): project_events(r["events"], table) for r in rs}
        first = True
        for r in rs:
            if r["run"] == "b":
                continue
            ev = proj[(r["label"], r["run"])]
            twin = [x["sig"] for x in proj[(r["label"], "b")]] if r["run"] == "a" and (r["label"], "b") in proj else []
            foreign = set()
            others = [o for o in rs if abs(o["seed"] - r["seed"]) > span] if first else []
            for o in others:
                foreign |= {k for x in proj[(o["label"], o["run"])] for k in [x["k"]] + x["ch"] if k}
            out.append(dict(id=r["id"], routine=routine, label=r["label"], run=r["run"], error=r["error"], steps=r["steps"], cfg=tla_cfg(routine, r["seed"], foreign), events=ev, twin=twin,
                            has_twin=bool(twin) or (r["label"], "b") in proj and r["run"] == "a", has_foreign=bool(others)))
            first = False
    return out


# ------------------------------------------------------------------ TLC runs
DUMMY = dict(MaxIter=1, MaxCalls=1, Seeds={0}, DEV="none")


def _tmp(name):
    d = os.path.join(tlc.OUT, "tmp")
    os.makedirs(d, exist_ok=True)
    return os.path.join(d, f"{name}-{os.getpid()}-{uuid.uuid4().hex[:8]}.json")


def validate(norm, tag="x06trace", timeout=900):
    """-> {trace id: dict(keys, roots, splits, folds, consumed, twin, reused, noreuse, fromseed, odd=[..], viol=[(pos, clause, a, b), ..])}, TlcResult"""
    path = _tmp(tag)
    with open(path, "w") as f:
        json.dump([{k: t[k] for k in ("id", "cfg", "events", "twin")} for t in norm], f)
    try:
        r = tlc.run("KeyDisciplineTrace", tlc.cfg_text(init="TInit", next="TNext", constants=DUMMY, constraints=["Verdict"]), workers=1,
                    env={"TRACE_FILE": path}, tag=tag, timeout=timeout)
    finally:
        os.remove(path)
    out = {}
    for line in r.stdout.splitlines():
        if line.startswith('<<"VERDICT", "'):
            d = json.loads(json.loads(line[len('<<"VERDICT", '):-2]))
            d["viol"] = sorted((int(a), b, c, e) for a, b, c, e in d["viol"])
            d["odd"] = sorted(tuple(x) for x in d["odd"])
            out[d.pop("id")] = d
    missing = [t["id"] for t in norm if t["id"] not in out]
    if missing:
        raise tlc.MachineryError(f"KeyDisciplineTrace gave no verdict for traces {missing}: {r.stdout[-2500:]}")
    return out, r


def _design_run(consts, invariants, properties=(), workers=1, coverage=False, tag="x06design"):
    return tlc.run("KeyDiscipline", tlc.cfg_text(constants=consts, invariants=invariants, properties=properties), workers=workers, coverage=coverage, tag=tag, timeout=900)


def design_constants(tier):
    runs = [("one call, 3 iterations, seeds 0 and 1", dict(MaxIter=3, MaxCalls=1, Seeds={0, 1}, DEV="none")),
            ("scheduler: two calls of 2 iterations", dict(MaxIter=2, MaxCalls=2, Seeds={1}, DEV="none"))]
    if tier == "thorough":
        runs += [("two calls of 3 iterations, seed 2", dict(MaxIter=3, MaxCalls=2, Seeds={2}, DEV="none"))]
    return runs


# ------------------------------------------------------------------ binding canaries
def _nth(t, pred, nth):
    hits = [i for i, e in enumerate(t["events"]) if pred(e)]
    return hits[min(nth, len(hits) - 1)]


def _loop_split(t):
    return lambda e: e["op"] == "split" and e["site"] in t["cfg"]["loops"]


def _c_rebind(t):  # the re-binding of the carried key is lost: the loop splits the key of the previous iteration again
    hits = [i for i, e in enumerate(t["events"]) if _loop_split(t)(e)]
    t["events"][hits[3]]["k"] = t["events"][hits[2]]["k"]


def _c_consume_twice(t):  # one sub-key is drawn from a second time
    i = _nth(t, lambda e: e["op"] == "consume", 2)
    t["events"].insert(i + 1, dict(t["events"][i], site=t["events"][i]["site"] + ":again"))


def _c_parent_consumed(t):  # a sampler draws from the key that was split (`key` instead of `subkey`)
    i = _nth(t, lambda e: e["op"] == "consume", 2)
    j = max(x for x in range(i) if t["events"][x]["op"] == "split")
    t["events"][i]["k"] = t["events"][j]["k"]


def _c_root_seed(t):  # the key is created from another seed
    i = _nth(t, lambda e: e["op"] == "root" and e["kind"] in ("key", "PRNGKey"), 0)
    t["events"][i]["seed"] += 1


def _c_rng_seed(t):  # the numpy generator is not seeded with `seed`
    i = _nth(t, lambda e: e["op"] == "root" and e["kind"] == "numpy", 0)
    t["events"][i]["seed"] = 12345


def _c_drop_split(t):  # a split is not recorded: its children come from nowhere
    i = _nth(t, _loop_split(t), 2)
    del t["events"][i]


def _c_twin(t):  # the second run with the same seed used another key at one operation
    t["twin"][len(t["twin"]) // 2] = "0" * 12


def _c_twin_short(t):  # the second run performed fewer operations
    del t["twin"][-1]


def _c_foreign(t):  # a key of this run occurs in the run with a different seed
    i = _nth(t, lambda e: e["op"] == "split", 1)
    t["cfg"]["foreign"] = sorted(set(t["cfg"]["foreign"]) | {t["events"][i]["ch"][0]})


def _c_unlisted_pair(t):  # a listed deviation at another site is not excused
    t["cfg"]["allow"] = [dict(a, a=[x + ":elsewhere" for x in a["a"]]) for a in t["cfg"]["allow"]]


CORRUPTIONS = [("ddpg", "rebind", _c_rebind, "SplitTwice"), ("ddpg", "rebind", _c_rebind, "LoopKeyRepeated"), ("td3", "consume_twice", _c_consume_twice, "ConsumeTwice"),
               ("sac", "parent_consumed", _c_parent_consumed, "SplitAndConsume"), ("td7", "root_seed", _c_root_seed, "RootSeed"), ("mrq", "rng_seed", _c_rng_seed, "RootSeed"),
               ("ppo", "drop_split", _c_drop_split, "UnknownKey"), ("reinforce", "drop_split", _c_drop_split, "LoopKeyNotThreaded"), ("dqn", "twin", _c_twin, "TwinDiverges"),
               ("sac", "twin_short", _c_twin_short, "TwinDiverges"), ("ddpg", "foreign", _c_foreign, "SharedAcrossSeeds"), ("q_learning", "unlisted_pair", _c_unlisted_pair, "ConsumeTwice"),
               ("pets", "unlisted_pair", _c_unlisted_pair, "RootTwice")]


def corruptions(norm):
    by = {}
    for t in norm:
        if not t["error"] and t["label"] == "A" and t["run"] == "a":
            by.setdefault(t["routine"], t)
    out = []
    for rname, name, fn, clause in CORRUPTIONS:
        if rname not in by:
            continue
        b = copy.deepcopy(by[rname])
        b["id"], b["base"] = f"canary:{rname}:{name}:{clause}", by[rname]["id"]
        try:
            fn(b)
        except Exception:  # noqa: BLE001  (the trace has no such event: judged by the count below)
            continue
        out.append((b, clause))
    return out


# ------------------------------------------------------------------ run
def _key(routine, clause, a, b):
    sites = sorted({a, b})
    return f"{routine}:{clause}:{'+'.join(sites)}"


def run(rep):
    t0 = time.time()
    tlc.sany("KeyDiscipline")
    tlc.sany("KeyDisciplineTrace")
    w = max(1, min(4, WORKERS))
    devs = DEVIATIONS if rep.tier == "thorough" else [d for d in DEVIATIONS if d[0] in QUICK_DEVS]
    base = dict(MaxIter=2, MaxCalls=2, Seeds={1}, DEV="none")
    with ThreadPoolExecutor(max_workers=4) as ex:
        loaded = ex.submit(record, rep.tier, rep.seed)
        designs = [(name, ex.submit(_design_run, consts, INVS, ["ThreadedLoopStep"], w, True)) for name, consts in design_constants(rep.tier)]
        dev_runs = [(dev, inv, ex.submit(_design_run, dict(base, DEV=dev), [] if inv == "ThreadedLoopStep" else [inv], [inv] if inv == "ThreadedLoopStep" else [], 1, False, "x06dev"))
                    for dev, inv in devs]
        # a deviation must be refuted for the stated reason only: the observer's bookkeeping keeps agreeing with the ledger
        agree = [(dev, ex.submit(_design_run, dict(base, DEV=dev), ["ObserverAgrees"], [], 1, False, "x06agree")) for dev in ("ConsumeTwice", "TwoRootsSameSeed")]
        wits = [(inv, ex.submit(_design_run, base, [inv], [], 1, False, "x06wit")) for inv in WITNESSES]
        for name, f in designs:
            r = f.result()
            rep.add_tlc(r, f"KeyDiscipline design model: {name}")
            if not r.ok:
                rep.violation(f"spec:KeyDiscipline:{r.violated}", f"design-level violation of {r.violated} ({name})", r.error_trace[:3000])
            else:
                tlc.require_covered(r, [a for a in ACTIONS if a != "NextCall" or "two calls" in name])
        for dev, inv, f in dev_runs:
            r = f.result()
            if not r.violated or inv not in r.violated:
                raise tlc.MachineryError(f"canary: deviation {dev} not refuted by {inv} (TLC says {r.violated})")
        for dev, f in agree:
            if not f.result().ok:
                raise tlc.MachineryError(f"canary: under deviation {dev} the clause bookkeeping disagrees with the ledger")
        for inv, f in wits:
            if f.result().violated != inv:
                raise tlc.MachineryError(f"vacuity: the design model never reaches the situation {inv}")
        runs = loaded.result()
    t_loaded = time.time()

    # -- trace validation: real runs + corrupted copies in one TLC run
    norm = normalise(runs)
    corr = corruptions(norm)
    out, r = validate(norm + [c for c, _ in corr])
    rep.add_tlc(r, "KeyDisciplineTrace batched trace validation")
    per, n_ops, n_keys = {}, 0, 0
    observed_odd = {}
    for t in norm:
        v = out[t["id"]]
        rname = t["routine"]
        n_ops += len(t["events"])
        n_keys += v["keys"]
        pr = per.setdefault(rname, dict(traces=0, operations=0, keys=0, roots=0, splits=0, consumed=0, twin_operations=0, env_steps=0, modelled_deviations=[]))
        pr["traces"] += 1
        pr["operations"] += len(t["events"])
        pr["env_steps"] += t["steps"]
        for k2 in ("keys", "roots", "splits", "consumed"):
            pr[k2] += v[k2]
        pr["twin_operations"] += v["twin"]
        for name, clause, a, b in v["odd"]:
            tag = f"{name}: {clause} {a} / {b}"
            if tag not in pr["modelled_deviations"]:
                pr["modelled_deviations"].append(tag)
            observed_odd.setdefault(name, set()).add(rname)
        seen = set()
        for pos, clause, a, b in v["viol"]:
            key = _key(rname, clause, a, b)
            if key in seen:
                continue
            seen.add(key)
            e = t["events"][pos - 1] if pos <= len(t["events"]) else {"op": "end of trace"}
            rep.violation(key, f"{t['id']} operation {pos}: clause {clause} fails at {e.get('op')} {e.get('site', '')} (earlier use: {a}); seed {t['cfg']['seed']}"[:700],
                          {"kind": "x06", "routine": rname, "label": t["label"], "run": t["run"], "position": pos, "clause": clause, "sites": [a, b], "tier": rep.tier, "seed": rep.seed})
        if t["error"]:
            rep.violation(f"{rname}:raised", f"{t['id']}: the routine raised {t['error']}", {"kind": "x06", "routine": rname, "label": t["label"], "run": t["run"], "clause": "raised", "tier": rep.tier, "seed": rep.seed})
        # the structural statement on the final ledger (TLC) must agree with the clauses collected on the way
        reuse = [x for x in list(v["viol"]) + [(0,) + tuple(o[1:]) for o in v["odd"]] if x[1] in REUSE_CLAUSES]
        if v["noreuse"] != (not reuse):
            raise tlc.MachineryError(f"{t['id']}: NoKeyReused on the final ledger is {v['noreuse']} but the clauses collected are {reuse[:3]}")
        if not v["fromseed"] and not [x for x in list(v["viol"]) if x[1] in ("RootSeed", "UnknownKey")]:
            raise tlc.MachineryError(f"{t['id']}: UsedKeysFromSeed fails on the final ledger but no RootSeed / UnknownKey clause was collected")

    # a corruption only counts when the trace it was derived from is accepted
    counted = 0
    for c, clause in corr:
        if out[c["base"]]["viol"]:
            continue
        counted += 1
        got = {x[1] for x in out[c["id"]]["viol"]}
        if clause not in got:
            raise tlc.MachineryError(f"binding canary {c['id']}: corrupted trace not rejected by clause {clause} (got {sorted(got)})")
    if counted < 5 and not rep.violations:
        raise tlc.MachineryError(f"binding canaries: only {counted} could be judged")

    if not rep.violations:
        # non-vacuity: every routine of the tier was recorded and performed key operations, the same-seed runs were consumed
        # completely, the different-seed runs had keys to be disjoint from
        names = x06_cfg.QUICK if rep.tier == "quick" else x06_cfg.THOROUGH
        for n in names:
            c = x06_cfg.key_cfg(n)
            ta = [t for t in norm if t["routine"] == n and t["label"] in ("A", "B") and t["run"] == "a"]
            if not ta:
                raise tlc.MachineryError(f"vacuous run: no recording of routine {n}")
            t = ta[0]
            v = out[t["id"]]
            if t["label"] == "A" and (v["splits"] < c["min_splits"] or v["consumed"] < c["min_consumed"] or v["roots"] < 1):
                raise tlc.MachineryError(f"vacuous run: {t['id']} recorded {v['splits']} splits / {v['consumed']} consumptions / {v['roots']} roots")
            if t["has_twin"] and v["twin"] != len(t["events"]):
                raise tlc.MachineryError(f"vacuous run: {t['id']} twin consumed {v['twin']} of {len(t['events'])}")
            if n != "pets_eager" and not t["has_foreign"]:
                raise tlc.MachineryError(f"vacuous run: {t['id']} has no run with a different seed to compare with")
            if t["has_foreign"] and len(t["cfg"]["foreign"]) < 2:
                raise tlc.MachineryError(f"vacuous run: {t['id']} has no keys of a different-seed run to compare with")
    rep.traces = len(norm)
    rep.evaluations = n_ops
    rep.distinct = n_keys
    rep.rule = ("one case = one key of a real training run (a root made from the seed or a key derived by split / fold_in), judged by the observer of KeyDiscipline over all "
                "operations recorded on it (split / consumed by a sampler or a jitted function / folded) with their call sites; runs: every routine of the tier on scenario A "
                "(twice with seed s; thorough: once more with s + 100) and scenario B (seed 0); non-trivial: every routine performs at least its documented minimum of splits and "
                "consumptions, the same-seed run is consumed operation by operation, the different-seed run contributes keys that must not occur")
    rep.exhaustive = False
    rep.extra["per_routine"] = per
    rep.extra["binding_canaries"] = [c["id"] for c, cl in corr]
    rep.extra["spec_canaries"] = [f"{d} refuted by {i}" for d, i in devs]
    rep.extra["witnesses"] = WITNESSES
    rep.extra["oddities_of_the_unchanged_code_modelled_as_named_deviations"] = [" | ".join(o) for o in x06_cfg.ODDITIES]
    rep.extra["named_deviations_observed"] = {k: sorted(v) for k, v in sorted(observed_odd.items())}
    rep.extra["wall_split_s"] = {"recording_or_cache_and_design": round(t_loaded - t0, 1), "trace_validation": round(time.time() - t_loaded, 1)}
    for rname in ("ddpg", "sac", "pets", "q_learning"):
        for t in norm:
            if t["routine"] == rname and t["run"] == "a":
                i = next((j for j, e in enumerate(t["events"]) if e["op"] == "split"), None)
                if i is not None:
                    e = t["events"][i]
                    rep.sample({"trace": t["id"], "position": i + 1, "op": e["op"], "site": e["site"], "key": e["k"], "children": e["ch"], "verdict_odd": [list(x) for x in out[t["id"]]["odd"]][:2]})
                break
    rep.assumptions += [
        "only concrete keys are observable: a jitted function of rl_blox that receives keys counts as ONE use of each key (what it does with them inside is not seen); the planner of PE-TS is therefore also run eagerly (documented fall-back of train_pets) with two CEM iterations",
        "key digests are the 64-bit threefry key data; distinct keys with equal digests do not occur in practice",
        "sites are <module>.<function>:<operation> of the nearest calling frame in rl_blox; two textual call sites of one operation in one function share a site",
        "generators the adapters build for their own stub networks / tables (origin harness) are not judged; the nnx.Rngs stream's internal fold_in and flax / jax initialisers are library-internal and not judged",
        "per-routine configuration (harness/extras/x06_cfg.py) is derived from the code; reuse that the unchanged code performs is listed per routine and pair of sites under a name and reported, any other reuse is a deviation",
        "schedulers (active_mt, smt, uts) document seed + global_step for their inner calls: root seeds in [seed, seed + 64] are accepted for them",
    ]


def replay(path, rep):
    with open(path) as f:
        doc = json.load(f)
    r = doc.get("replay") or {}
    if not isinstance(r, dict) or "routine" not in r:
        print("design-level finding, nothing to replay against the code:", doc.get("what"))
        return 1
    d = os.path.join(tlc.OUT, "tmp", f"x06replay-{os.getpid()}")
    os.makedirs(d, exist_ok=True)
    try:
        with open(_worker([r["routine"]], r.get("tier", "quick"), int(r.get("seed", 0)), os.path.join(d, "r.json"))) as f:
            runs = json.load(f)
    finally:
        shutil.rmtree(d, ignore_errors=True)
    norm = [t for t in normalise(runs) if t["label"] == r.get("label") and t["run"] == r.get("run", "a")]
    out, _ = validate(norm, tag="x06replay")
    bad = False
    for t in norm:
        v = out[t["id"]]
        keys = sorted({_key(t["routine"], c, a, b) for _, c, a, b in v["viol"]})
        print(t["id"], "operations", len(t["events"]), "keys", v["keys"], "failing:", keys, "named deviations:", sorted({x[0] for x in v["odd"]}), "error:", t["error"])
        bad = bad or doc.get("key") in keys or (r.get("clause") == "raised" and bool(t["error"]))
    if bad:
        print(f"EXTRA-DEVIATION spec={rep.pid} replay={path}")
        return 1
    return 0
