"""X04 - task selection, task sets and task embeddings (spec/TaskEmbed.tla, spec/TaskEmbedTrace.tla).

No listed property states this behaviour.  Five small machines in one module (constant Part):

  renorm   embedding_renorm as a function on tables whose rows have rational norms (exact rationals from TLC)
  concat   concatenate_embedding on tagged entries
  net      MTMLPQNetwork / ModelBasedMTEncoder / create_mt_mrq_state(...).policy_with_encoder as state machines
           (SelectTask, Forward, TrainStep; two components per graph: a network and its nnx.clone, or two classes)
  taskset  DiscreteTaskSet: get_task configures ONE shared base environment
  switch   what train_smt / train_active_mt / train_uts tell the task-conditioned components before train_st

spec -> code: TLC prints one EMIT record per transition / test vector; every transition of the net and taskset state
graphs is replayed into the real objects (graph.cover), every renorm / concat vector into the real functions.
code -> spec: the REAL schedulers run with a stub learner that records every component's task id and the embedding
row its forward pass really used; TaskEmbedTrace.tla follows the recording with the Switch action.
"""
from __future__ import annotations

import concurrent.futures as cf
import copy
import json
import os
import time

import numpy as np

from .. import exact, graph, tlc
from ..graph import Mismatch

TITLE = "task selection, task sets and task embeddings"
LEVEL = "model_checking"
MANIFEST = dict(
    category="model_checking",
    text="TLC checks the invariants and action properties of spec/TaskEmbed.tla (embedding_renorm: bounded / short rows unchanged / direction / row-wise / idempotent; concatenate_embedding: x then e, broadcast over the batch; task-selecting networks: select_task sets the task and renormalises the whole table, the forward pass is the base network on concat(x, row of the current task) and reads no other row, components are isolated; DiscreteTaskSet: the latest handle is configured, all handles share the base environment; task switch: all listed components and the replay buffer agree with the environment) on complete small state graphs and refutes ten wrong variants. Every transition of the net / taskset graphs and every renorm / concat vector is replayed into MTMLPQNetwork, ModelBasedMTEncoder, create_mt_mrq_state, DiscreteTaskSet, embedding_renorm and concatenate_embedding with expected values printed by TLC (exact rationals; outputs compared bit for bit with the real sub-modules applied to the harness's own concatenation); recordings of the real train_smt / train_active_mt / train_uts with a stub learner are validated by TaskEmbedTrace.tla.",
    note="small scope: <= 3 tasks, embedding dimension 2 (3 in the renorm lattice), <= 3 state-changing calls per behaviour, hidden sizes 2-3; renormalisation in the state machines only on rows where float32 is exact; trusted: harness/extras/x04_bind.py projection, TLC",
    technique="TLA+ spec + TLC (invariants, action properties, deviation canaries); transition-coverage replay of the TLC state graph into the real objects; trace validation of recorded scheduler runs",
)
W = max(1, min(int(os.environ.get("VERIF_TLC_WORKERS", "8")), 8))

REN = ["RenormBounded", "RenormShortUnchanged", "RenormScaledToMax", "RenormDirection", "RenormShape", "RenormRowwise", "RenormIdempotent"]
CON = ["ConcatPrefixIsX", "ConcatSuffixIsE", "ConcatShape"]
NETI = ["NetTypeOK", "SelectedIsCurrent", "SelectRenormsWholeTable", "LongOnlyIfDirty", "RenAtMaxNorm", "ForwardRowIsCurrent", "ForwardUsesCurrentRowOnly"]
NETP = ["ComponentIsolation", "ForwardFrame", "TrainStepFrame"]
TSI = ["LatestHandleConfigured", "HandlesShareBase"]
TSP = ["PrefixKept"]
SWI = ["AllAgree"]
SWP = ["UnlistedKeeps", "UtsInformsNobody"]

CLS = {"q": "MTMLPQNetwork", "enc": "ModelBasedMTEncoder", "pwe": "create_mt_mrq_state"}


def C(**kw):
    c = dict(Part="net", Variant="code", NT=2, MaxNormNum=1, MaxNormDen=1, Bound=2, Wide=False, Aware=True, EMIT=False)
    c.update(kw)
    return c


# (name, constants, invariants, properties, what must be reported) - wrong variants TLC must refute
CANARIES = [
    ("renorm scales to max_norm**2", C(Part="renorm", Variant="squared"), REN, [], "Renorm"),
    ("one scale for the whole table", C(Part="renorm", Variant="global"), REN, [], "Renorm"),
    ("embedding in front of x", C(Part="concat", Variant="swapped"), CON, [], "ConcatPrefixIsX"),
    ("select_task renormalises row k only", C(Variant="onlyrow", Bound=3), NETI, NETP, "SelectRenormsWholeTable"),
    ("task_embedding looks up row 0", C(Variant="row0", Bound=3), NETI, NETP, "ForwardRowIsCurrent"),
    ("one task id shared by all components", C(Variant="shared", Bound=3), NETI, NETP, "ComponentIsolation"),
    ("get_task does not call set_context", C(Part="taskset", NT=3, Bound=3, Variant="noconfigure"), TSI, TSP, "LatestHandleConfigured"),
    ("one environment per handle", C(Part="taskset", NT=3, Bound=3, Variant="fresh"), TSI, TSP, "HandlesShareBase"),
    ("only task_selectables[0] is told", C(Part="switch", NT=3, Bound=3, Variant="firstonly"), SWI, SWP, "AllAgree"),
    ("replay buffer not told", C(Part="switch", NT=3, Bound=3, Variant="nobuffer"), SWI, SWP, "AllAgree"),
]
# statements a reader of the documentation might expect and the code does NOT satisfy: TLC must find the
# counterexample in the model of the code (otherwise the model lost the named deviation)
WITNESSES = [
    ("ForwardUnbounded", C(Bound=3), "ForwardRowBounded"),
    ("SelectTaskWraps/OutOfRange", C(Bound=3), "CurrentIsValid"),
    ("StaleHandleFollowsBase", C(Part="taskset", NT=3, Bound=3), "HandleKeepsItsTask"),
    ("UnlistedKeeps/UtsInformsNobody", C(Part="switch", NT=3, Bound=3), "EveryComponentFollows"),
]


class Jobs:
    """TLC runs in parallel threads (each is its own JVM); results by name."""

    def __init__(self, par):
        self.ex = cf.ThreadPoolExecutor(max_workers=par)
        self.f = {}

    def add(self, name, constants, invariants=(), properties=(), emit=False, module="TaskEmbed", coverage=False, **kw):
        c = dict(constants)
        c["EMIT"] = bool(emit)
        cfg = tlc.cfg_text(constants=c, invariants=invariants, properties=properties, view="GenView" if emit else None, **kw.pop("cfg", {}))
        self.f[name] = self.ex.submit(tlc.run, module, cfg, workers=1 if emit else W, coverage=coverage, tag="x04-" + "".join(ch if ch.isalnum() else "_" for ch in name)[:28],
                                      timeout=1500, **kw)

    def get(self, name):
        return self.f[name].result()

    def close(self):
        self.ex.shutdown(wait=False, cancel_futures=True)


# ------------------------------------------------------------------ part "renorm"
_EMB = {}


def renorm_case(args, exp):
    """-> list of (code, what).  One real embedding_renorm call (two where the model says the float result is exact)."""
    import jax.numpy as jnp
    from flax import nnx
    from rl_blox.blox.embedding.task_embedding import embedding_renorm

    from .x04_bind import arr, bits

    rows = arr(args["rows"])
    m = float(exact.q(args["max_norm"]))
    if rows.shape not in _EMB:
        _EMB[rows.shape] = nnx.Embed(num_embeddings=rows.shape[0], features=rows.shape[1], rngs=nnx.Rngs(0))
    emb = _EMB[rows.shape]
    emb.embedding.value = jnp.asarray(rows)
    try:
        embedding_renorm(emb, m)
    except Exception as e:
        return [("exception", f"embedding_renorm raised {type(e).__name__}: {str(e)[:120]}")]
    out = np.asarray(emb.embedding.value)
    bad = []
    if list(out.shape) != list(exp["shape"]) or out.dtype != np.float32:
        return [("shape", f"result has shape {out.shape} / dtype {out.dtype}, model {exp['shape']} float32")]
    all_exact = True
    for i, r in enumerate(exp["rows"]):
        if not r["scaled"]:
            if not np.array_equal(bits(out[i]), bits(rows[i])):
                bad.append(("short_row_changed", f"row {i} = {rows[i]} (norm <= max_norm {m}) came back as {out[i]}: must be returned bit for bit"))
            continue
        all_exact = all_exact and r["ulps"] == 0
        for j, v in enumerate(r["v"]):
            if not exact.eq(out[i][j], v, ulps=r["ulps"]):
                bad.append(("scaled_row_value", f"row {i} = {rows[i]} with max_norm {m}: component {j} = {out[i][j]!r}, model {exact.q(v)} = "
                            f"{float(exact.q(v))!r} (within {r['ulps']} ulp)"))
                break
    if not bad and all_exact:
        embedding_renorm(emb, m)
        if not np.array_equal(bits(np.asarray(emb.embedding.value)), bits(out)):
            bad.append(("not_idempotent", f"a second embedding_renorm changed the table again: {out} -> {np.asarray(emb.embedding.value)}"))
    return bad


def concat_case(args, exp):
    import jax.numpy as jnp
    from rl_blox.blox.embedding.task_embedding import concatenate_embedding

    f, e, b, kind = args["f"], args["e"], args["b"], args["kind"]
    xt = lambda bb: [10 * bb + i for i in range(1, f + 1)]  # noqa: E731  (the tag coding of the spec: XTag / ETag)
    if kind == "vec":
        x = np.array(xt(0), dtype=np.float32)
    elif kind == "batch":
        x = np.array([xt(bb) for bb in range(1, b + 1)], dtype=np.float32)
    else:
        x = np.array([[xt(bb) for bb in range(1, b + 1)]] * 2, dtype=np.float32)
    emb = np.array([[100 + j for j in range(1, e + 1)]], dtype=np.float32)  # shape (1, E) as nnx.Embed returns it for one id
    try:
        out = np.asarray(concatenate_embedding(jnp.asarray(x), jnp.asarray(emb)))
        status = "ok"
    except TypeError:
        status = "TypeError"
    except Exception as ex:
        status = type(ex).__name__
    if status != exp["status"]:
        return [("status", f"concatenate_embedding(x{list(x.shape)}, e{list(emb.shape)}) -> {status}, model {exp['status']}")]
    if status != "ok":
        return []
    want = np.array(exp["out"], dtype=np.float32)
    want = want[0] if kind == "vec" else want
    if list(out.shape) != list(exp["shape"]):
        return [("shape", f"concatenate_embedding(x{list(x.shape)}, e{list(emb.shape)}) has shape {out.shape}, model {exp['shape']}")]
    if not np.array_equal(out, want):
        return [("order", f"concatenate_embedding(x{list(x.shape)}, e{list(emb.shape)}) = {out.tolist()}, model {want.tolist()} (x first, then the embedding behind every row)")]
    return []


# ------------------------------------------------------------------ graphs
def net_configs(quick):
    """(name, constants, kinds, clone_b)"""
    n1 = C(NT=2, Bound=2)
    n2 = C(NT=3, MaxNormNum=5, MaxNormDen=4, Bound=2)
    if quick:
        return [("q+clone", n1, {"a": "q", "b": "q"}, True), ("enc+clone", n1, {"a": "enc", "b": "enc"}, True),
                ("pwe+q", C(NT=3, MaxNormNum=5, MaxNormDen=4, Bound=1), {"a": "pwe", "b": "q"}, False)]
    n3, n4 = C(NT=2, Bound=3), C(NT=2, Bound=2, Wide=True)
    return [("q+clone", n3, {"a": "q", "b": "q"}, True), ("q+clone/wide", n4, {"a": "q", "b": "q"}, True), ("q+clone/54", n2, {"a": "q", "b": "q"}, True),
            ("enc+clone", n4, {"a": "enc", "b": "enc"}, True), ("enc+q/54", n2, {"a": "enc", "b": "q"}, False),
            ("pwe+clone", n1, {"a": "pwe", "b": "pwe"}, True), ("pwe+q/54", n2, {"a": "pwe", "b": "q"}, False)]


def cname(c):
    return f"net NT={c['NT']} max_norm={c['MaxNormNum']}/{c['MaxNormDen']} B={c['Bound']}{' wide' if c['Wide'] else ''}"


def cover_net(G, consts, kinds, clone_b, seed, max_edges=None):
    from . import x04_bind as xb

    root = G.roots()[0]
    m = consts["MaxNormNum"] / consts["MaxNormDen"]
    init_tab = G.state[root]["tab"]
    return graph.cover(G, root, lambda: xb.NetPair(kinds, consts["NT"], m, seed, init_tab, clone_b), xb.net_step, xb.net_project,
                       clone=lambda ad: ad.clone(), max_edges=max_edges)


def contexts_of(G, nt):
    ctx = {}
    for es in G.out.values():
        for op, args, exp, _ in es:
            if op == "GetContext" and exp["status"] == "ok" and 0 <= args["i"] < nt:
                ctx[args["i"]] = [float(exact.q(v)) for v in exp["ctx"]]
    if sorted(ctx) != list(range(nt)):
        raise tlc.MachineryError("taskset graph does not define every context")
    return [ctx[i] for i in range(nt)]


def cover_taskset(G, nt, aware, as_list=False):
    from . import x04_bind as xb

    ctx = contexts_of(G, nt)
    return graph.cover(G, G.roots()[0], lambda: xb.TaskSetAd(ctx, aware, as_list), xb.ts_step, xb.ts_project, clone=copy.deepcopy)


# ------------------------------------------------------------------ switch traces
def scenarios(quick, seed):
    full, enc_only, none = {"encoder": True, "target": True}, {"encoder": True, "target": False}, {"encoder": False, "target": False}
    ret = [1.0, -1.0, 0.0]
    sc = [
        dict(id="smt/all-listed", sched="smt", nt=3, listed=full, returns=ret, T=10),
        dict(id="smt/example(target unlisted)", sched="smt", nt=3, listed=enc_only, returns=ret, T=8),
        dict(id="amt/all-listed", sched="amt", nt=3, listed=full, returns=ret, T=10, selector="Round Robin"),
        dict(id="amt/example(target unlisted, preset 2)", sched="amt", nt=3, listed=enc_only, returns=ret, T=8, preset={"target": 2}),
        dict(id="uts(preset encoder 1)", sched="uts", nt=3, listed=none, returns=ret, T=8, preset={"encoder": 1}),
    ]
    if not quick:
        sc += [
            dict(id="smt/none-listed", sched="smt", nt=3, listed=none, returns=[-1.0, -1.0, 1.0], T=14, preset={"encoder": 2, "target": 1}),
            dict(id="smt/all-listed/long", sched="smt", nt=3, listed=full, returns=[-1.0, 0.0, -1.0], T=24, ep_len=3),
            dict(id="amt/all-listed/ducb", sched="amt", nt=3, listed=full, returns=[0.5, 1.0, 0.25], T=24, selector="Monotonic Progress"),
            dict(id="amt/target-only", sched="amt", nt=3, listed={"encoder": False, "target": True}, returns=ret, T=12, selector="Best Reward"),
            dict(id="uts/long", sched="uts", nt=3, listed=none, returns=ret, T=24),
        ]
    for k, s in enumerate(sc):
        s["seed"] = seed + k
    return sc


def validate(traces, variant="code", tag="x04trace"):
    os.makedirs("/tmp/x04", exist_ok=True)
    path = f"/tmp/x04/{tag}-{os.getpid()}.json"
    with open(path, "w") as f:
        json.dump({"traces": [{"id": t["id"], "cfg": t["cfg"], "init": t["init"], "events": t["events"]} for t in traces]}, f)
    try:
        cfg = tlc.cfg_text(init="TraceInit", next="TraceNext", constants=C(Part="switch", Variant=variant, NT=3, Bound=100000))
        r = tlc.run("TaskEmbedTrace", cfg, workers=1, env={"TRACE_FILE": path}, tag=tag, timeout=600)
    finally:
        os.remove(path)
        try:
            os.rmdir("/tmp/x04")
        except OSError:
            pass
    by = {}
    for rec in r.emitted:
        by.setdefault(rec["tr"], {})[rec["i"]] = rec
    return r, by


def judge(traces, by):
    """-> [(key, what, replay)] for the traces (1-based index = position)"""
    out = []
    for n, t in enumerate(traces, start=1):
        name = {"smt": "train_smt", "amt": "train_active_mt", "uts": "train_uts"}[t["cfg"]["sched"]]
        if t.get("exception"):
            out.append((f"{name}:switch:exception", f"{t['id']}: {t['exception']}", {"part": "switch", "scenario": t["scenario"]}))
        for i, ev in enumerate(t["events"], start=1):
            rec = by.get(n, {}).get(i)
            if rec is None:
                out.append((f"{name}:switch:no_successor", f"{t['id']} call {i}: the environment handed to train_st is configured for task {ev['task']}; "
                            "no Switch step of the model matches", {"part": "switch", "scenario": t["scenario"], "event": i}))
                break
            if not rec["ok"]:
                bad = [c for c in ("agree", "keeps", "used", "model") if not rec["cl"][c]]
                out.append((f"{name}:switch:{bad[0]}", f"{t['id']} call {i} (environment: task {ev['task']}): components hold {ev['ids']}, forward passes used rows "
                            f"{ev['used']}; model {rec['exp']} - failing clause(s) {bad}", {"part": "switch", "scenario": t["scenario"], "event": i}))
                break
    return out


# ------------------------------------------------------------------ run
def run(rep):
    quick = rep.tier == "quick"
    t00 = time.time()
    tlc.sany("TaskEmbed")
    tlc.sany("TaskEmbedTrace")
    jobs = Jobs(par=4 if quick else 5)
    rb = C(Part="renorm", Bound=2) if quick else C(Part="renorm", Bound=3, Wide=True)
    nets = net_configs(quick)
    net_consts = {}
    for _, c, _, _ in nets:
        net_consts[cname(c)] = c
    ts_consts = {aw: C(Part="taskset", NT=3, Bound=3, Aware=aw) for aw in (True, False)}
    swc = C(Part="switch", NT=3, Bound=3 if quick else 4)
    # generation first (the bindings wait for it), then the property runs, canaries and witnesses
    for nm, c in net_consts.items():
        jobs.add("gen " + nm, c, emit=True)
    jobs.add("gen renorm", rb, emit=True)
    jobs.add("gen concat", C(Part="concat"), emit=True)
    for aw, c in ts_consts.items():
        jobs.add(f"gen taskset {aw}", c, emit=True)
    jobs.add("renorm", rb, REN, coverage=True)
    jobs.add("concat", C(Part="concat"), CON, coverage=True)
    for nm, c in net_consts.items():
        jobs.add(nm, c, NETI, NETP, coverage=True)
    for aw, c in ts_consts.items():
        jobs.add(f"taskset {aw}", c, TSI, TSP, coverage=True)
    jobs.add("switch", swc, SWI, SWP, coverage=True)
    for nm, c, iv, pr, _ in CANARIES:
        jobs.add("canary " + nm, c, iv, pr)
    for nm, c, inv in WITNESSES:
        jobs.add("witness " + nm, c, [inv])
    try:
        _run(rep, quick, jobs, rb, nets, ts_consts)
    finally:
        jobs.close()
    rep.extra["wall_s_total"] = round(time.time() - t00, 1)


def _run(rep, quick, jobs, rb, nets, ts_consts):
    from . import x04_bind as xb

    evaluations = distinct = 0
    # ---- code -> spec first: the real schedulers (imports JAX while TLC is busy)
    traces = []
    for sc in scenarios(quick, rep.seed):
        t = xb.record_switches(sc, sc["seed"])
        t["scenario"] = sc
        traces.append(t)
    # binding canaries: corrupted copies of every fully listed recording ride along; those of a recording the model
    # accepted must be rejected (on a broken tree there may be no accepted recording: nothing to corrupt then)
    extra, base_of = [], []
    for n, t in enumerate(traces):
        if all(t["cfg"]["listed"].values()) and t["cfg"]["sched"] != "uts" and len(t["events"]) >= 2:
            c1 = copy.deepcopy(t)
            c1["id"] = "canary: target id not switched"
            c1["events"][1]["ids"]["target"] = (c1["events"][1]["ids"]["target"] + 1) % 3
            c2 = copy.deepcopy(t)
            c2["id"] = "canary: forward pass used another row"
            c2["events"][0]["used"]["encoder"] = (c2["events"][0]["used"]["encoder"] + 1) % 3
            extra += [c1, c2]
            base_of += [n, n]
    r, by = validate(traces + extra)
    rep.add_tlc(r, "TaskEmbedTrace (recorded switches)")
    n_ev = sum(len(t["events"]) for t in traces)
    if any(len(t["events"]) == 0 and not t["exception"] for t in traces):
        raise tlc.MachineryError("a scheduler run recorded no train_st call")
    verdicts = judge(traces, by)
    for key, what, rp in verdicts:
        rep.violation(key, what, rp)
    rejected_ids = {v[1].split(" call ")[0] for v in verdicts}
    accepted = [n for n, t in enumerate(traces) if t["id"] not in rejected_ids and not t["exception"]]
    checked = 0
    for k, (cz, n) in enumerate(zip(extra, base_of)):
        if n not in accepted:
            continue
        v = judge([cz], {1: by.get(len(traces) + k + 1, {})})
        want = "agree" if "target id" in cz["id"] else "used"
        if not v or v[0][0].split(":")[-1] != want:
            raise tlc.MachineryError(f"binding canary: '{cz['id']}' of {traces[n]['id']} was not rejected by TaskEmbedTrace ({[x[0] for x in v]})")
        checked += 1
    if checked == 0 and not verdicts:
        raise tlc.MachineryError("no accepted recording to corrupt")
    rep.extra["trace_canaries_rejected"] = checked
    rep.traces += len(traces)
    evaluations += n_ev
    distinct += len({(t["cfg"]["sched"], json.dumps(t["cfg"]["listed"], sort_keys=True), e["task"], json.dumps(e["ids"], sort_keys=True)) for t in traces for e in t["events"]})
    rep.extra["switch_calls_recorded"] = n_ev
    if traces[1]["events"]:
        rep.sample({"recorded_switch": {"trace": traces[1]["id"], "init": traces[1]["init"], "event": traces[1]["events"][-1]}})

    # ---- renorm / concat vectors
    g = jobs.get("gen renorm")
    vecs = [e for e in g.emitted if e["op"] == "Renorm"]
    if len(vecs) < 100:
        raise tlc.MachineryError("renorm: too few vectors generated")
    n_scaled = n_round = 0
    for e in vecs:
        evaluations += 1
        sc_rows = [r for r in e["exp"]["rows"] if r["scaled"]]
        n_scaled += bool(sc_rows)
        n_round += any(r["ulps"] for r in sc_rows)
        for code, what in renorm_case(e["args"], e["exp"]):
            rep.violation(f"embedding_renorm:{code}", what, {"part": "renorm", "args": e["args"], "exp": e["exp"]})
    distinct += n_scaled
    rep.traces += len(vecs)
    rep.extra["renorm_vectors"] = {"all": len(vecs), "with_scaled_row": n_scaled, "with_rounded_row": n_round}
    e0 = next(e for e in vecs if any(r["scaled"] and r["ulps"] for r in e["exp"]["rows"]))
    rep.sample({"renorm": {"args": e0["args"], "exp": e0["exp"]}})
    # binding canary: a corrupted expected value must be noticed
    e1 = copy.deepcopy(next(e for e in vecs if any(r["scaled"] for r in e["exp"]["rows"])))
    r1 = next(r for r in e1["exp"]["rows"] if r["scaled"])
    k1 = next(k for k, v in enumerate(r1["v"]) if v[0] != 0)
    r1["v"][k1] = [r1["v"][k1][0] * 3, r1["v"][k1][1] * 2]
    if not renorm_case(e1["args"], e1["exp"]):
        raise tlc.MachineryError("binding canary: corrupted expected renorm value not noticed")
    g = jobs.get("gen concat")
    vecs = [e for e in g.emitted if e["op"] == "Concat"]
    if len(vecs) < 20 or not any(e["exp"]["status"] == "TypeError" for e in vecs):
        raise tlc.MachineryError("concat: vectors missing")
    for e in vecs:
        evaluations += 1
        for code, what in concat_case(e["args"], e["exp"]):
            rep.violation(f"concatenate_embedding:{code}", what, {"part": "concat", "args": e["args"], "exp": e["exp"]})
    distinct += len(vecs)
    rep.traces += len(vecs)

    # ---- net graphs
    graphs = {}
    first = True
    for name, c, kinds, clone_b in nets:
        nm = cname(c)
        if nm not in graphs:
            graphs[nm] = graph.Graph(jobs.get("gen " + nm).emitted)
        G = graphs[nm]
        ops = {e[0] for es in G.out.values() for e in es}
        if not {"SelectTask", "Forward", "TrainStep"} <= ops:
            raise tlc.MachineryError(f"{nm}: generated graph lacks actions ({ops})")
        t0 = time.time()
        res = cover_net(G, c, kinds, clone_b, rep.seed)
        rep.extra.setdefault("net_cover", []).append({"pair": name, "graph": nm, "edges": res["edges_tested"], "states": res["states_visited"], "wall_s": round(time.time() - t0, 1)})
        evaluations += res["edges_tested"]
        rep.traces += res["edges_tested"]
        for v in res["violations"]:
            st = v["path"][-1]
            comp = v["detail"].get("kind") or (kinds.get((st["args"] or {}).get("c", "a"), "q") if isinstance(st["args"], dict) else kinds["a"])
            opn = {"SelectTask": "select_task", "Forward": "forward", "TrainStep": "embedding_write", "<construct>": "__init__"}.get(st["op"], st["op"])
            rep.violation(f"{CLS[comp]}:{opn}:{v['code'].replace('initial:', '')}", f"{name} ({nm}): {v['what']}",
                          {"part": "net", "constants": c, "kinds": kinds, "clone_b": clone_b, "path": v["path"], "detail": v["detail"], "init_tab": G.state[G.roots()[0]]["tab"]})
        if first:
            first = False
            fe = next((k, e) for k, es in G.out.items() for e in es if e[0] == "Forward" and e[2]["status"] == "ok" and G.state[k]["calls"] > 0)
            rep.sample({"net_forward": {"pre": G.state[fe[0]], "exp": {k: fe[1][2][k] for k in ("row", "emb", "indep", "bounded")}}})
            # binding canary: the model's row replaced by another one must be noticed
            rk = G.roots()[0]
            op, args, exp, _ = next(e for e in G.out[rk] if e[0] == "Forward")
            bad = copy.deepcopy(exp)
            bad["row"] = (exp["row"] + 1) % c["NT"]
            noticed = False
            try:
                ad = xb.NetPair(kinds, c["NT"], c["MaxNormNum"] / c["MaxNormDen"], rep.seed, G.state[rk]["tab"], clone_b)
                xb.net_step(ad, op, args, bad, None, None)
            except Mismatch:
                noticed = True
            except Exception:
                noticed = bool(res["violations"])  # the code under test raises: reported above
            if not noticed:
                raise tlc.MachineryError("binding canary: forward pass accepted with the wrong embedding row")
    for nm, G in graphs.items():
        distinct += sum(1 for k, es in G.out.items() for e in es if G.state[k]["calls"] > 0)

    # ---- taskset graphs
    for aw, c in ts_consts.items():
        G = graph.Graph(jobs.get(f"gen taskset {aw}").emitted)
        for as_list in ([False] if quick else [False, True]):
            res = cover_taskset(G, c["NT"], aw, as_list)
            evaluations += res["edges_tested"]
            rep.traces += res["edges_tested"]
            for v in res["violations"]:
                st = v["path"][-1]
                opn = {"GetTask": "get_task", "Observe": "get_task:handle", "GetContext": "get_context", "Len": "__len__"}.get(st["op"], st["op"])
                rep.violation(f"DiscreteTaskSet:{opn}:{v['code']}", f"context_aware={aw}: {v['what']}",
                              {"part": "taskset", "aware": aw, "as_list": as_list, "nt": c["NT"], "contexts": contexts_of(G, c["NT"]), "path": v["path"], "detail": v["detail"]})
        distinct += sum(1 for k, es in G.out.items() for e in es if G.state[k]["handles"])
        if aw:
            se = next(e for es in G.out.values() for e in es if e[0] == "Observe" and e[2]["stale"])
            rep.sample({"stale_handle": {"args": se[1], "exp": se[2]}})
            noticed = False
            try:  # binding canary
                ad = xb.TaskSetAd(contexts_of(G, c["NT"]), True)
                ad.handles.append(ad.ts.get_task(1))
                xb.ts_step(ad, "Observe", {"h": 1}, {"obs": [[1, 2], [-1, 1], [1, 2], [-1, 1]], "stale": False}, None, None)
            except Mismatch:
                noticed = True
            except Exception:
                noticed = bool(rep.violations)
            if not noticed:
                raise tlc.MachineryError("binding canary: wrong observation accepted")

    # ---- model side: properties, canaries, witnesses
    need = {"renorm": ["Renorm", "AddRow"], "concat": ["Concat", "ConcatUnbatchedDim1", "ConcatRank3"], "switch": ["Switch"]}
    names = ["renorm", "concat", "switch"] + sorted({cname(c) for _, c, _, _ in nets}) + [f"taskset {aw}" for aw in ts_consts]
    for nm in names:
        r = jobs.get(nm)
        rep.add_tlc(r, nm)
        if not r.ok:
            rep.violation(f"spec:TaskEmbed:{r.violated}", f"design-level violation of {r.violated} in {nm}", r.error_trace)
            continue
        tlc.require_covered(r, need.get(nm, ["SelectTask", "Forward", "TrainStep"] if nm.startswith("net") else ["GetTask", "Observe", "GetContext"]))
    for nm, _, _, _, must in CANARIES:
        r = jobs.get("canary " + nm)
        if not (r.violated and must in r.violated):
            raise tlc.MachineryError(f"canary '{nm}' not refuted (expected {must}, got {r.violated})")
    for nm, _, inv in WITNESSES:
        r = jobs.get("witness " + nm)
        if r.violated != inv:
            raise tlc.MachineryError(f"the model of the code no longer shows the named deviation {nm}: {inv} holds")
    rep.extra["canaries_refuted"] = len(CANARIES)
    rep.extra["deviation_witnesses"] = [w[0] for w in WITNESSES]

    rep.evaluations = evaluations
    rep.distinct = distinct
    rep.exhaustive = True
    rep.rule = ("TLC enumerates (a) every table of <= %d lattice rows x every max_norm for embedding_renorm, every shape for concatenate_embedding, (b) the complete state "
                "graph of two task-selecting components under select_task (valid and invalid ids) / forward / embedding write with <= %d state-changing calls and of "
                "DiscreteTaskSet with <= 3 handles; every transition is replayed once into the real objects; a case is non-trivial when a row is rescaled / a call "
                "preceded it / a handle exists; (c) every train_st call of recorded real scheduler runs is one Switch step" % (rb["Bound"], max(c["Bound"] for _, c, _, _ in nets)))
    rep.assumptions += [
        "small scope: <= 3 tasks, embedding dimension 2 (renorm lattice also 3), hidden sizes 2-3, <= 3 calls per behaviour",
        "float32: norm + 1e-7 == norm for norms >= 2 (below half an ulp); ulp classes 0 / 2 / 4 / 6 derived in spec/TaskEmbed.tla (Ulps)",
        "the state of a task-selecting component is (task_id, embedding table); base-network weights are fixed during a behaviour",
        "an optimiser step on the embedding is modelled as a direct write of one row",
        "named deviations are modelled as the code behaves (see final report): RenormWholeTable, SelectTaskWraps, SelectTaskOutOfRange, ForwardUnbounded, "
        "ConcatUnbatchedDim1, ConcatRank3, StaleHandleFollowsBase, GetContextWraps, UnlistedKeeps, UtsInformsNobody",
        "trusted: harness/extras/x04_bind.py (projection, harness-side concatenation), TLC",
    ]


# ------------------------------------------------------------------ replay
def replay(path, rep):
    from . import x04_bind as xb

    d = json.load(open(path))["replay"]
    bad = []
    if d["part"] == "renorm":
        bad = renorm_case(d["args"], d["exp"])
    elif d["part"] == "concat":
        bad = concat_case(d["args"], d["exp"])
    elif d["part"] == "net":
        c = d["constants"]
        ad = xb.NetPair(d["kinds"], c["NT"], c["MaxNormNum"] / c["MaxNormDen"], rep.seed, d["init_tab"], d["clone_b"])
        try:
            for st in d["path"]:
                if st["op"] == "<construct>":
                    continue
                xb.net_step(ad, st["op"], st["args"], st.get("exp"), None, None)
                print(st["op"], st["args"], "->", xb.net_project(ad))
        except Mismatch as m:
            bad = [(m.code, m.what)]
    elif d["part"] == "taskset":
        ad = xb.TaskSetAd(d["contexts"], d["aware"], d.get("as_list", False))
        try:
            for st in d["path"]:
                xb.ts_step(ad, st["op"], st["args"], st.get("exp"), None, None)
                print(st["op"], st["args"], "->", xb.ts_project(ad))
        except Mismatch as m:
            bad = [(m.code, m.what)]
    elif d["part"] == "switch":
        t = xb.record_switches(d["scenario"], d["scenario"]["seed"])
        t["scenario"] = d["scenario"]
        _, by = validate([t], tag="x04replay")
        for e in t["events"]:
            print(e)
        bad = [(k, w) for k, w, _ in judge([t], by)]
    if bad:
        print("EXTRA-DEVIATION spec=X04 replay=" + path)
        for code, what in bad:
            print("  ", code, "::", what)
        return 1
    return 0
