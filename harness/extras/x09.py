"""X09 - run-level behaviour of train_ddqn_per (PER-DDQN) and train_dynaq around the buffer operations (C08) and the
tabular update equations / model tables (C14).

Specification: spec/PerDyna.tla (design model: one action per call of the two loop bodies; invariants; seven named
deviations TLC must refute) and spec/PerDynaTrace.tla (trace validation: real runs recorded by
harness/extras/x09_record.py are judged event by event, clause by clause, with the value operators of PerDyna.tla -
BetaAt, LearnDue, MaxEver, Window, Support, ModeSuccessor, MeanReward - in ONE TLC run).

TLC gives every verdict; Python records, projects floats (float32 ordinals, exact rationals, float64 hex strings,
object serial numbers, array digests) and reads verdicts.
"""
from __future__ import annotations

import copy
import json
import os
import subprocess
import sys
import time
from concurrent.futures import ThreadPoolExecutor

from .. import tlc

LEVEL = "model_checking"
TITLE = "Run-level behaviour of PER-DDQN (beta schedule, priority write-back, ratio hand-over) and Dyna-Q (planning discipline)"
MANIFEST = dict(
    category="model_checking",
    text="TLC model-checks spec/PerDyna.tla (program-counter models of one pass of train_ddqn_per and train_dynaq) for: the beta handed to every sample_batch call is the documented linear schedule evaluated at the step (anneals from per_beta to exactly 1 at the last step, monotone), learning happens exactly at the due steps, update_priority writes to exactly the slots of the batch sampled in the same iteration, nothing touches the buffer between sample_batch and update_priority, priorities are positive and ordered like the errors, the tracked maximum is the maximum ever written (the routine never resets it) and new transitions receive it; Dyna-Q: the direct update precedes planning, exactly n_planning_steps simulated updates per real step, every planned pair lies in the window of the last buffer_size real pairs (hence was observed), the simulated successor is in the support of the observed successors (the code: the first most frequent one), planning never changes the model, the model follows the counts. Real runs of both routines (scripted environment, real PrioritizedReplayBuffer subclass, interposed module-level names) are validated against the same operators by spec/PerDynaTrace.tla - the right level because these are ordering / hand-over / schedule-indexing defects of a sequential loop that an explicit state machine plus exact trace validation decides.",
    note="bounds: design model 5 PER steps (3 slots, batch 2, 3 error values), 3 Dyna-Q steps (3 states, 2 actions, 2 successors per pair, window 2, 2 planning steps); traces: 3+3 (quick) / 5+5 (thorough) runs of 9-65 steps with pairwise distinct non-default parameters; floats compared exactly (beta as exact rationals on schedules whose values float32 holds exactly, priorities / errors as float32 ordinals, ratios as float64 bit patterns, hand-overs by object identity serials); priorities are not recomputed (pow is not exact): TLC judges equality / order relations; trusted: TLC, spec/Exact.tla, the probes in harness/extras/x09_record.py (argument layout of the jitted train step, of per_priority, q_learning_update, planning)",
    technique="TLA+ design model + TLC (invariants, seven named deviation canaries); trace validation (PerDynaTrace) of real train_ddqn_per / train_dynaq runs with per.nnx.jit, per_priority, hard_target_net_update, PrioritizedReplayBuffer methods, dynaq.q_learning_update / counter_update / model_update / planning interposed",
)

ROOT = os.path.dirname(os.path.dirname(os.path.dirname(os.path.abspath(__file__))))
WORKERS = int(os.environ.get("VERIF_TLC_WORKERS", "8"))
S = tlc.Subst

PINV = ["TypeOK", "BetaHandedIsSchedule", "BetaAnneals", "LearnExactlyWhenDue", "WriteBackHitsSampledBatch", "NoBufferCallBetweenSampleAndWrite",
        "PriorityPositive", "PriorityOrderFollowsError", "MaxIsMaxEver"]
DINV = ["TypeOK", "ExactlyNPlanPerStep", "DirectPrecedesPlanning", "PlannedPairsObserved", "SuccessorInSupport", "SuccessorIsMode", "PlanningKeepsModel",
        "ModelFollowsCounts", "WindowIsLastPairs"]
PACTIONS = ["PStore", "PSample", "PTrain", "PWrite"]
DACTIONS = ["DAct", "DDirect", "DCount", "DModel", "DPlan", "DEndPlan", "DEndStep"]


def _design(routine, dev="NoDev", **k):
    d = dict(Routine=routine, DEV=S(dev), EMIT=False, T=5, Start=1, Warm=1, Bs=2, Uf=1, Beta0=S("BetaQuarter"), Cap=3, Tds=S("TdsSmall"), NPlan=2, NS=3, NA=2)
    if routine == "dynaq":
        d.update(T=3, Cap=2)
    d.update(k)
    return d


def design_configs(tier):
    cfgs = [("per: 5 steps, every step due", _design("per")),
            ("per: update_frequency 2, learning_starts 3", _design("per", T=7, Start=0, Warm=3, Uf=2, Bs=1, Beta0=S("BetaHalf"))),
            ("dynaq: 3 steps, window 2, 2 planning steps", _design("dynaq"))]
    if tier == "thorough":
        cfgs += [("dynaq: window 1, 3 planning steps", _design("dynaq", Cap=1, NPlan=3)),
                 ("dynaq: 4 steps, window 3, 1 planning step", _design("dynaq", T=4, Cap=3, NPlan=1))]
    return cfgs


# deviation -> (routine, invariant that must refute it)
CANARIES = [("BetaConstant", "per", "BetaHandedIsSchedule"), ("WriteBackToPreviousBatch", "per", "WriteBackHitsSampledBatch"),
            ("BufferCallBetween", "per", "NoBufferCallBetweenSampleAndWrite"), ("PlanOnUnobservedPair", "dynaq", "PlannedPairsObserved"),
            ("PlanBeforeDirect", "dynaq", "DirectPrecedesPlanning"), ("PlanChangesModel", "dynaq", "PlanningKeepsModel"),
            ("PlanOneTooMany", "dynaq", "ExactlyNPlanPerStep")]


def _tlc_design(name, consts, workers, invariants=None):
    full = invariants is None
    per = consts["Routine"] == "per"
    r = tlc.run("PerDyna", tlc.cfg_text(constants=consts, invariants=invariants or (PINV if per else DINV)), workers=workers, coverage=full,
                tag="x09design", timeout=600)
    if full and r.ok:
        tlc.require_covered(r, PACTIONS if per else DACTIONS)
    return name, r


# ------------------------------------------------------------------ recording
def _record_group(tier, seed, group, outdir, repo, timeout=300):
    out = os.path.join(outdir, f"{group}.json")
    env = dict(os.environ)
    env.update(PYTHONPATH=repo + os.pathsep + ROOT, JAX_PLATFORMS="cpu", TF_CPP_MIN_LOG_LEVEL="3", PYTHONHASHSEED="0")
    env.setdefault("OMP_NUM_THREADS", "2")
    last = ""
    for attempt in range(2):
        try:
            p = subprocess.run([sys.executable, "-m", "harness.extras.x09_record", tier, str(seed), group, out], env=env, cwd=ROOT,
                               capture_output=True, text=True, timeout=timeout * (attempt + 1))
        except subprocess.TimeoutExpired as e:
            last = f"timeout {e}"
            continue
        if p.returncode == 0 and os.path.exists(out):
            with open(out) as f:
                return json.load(f)
        last = p.stderr[-2000:]
        break
    raise tlc.MachineryError(f"X09 recorder for group {group} failed: {last}")


DUMMY = _design("per", T=1, Start=1)


def validate(traces, tag="x09trace", timeout=600):
    """-> {trace id: dict(steps, learns, plans, viol=[(pos, clause), ...])}, TlcResult"""
    norm = [{"id": t["id"], "cfg": t["cfg"], "events": t["events"]} for t in traces]
    os.makedirs(os.path.join(tlc.OUT, "tmp"), exist_ok=True)
    path = os.path.join(tlc.OUT, "tmp", f"{tag}-{os.getpid()}-{int(time.time() * 1000) % 100000}.json")
    with open(path, "w") as f:
        json.dump(norm, f)
    try:
        r = tlc.run("PerDynaTrace", tlc.cfg_text(init="TInit", next="TNext", constants=DUMMY, constraints=["Verdict"]), workers=1,
                    env={"TRACE_FILE": path}, tag=tag, timeout=timeout)
    finally:
        os.remove(path)
    out = {}
    for line in r.stdout.splitlines():
        if line.startswith('<<"VERDICT", "'):
            d = json.loads(json.loads(line[len('<<"VERDICT", '):-2]))
            out[d["id"]] = dict(steps=d["steps"], learns=d["learns"], plans=d["plans"], viol=sorted((int(a), b) for a, b in d["viol"]))
    missing = [t["id"] for t in norm if t["id"] not in out]
    if missing:
        raise tlc.MachineryError(f"PerDynaTrace gave no verdict for traces {missing}: {r.stdout[-2500:]}")
    return out, r


# ------------------------------------------------------------------ binding canaries
def _nth(evs, pred, nth=0):
    hits = [i for i, e in enumerate(evs) if pred(e)]
    return hits[min(nth, len(hits) - 1)]


def _c_beta(t):  # the beta of the previous step's schedule entry
    i = _nth(t["events"], lambda e: e["ev"] == "sample", 1)
    j = _nth(t["events"], lambda e: e["ev"] == "sample", 0)
    t["events"][i]["beta"] = t["events"][j]["beta"]


def _c_prevbatch(t):  # the write-back goes to the slots of the previous batch
    ups = [i for i, e in enumerate(t["events"]) if e["ev"] == "update_priority"]
    k = next(k for k in range(1, len(ups)) if t["events"][ups[k]]["idx"] != t["events"][ups[k - 1]]["idx"])
    t["events"][ups[k]]["idx"] = t["events"][ups[k - 1]]["idx"]


def _c_ratio(t):  # one ratio handed to the loss one bit off
    i = _nth(t["events"], lambda e: e["ev"] == "train", 2)
    t["events"][i]["isr"] = ["0x1.0000000000001p-1"] + t["events"][i]["isr"][1:]


def _c_dropupdate(t):  # an update_priority call dropped
    i = _nth(t["events"], lambda e: e["ev"] == "update_priority", 1)
    del t["events"][i]


def _c_plan_drop(t):  # one planning update dropped
    i = _nth(t["events"], lambda e: e["ev"] == "plan", 4)
    del t["events"][i]


def _c_plan_pair(t):  # a planned pair that was never observed
    seen = {(e["obs"], e["act"]) for e in t["events"] if e["ev"] == "count"}
    ns, na = t["cfg"]["ns"], t["cfg"]["na"]
    o, a = next((o, a) for o in range(ns) for a in range(na) if (o, a) not in seen)
    i = _nth(t["events"], lambda e: e["ev"] == "plan", 5)
    t["events"][i].update(obs=o, act=a)


def _c_plan_succ(t):  # the other observed successor of a pair with two successors where one is strictly more frequent, or an unobserved one
    i = _nth(t["events"], lambda e: e["ev"] == "plan", 6)
    e = t["events"][i]
    e["next"] = (e["next"] + 1) % t["cfg"]["ns"]


def _c_model(t):  # the model differs after planning
    i = _nth(t["events"], lambda e: e["ev"] == "plan_end", 2)
    t["events"][i]["mdig"] = "0" * 12


CORRUPTIONS = [("per", "beta", _c_beta, "BetaIsScheduleOfStep"), ("per", "prevbatch", _c_prevbatch, "WriteBackToSampledBatch"),
               ("per", "ratio", _c_ratio, "RatiosHandedToLoss"), ("per", "dropupdate", _c_dropupdate, "LearnExactlyWhenDue"),
               ("dynaq", "plandrop", _c_plan_drop, "ExactlyNPlanPerStep"), ("dynaq", "planpair", _c_plan_pair, "PlannedPairObserved"),
               ("dynaq", "plansucc", _c_plan_succ, "SuccessorIsMode"), ("dynaq", "model", _c_model, "PlanningKeepsModel")]


def corruptions(traces):
    by = {}
    for t in traces:
        if not t.get("error"):
            by.setdefault(t["cfg"]["routine"], t)
    out = []
    for rname, name, fn, clause in CORRUPTIONS:
        if rname not in by:
            continue
        b = copy.deepcopy(by[rname])
        b["id"], b["base"] = "canary:" + name, by[rname]["id"]
        try:
            fn(b)
        except Exception:
            continue
        out.append((b, clause))
    return out


# ------------------------------------------------------------------ run
def run(rep):
    repo = os.environ.get("VERIF_REPO_ROOT", "/repo")
    tlc.sany("PerDyna")
    tlc.sany("PerDynaTrace")
    from . import x09_record

    groups = sorted({g for g, _, _ in x09_record.scenarios(rep.tier, rep.seed)})
    outdir = os.path.join(tlc.OUT, "tmp", f"x09-{os.getpid()}")
    os.makedirs(outdir, exist_ok=True)
    w = max(1, min(4, WORKERS // 2))
    try:
        with ThreadPoolExecutor(max_workers=len(groups) + 3) as ex:
            recs = [ex.submit(_record_group, rep.tier, rep.seed, g, outdir, repo) for g in groups]
            designs = [ex.submit(_tlc_design, n, c, w) for n, c in design_configs(rep.tier)]
            canaries = [ex.submit(_tlc_design, d, _design(rt, d), 1, [inv]) for d, rt, inv in CANARIES]
            for f in designs:
                name, r = f.result()
                rep.add_tlc(r, f"PerDyna design model: {name}")
                if not r.ok:
                    rep.violation(f"spec:PerDyna:{r.violated}", f"design-level violation of {r.violated} ({name})", (r.error_trace or "")[:3000])
            for f, (dev, _, inv) in zip(canaries, CANARIES):
                _, r = f.result()
                if r.violated != inv:
                    raise tlc.MachineryError(f"canary: deviation {dev} not refuted by invariant {inv} (TLC says {r.violated})")
            traces = [t for f in recs for t in f.result()]
    finally:
        import shutil

        shutil.rmtree(outdir, ignore_errors=True)
    corr = corruptions(traces)
    out, r = validate(traces + [c for c, _ in corr])
    rep.add_tlc(r, "PerDynaTrace batched trace validation")
    n_events = 0
    for t in traces:
        v, rname = out[t["id"]], t["cfg"]["routine"]
        n_events += len(t["events"])
        if t.get("error"):
            rep.violation(f"{rname}:raised", f"{t['id']}: the routine (or a probe inside it) raised {t['error']}", {"routine": rname, "scenario": t["scenario"], "clause": "raised"})
        for pos, clause in v["viol"]:
            rep.violation(f"{rname}:{clause}", f"{t['id']} event {pos}: clause {clause} fails at {t['events'][pos - 1]}"[:700],
                          {"routine": rname, "scenario": t["scenario"], "position": pos, "clause": clause})
    counted = 0
    for c, clause in corr:
        if out[c["base"]]["viol"]:
            continue
        counted += 1
        got = {cl for _, cl in out[c["id"]]["viol"]}
        if clause not in got:
            raise tlc.MachineryError(f"binding canary {c['id']}: corrupted trace not rejected by clause {clause} (got {sorted(got)})")
    if counted < 6 and not rep.violations:
        raise tlc.MachineryError(f"binding canaries: only {counted} could be judged")
    if not rep.violations:
        # non-vacuity: learning iterations with differing betas / priorities, pairs with two observed successors that were planned on
        for t in traces:
            v = out[t["id"]]
            if t["cfg"]["routine"] == "per":
                betas = {tuple(e["beta"]) for e in t["events"] if e["ev"] == "sample"}
                if v["learns"] < 3 or len(betas) < 3:
                    raise tlc.MachineryError(f"scenario {t['id']}: too few learning iterations ({v['learns']}) / distinct betas ({len(betas)})")
            elif v["plans"] != t["cfg"]["nplan"] * t["cfg"]["T"]:
                raise tlc.MachineryError(f"scenario {t['id']}: {v['plans']} planning updates judged")
        two = 0
        for t in traces:
            succ = {}
            for e in t["events"]:
                if e["ev"] == "count":
                    succ.setdefault((e["obs"], e["act"]), set()).add(e["next"])
                elif e["ev"] == "plan" and len(succ.get((e["obs"], e["act"]), ())) >= 2:
                    two += 1
        rep.extra["planning_updates_on_pairs_with_two_observed_successors"] = two
        if two < 3:
            raise tlc.MachineryError("no planning update on a pair with two observed successors")
    per = {}
    calls = {}
    for t in traces:
        v = out[t["id"]]
        p = per.setdefault(t["cfg"]["routine"], dict(traces=0, events=0, steps=0, learning_iterations=0, planning_updates=0))
        p["traces"] += 1
        p["events"] += len(t["events"])
        p["steps"] += v["steps"]
        p["learning_iterations"] += v["learns"]
        p["planning_updates"] += v["plans"]
        for e in t["events"]:
            calls[e["ev"]] = calls.get(e["ev"], 0) + 1
    rep.traces = len(traces)
    rep.evaluations = n_events
    rep.distinct = sum(p["learning_iterations"] + p["planning_updates"] for p in per.values())
    rep.rule = ("one case = one learning iteration of a real train_ddqn_per run (sample_batch with its beta, train step with the ratios / batch it is handed, "
                "per_priority, update_priority) or one simulated update of a real train_dynaq run (pair, successor, reward, table hand-over), judged by PerDynaTrace; "
                "scenarios: pairwise distinct non-default alpha / beta0 / gamma / frequencies / batch sizes, continued runs, capacities below the run length; Dyna-Q with 3-5 states "
                "whose pairs recur with two successors, n_planning_steps 1-5, buffer_size below and above the run length; non-trivial: >= 3 learning iterations with >= 3 distinct betas per "
                "PER run, planning updates on pairs with two observed successors")
    rep.exhaustive = False
    rep.extra["per_routine"] = per
    rep.extra["real_calls"] = calls
    rep.extra["binding_canaries"] = [c["id"] + " -> " + cl for c, cl in corr]
    rep.extra["spec_canaries"] = [f"{d} refuted by {i}" for d, _, i in CANARIES]
    for t in traces[:1] + [x for x in traces if x["cfg"]["routine"] == "dynaq"][:1]:
        kinds = ("sample", "update_priority") if t["cfg"]["routine"] == "per" else ("plan_start", "plan")
        for kind in kinds:
            i = _nth(t["events"], lambda e: e["ev"] == kind, 2)
            rep.sample({"trace": t["id"], "position": i + 1, **t["events"][i]})
    rep.assumptions += [
        "beta: scenarios use total_timesteps - 1 = 2^k and dyadic per_beta, so every documented schedule value is a dyadic rational that float32 holds exactly; compared with QEq",
        "priorities / errors are compared through float32 ordinals (every recorded value is checked to be exactly float32); the priority formula itself is C08's (PrioFn.tla): here TLC judges equality and order relations between recorded values, which relies on a monotone float32 pow",
        "hand-overs (batch, ratios, |td|, priority) are judged by object serial numbers plus content",
        "documented-vs-coded (modelled as named operators, not raised): PriorityFromBatchMean - ddqn_per_loss returns the MEAN |td|, every sampled slot receives the one priority mean|td|^alpha + 1e-6; BatchGate - learning needs step > batch_size besides step >= learning_starts; ResetCadenceNone - the tracked maximum is never recomputed; ModeSuccessor - planning uses the first most frequent successor, not a draw; the constant 1e-6 is hard-coded",
    ]


def replay(path, rep):
    with open(path) as f:
        doc = json.load(f)
    r = doc.get("replay") or {}
    if not isinstance(r, dict) or "scenario" not in r:
        print("design-level finding, nothing to replay against the code:", doc.get("what"))
        return 1
    from . import x09_record

    t = x09_record.record(r["routine"], r["scenario"])
    out, _ = validate([t], tag="x09replay")
    v = out[t["id"]]
    bad = sorted({c for _, c in v["viol"]})
    print(t["id"], "steps", v["steps"], "learning iterations", v["learns"], "planning updates", v["plans"], "failing clauses:", bad, "error:", t.get("error"))
    fails = (r.get("clause") in bad) or (r.get("clause") == "raised" and t.get("error"))
    if fails:
        print(f"EXTRA-DEVIATION spec={rep.pid} replay={path}")
        return 1
    return 0
