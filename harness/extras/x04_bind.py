"""X04 - adapters between spec/TaskEmbed.tla and the real rl_blox objects.

Python here only (a) builds the real objects, (b) feeds the inputs TLC chose, (c) projects real state to the
model's View and compares bit patterns.  The "base network" of the model is uninterpreted: it is evaluated through
the real sub-modules (net._q, encoder.zs / za / zsa / model ...) on an input the harness concatenates itself.
"""
from __future__ import annotations

import copy
import warnings
from fractions import Fraction

import numpy as np

from .. import exact
from ..graph import Mismatch

F32 = np.float32


def qf(x) -> float:
    return float(exact.q(x))


def qj(v):
    """float -> TLC's normal form [num, den] (a non-finite value is a verdict about the code)"""
    v = float(v)
    if not np.isfinite(v):
        raise Mismatch("non-finite value in a place where the model holds a rational", "non_finite_value")
    f = Fraction(v)
    return [f.numerator, f.denominator]


def arr(rows):
    """sequence of sequences of [n, d] -> float32 array (inputs must be float32-exact: checked)"""
    a = np.array([[qf(v) for v in r] for r in rows], dtype=np.float64)
    b = a.astype(F32)
    if not np.array_equal(a, b.astype(np.float64)):
        from .. import tlc

        raise tlc.MachineryError(f"lattice value not exact in float32: {rows}")
    return b


def bits(a):
    return np.ascontiguousarray(np.asarray(a, dtype=F32)).view(np.uint32)


def same_bits(a, b):
    a, b = np.asarray(a), np.asarray(b)
    return a.shape == b.shape and a.dtype == b.dtype and np.array_equal(bits(a), bits(b))


# ------------------------------------------------------------------ real components
E_DIM, X_DIM, A_DIM, ZS, ZA, ZSA, BINS = 2, 2, 1, 3, 2, 3, 5
A_VEC = np.array([0.25], dtype=F32)
A_BATCH = np.array([[0.25], [-0.5]], dtype=F32)


def _bundle_cls():
    from flax import nnx

    global _Bundle
    try:
        return _Bundle
    except NameError:
        pass

    class _Bundle(nnx.Module):  # what create_mt_mrq_state returns, as one clonable object
        def __init__(self, pwe, q):
            self.pwe = pwe
            self.q = q

    return _Bundle


_ENV_CLS = None


def CtsEnv(ep_len=2, returns=None):
    """Box / Box environment (create_mt_mrq_state needs the spaces); `cfg` is what set_context stored."""
    global _ENV_CLS
    if _ENV_CLS is None:
        import gymnasium as gym

        class _CtsEnv(gym.Env):
            def __init__(self, ep_len=2, returns=None):
                self.observation_space = gym.spaces.Box(low=np.array([-4.0, -8.0], dtype=F32), high=np.array([4.0, 8.0], dtype=F32), dtype=F32)
                self.action_space = gym.spaces.Box(low=-np.ones(A_DIM, dtype=F32), high=np.ones(A_DIM, dtype=F32), dtype=F32)
                self.cfg = None
                self.n_set = 0
                self.ep_len = ep_len
                self.returns = returns
                self.t = 0
                self.task = -1

            def _obs(self):
                return np.zeros(2, dtype=F32) if self.cfg is None else np.asarray(self.cfg, dtype=F32)

            def reset(self, *, seed=None, options=None):
                self.t = 0
                return self._obs(), {}

            def step(self, action):
                self.t += 1
                end = self.t >= self.ep_len
                r = float(self.returns[self.task]) if (end and self.returns is not None and self.task >= 0) else 0.0
                return self._obs(), r, bool(end), False, {}

        _ENV_CLS = _CtsEnv
    return _ENV_CLS(ep_len, returns)


def set_context(env, context):
    env.unwrapped.cfg = np.array(context, dtype=F32)
    env.unwrapped.n_set += 1


def build(kind, nt, max_norm, seed):
    """-> root object (clonable with nnx.clone).  kind: q = MTMLPQNetwork, enc = ModelBasedMTEncoder,
    pwe = create_mt_mrq_state(...) (policy_with_encoder + q)"""
    from flax import nnx
    from rl_blox.blox.embedding import task_embedding as te

    if kind == "q":
        return te.MTMLPQNetwork(n_tasks=nt, task_embedding_dim=E_DIM, n_features=X_DIM, n_outputs=2, hidden_nodes=[3], activation="relu",
                                rngs=nnx.Rngs(seed), max_task_embedding_norm=max_norm)
    if kind == "enc":
        return te.ModelBasedMTEncoder(n_tasks=nt, task_embedding_dim=E_DIM, n_state_features=X_DIM, n_action_features=A_DIM, n_bins=BINS,
                                      zs_dim=ZS, za_dim=ZA, zsa_dim=ZSA, hidden_nodes=[3], activation="elu", rngs=nnx.Rngs(seed),
                                      max_task_embedding_norm=max_norm)
    if kind == "pwe":
        st = mrq_state(nt, seed)
        st.policy_with_encoder.encoder.max_task_embedding_norm = max_norm  # the factory has no parameter for it (default 1.0)
        return _bundle_cls()(st.policy_with_encoder, st.q)
    raise AssertionError(kind)


def mrq_state(nt, seed):
    from rl_blox.blox.embedding import task_embedding as te

    return te.create_mt_mrq_state(CtsEnv(), n_tasks=nt, task_embedding_dim=E_DIM, policy_hidden_nodes=(3,), q_hidden_nodes=(3,),
                                  encoder_n_bins=BINS, encoder_zs_dim=ZS, encoder_za_dim=ZA, encoder_zsa_dim=ZSA, encoder_hidden_nodes=(3,), seed=seed)


def mod_of(kind, root):
    """the task-selecting module inside the root"""
    return root.pwe.encoder if kind == "pwe" else root


def table(mod):
    return np.asarray(mod._task_embedding.embedding.value)


def write_row(mod, t, row):
    import jax.numpy as jnp

    v = mod._task_embedding.embedding.value
    mod._task_embedding.embedding.value = v.at[t].set(jnp.asarray(row, dtype=v.dtype))


def _cat(v, row):
    """the harness's own concatenation: v followed by the row (behind every row of a batch)"""
    import jax.numpy as jnp

    return jnp.concatenate((v, jnp.broadcast_to(row, v.shape[:-1] + row.shape)), axis=-1)


def outputs(kind, root, xs):
    """what the real methods return for the un-batched input and the batch: {name: array}"""
    import jax.numpy as jnp

    mod = mod_of(kind, root)
    out = {}
    for k, x in xs.items():
        x = jnp.asarray(x)
        out[f"task_embedding:{k}"] = mod.task_embedding(x)
        if kind == "q":
            out[f"call:{k}"] = mod(x)
            continue
        a = jnp.asarray(A_VEC if k == "vec" else A_BATCH)
        zs = mod.encode_zs(x)
        out[f"encode_zs:{k}"] = zs
        zsa = mod.encode_zsa(zs, a)
        out[f"encode_zsa:{k}"] = zsa
        if k == "batch":
            d, nz, r = mod.model_head(zs, a)
            out["model_head.done"], out["model_head.next_zs"], out["model_head.reward"] = d, nz, r
        if kind == "pwe":
            out[f"policy_with_encoder:{k}"] = root.pwe(x)
            out[f"q(zsa):{k}"] = root.q(zsa)
    return {n: np.asarray(v) for n, v in out.items()}


def manual(kind, root, xs, row):
    """the same quantities through the real sub-modules, with `row` as THE embedding (model: Base(concat(x, row)))"""
    import jax.numpy as jnp

    mod = mod_of(kind, root)
    row = jnp.asarray(row)
    out = {}
    for k, x in xs.items():
        x = jnp.asarray(x)
        c = _cat(x, row)
        out[f"task_embedding:{k}"] = c
        if kind == "q":
            out[f"call:{k}"] = mod._q(c)
            continue
        a = jnp.asarray(A_VEC if k == "vec" else A_BATCH)
        zs = _cat(mod.activation(mod.zs_layer_norm(mod.zs(c))), row)
        out[f"encode_zs:{k}"] = zs
        za = mod.activation(mod.za(_cat(a, row)))
        zsa = _cat(mod.zsa(jnp.concatenate((zs, za), axis=-1)), row)
        out[f"encode_zsa:{k}"] = zsa
        if k == "batch":
            dzr = mod.model(zsa)
            out["model_head.done"] = dzr[:, 0]
            out["model_head.next_zs"] = _cat(dzr[:, 1 : 1 + mod.zs_dim], row)
            out["model_head.reward"] = dzr[:, 1 + mod.zs_dim :]
        if kind == "pwe":
            out[f"policy_with_encoder:{k}"] = root.pwe.policy(zs)
            out[f"q(zsa):{k}"] = root.q(zsa)
    return {n: np.asarray(v) for n, v in out.items()}


def xs_of(x):
    """model inputs {vec: <<row>>, batch: <<row, row>>} -> arrays"""
    return {"vec": arr(x["vec"])[0], "batch": arr(x["batch"])}


# ------------------------------------------------------------------ part "net"
class NetPair:
    """two task-selecting components; ghosts ren / dirty / calls as the model defines them (ren is OBSERVED: rows whose
    bits a select_task call changed)"""

    def __init__(self, kinds, nt, max_norm, seed, init_tab, clone_b):
        from flax import nnx

        self.kinds, self.nt, self.max_norm = dict(kinds), nt, max_norm
        self.roots = {}
        self.fresh = {}
        try:
            self.roots["a"] = build(kinds["a"], nt, max_norm, seed)
        except Exception as e:
            raise Mismatch(f"constructing {kinds['a']} raised {type(e).__name__}: {str(e)[:120]}", "constructor_raised", kind=kinds["a"])
        self.fresh["a"] = self._fresh_state("a")
        for t in range(nt):
            write_row(self.mod("a"), t, arr([init_tab["a"][str(t)]])[0])
        if clone_b:
            self.roots["b"] = nnx.clone(self.roots["a"])
            self.fresh["b"] = self.fresh["a"]
        else:
            self.roots["b"] = build(kinds["b"], nt, max_norm, seed + 1)
            self.fresh["b"] = self._fresh_state("b")
            for t in range(nt):
                write_row(self.mod("b"), t, arr([init_tab["b"][str(t)]])[0])
        self.ren = {"a": set(), "b": set()}
        self.dirty = {"a": set(), "b": set()}
        self.calls = 0

    def _fresh_state(self, c):
        """as constructed (model's Init): task 0, every row within max_norm (4 ulp: one quotient, one product, norm)"""
        m = self.mod(c)
        n = np.linalg.norm(table(m).astype(np.float64), axis=1)
        return {"task_id": int(m.task_id), "bounded": bool(np.all(n <= self.max_norm * (1 + 4 * 2.0**-23)))}

    def mod(self, c):
        return mod_of(self.kinds[c], self.roots[c])

    def clone(self):
        from flax import nnx

        o = copy.copy(self)
        o.roots = {c: nnx.clone(r) for c, r in self.roots.items()}
        o.ren = {c: set(s) for c, s in self.ren.items()}
        o.dirty = {c: set(s) for c, s in self.dirty.items()}
        return o


def net_project(ad: NetPair):
    for c in "ab":
        if ad.fresh[c] != {"task_id": 0, "bounded": True}:
            raise Mismatch(f"freshly constructed {ad.kinds[c]}: {ad.fresh[c]} (model: task 0, every row within max_norm)", "constructed_state", kind=ad.kinds[c])
    tab = {c: {str(t): [qj(v) for v in table(ad.mod(c))[t]] for t in range(ad.nt)} for c in "ab"}
    return {
        "cur": {c: int(ad.mod(c).task_id) for c in "ab"},
        "tab": tab,
        "ren": {c: {str(t): t in ad.ren[c] for t in range(ad.nt)} for c in "ab"},
        "dirty": {c: {str(t): t in ad.dirty[c] for t in range(ad.nt)} for c in "ab"},
        "calls": ad.calls,
    }


def _compare(real, want, what, code):
    for name in want:
        if name not in real:
            raise Mismatch(f"{what}: no output {name}", code)
        if not same_bits(real[name], want[name]):
            raise Mismatch(f"{what}: {name} = {np.asarray(real[name]).ravel()[:6]} (shape {np.asarray(real[name]).shape}) differs from "
                           f"{np.asarray(want[name]).ravel()[:6]} (shape {np.asarray(want[name]).shape})", f"{code}:{name.split(':')[0]}")


def net_step(ad: NetPair, op, args, exp, pre, post):
    _net_step(ad, op, args, exp)
    if post is not None:  # name what differs (graph.cover only says "state differs")
        got = net_project(ad)
        c = args["c"]
        for d in "ab":
            who = f"{ad.kinds[d]} '{d}'" + ("" if d == c else f" (the call was on '{c}')")
            code = "" if d == c else "other_component:"
            if got["cur"][d] != post["cur"][d]:
                raise Mismatch(f"after {op} {args}: task_id of {who} is {got['cur'][d]}, model {post['cur'][d]}", code + "task_id", kind=ad.kinds[d])
            if got["tab"][d] != post["tab"][d]:
                raise Mismatch(f"after {op} {args}: embedding table of {who} is {got['tab'][d]}, model {post['tab'][d]}", code + "table", kind=ad.kinds[d])


def _net_step(ad: NetPair, op, args, exp):
    from flax import nnx

    c = args["c"]
    kind, root, mod = ad.kinds[c], ad.roots[c], ad.mod(c)
    if op == "SelectTask":
        before = table(mod).copy()
        try:
            mod.select_task(args["k"])
        except Exception as e:
            raise Mismatch(f"{kind}.select_task({args['k']}) raised {type(e).__name__}: {str(e)[:100]} (model: accepted)", "select_task_raised")
        after = table(mod)
        changed = {t for t in range(ad.nt) if not np.array_equal(bits(before[t]), bits(after[t]))}
        want = {int(t) for t, v in exp["scaled"].items() if v}
        if changed != want:
            raise Mismatch(f"{kind}.select_task({args['k']}) changed rows {sorted(changed)}, model renormalises rows {sorted(want)} (norm > max_norm)",
                           "rows_renormalised")
        ad.ren[c] |= changed
        ad.dirty[c] = set()
        ad.calls += 1
    elif op == "TrainStep":
        write_row(mod, args["t"], arr([args["row"]])[0])
        ad.ren[c].discard(args["t"])
        ad.dirty[c].add(args["t"])
        ad.calls += 1
    elif op == "Forward":
        xs = xs_of(args["x"])
        real = outputs(kind, root, xs)
        if exp["status"] == "nan":
            for k, x in xs.items():
                te = real[f"task_embedding:{k}"]
                if te.shape != x.shape[:-1] + (x.shape[-1] + E_DIM,):
                    raise Mismatch(f"task_embedding({k}) has shape {te.shape}", "nan:shape")
                if not same_bits(te[..., : x.shape[-1]], x) or not np.all(np.isnan(te[..., x.shape[-1] :])):
                    raise Mismatch(f"task id {int(mod.task_id)} outside the table: task_embedding = {te.ravel()[:6]}, model: x followed by NaN", "nan:embedding")
                main = real[f"call:{k}"] if kind == "q" else real[f"encode_zs:{k}"]
                if not np.all(np.isnan(main)):
                    raise Mismatch(f"task id {int(mod.task_id)} outside the table: output {main.ravel()[:6]}, model: NaN", "nan:output")
            return
        row = int(exp["row"])
        tab = table(mod)
        if not (0 <= row < ad.nt):
            raise Mismatch(f"model row {row} outside the table", "row_outside")
        # the model's concatenated input, value by value (x and the rows are exact)
        for k, x in xs.items():
            te = real[f"task_embedding:{k}"]
            want = arr(exp["cat"][k])
            want = want[0] if k == "vec" else want
            if te.shape != want.shape or not np.array_equal(te, want):
                raise Mismatch(f"task_embedding({k} input) of task {int(mod.task_id)} = {te.ravel()[:8]} (shape {te.shape}), model {want.ravel()[:8]} "
                               f"(x followed by row {row})", "task_embedding_value")
        if [qj(v) for v in tab[row]] != exp["emb"]:
            raise Mismatch(f"row {row} holds {tab[row]}, model {exp['emb']}", "row_value")
        # output = base network on concat(x, row of the current task), through the real sub-modules, bit for bit
        _compare(real, manual(kind, root, xs, tab[row]), f"{kind} with task {int(mod.task_id)}", "forward_is_base_of_concat")
        norm = Fraction(0)
        for v in tab[row]:
            norm += Fraction(float(v)) ** 2
        if (norm <= Fraction(ad.max_norm) ** 2) != bool(exp["bounded"]):
            raise Mismatch(f"row {row} within max_norm: {norm <= Fraction(ad.max_norm) ** 2}, model {exp['bounded']}", "row_bounded")
        # rows the output must not depend on / the row it must depend on
        xs = {"batch": xs["batch"]}  # the batch exercises every method (model_head is batch-only)
        for t_s, indep in exp["indep"].items():
            t = int(t_s)
            r2 = nnx.clone(root)
            write_row(mod_of(kind, r2), t, arr([exp["alt"][t_s]])[0])
            real2 = outputs(kind, r2, xs)
            if indep:
                try:
                    _compare(real, real2, f"{kind} with task {int(mod.task_id)} after writing row {t}", "other_row_changes_output")
                except Mismatch as m:
                    raise Mismatch(m.what + f" - the output must depend on row {row} only", "other_row_changes_output")
            else:
                alt = arr([exp["alt"][t_s]])[0]
                for k, x in xs.items():
                    part = real2[f"task_embedding:{k}"][..., x.shape[-1] :]
                    if not np.array_equal(part, np.broadcast_to(alt, part.shape)):
                        raise Mismatch(f"{kind}: after writing {alt} into row {t} (the current task's row) task_embedding still gives "
                                       f"{real2[f'task_embedding:{k}'].ravel()[:8]}", "current_row_ignored")
    else:  # pragma: no cover
        raise AssertionError(op)


# ------------------------------------------------------------------ part "taskset"
class TaskSetAd:
    def __init__(self, contexts, aware, as_list=False):
        from rl_blox.blox.multitask import DiscreteTaskSet

        self.ctx = np.asarray(contexts, dtype=F32)
        self.env = CtsEnv()
        with warnings.catch_warnings():
            warnings.simplefilter("ignore")
            try:
                self.ts = DiscreteTaskSet(self.env, set_context, [list(map(float, c)) for c in self.ctx] if as_list else self.ctx, context_aware=aware)
            except Exception as e:
                raise Mismatch(f"DiscreteTaskSet(...) raised {type(e).__name__}: {str(e)[:120]}", "constructor_raised")
        self.aware = aware
        self.handles = []

    def ctx_index(self, v):
        for i, c in enumerate(self.ctx):
            if np.array_equal(np.asarray(v, dtype=F32), c):
                return i
        return -2


def ts_project(ad: TaskSetAd):
    base = -1 if ad.env.cfg is None else ad.ctx_index(ad.env.cfg)
    hs = []
    for h in ad.handles:
        if h is ad.env:
            hs.append(-1)
        elif hasattr(h, "observation") and h.unwrapped is ad.env:
            hs.append(ad.ctx_index(np.asarray(h.observation(np.zeros(2, dtype=F32)))[:2]))  # the context the wrapper puts in front
        else:
            hs.append(-3)
    return {"base": base, "handles": hs}


def ts_step(ad: TaskSetAd, op, args, exp, pre, post):
    _ts_step(ad, op, args, exp)
    if post is not None:
        got = ts_project(ad)
        if got["base"] != post["base"]:
            raise Mismatch(f"after {op} {args}: the base environment is configured for task {got['base']}, model {post['base']}", "base_task")
        if got["handles"] != post["handles"]:
            raise Mismatch(f"after {op} {args}: handles carry contexts {got['handles']}, model {post['handles']} (-1: the base environment itself)", "handles")


def _ts_step(ad: TaskSetAd, op, args, exp):
    if op == "GetTask":
        n0 = ad.env.n_set
        try:
            h = ad.ts.get_task(args["i"])
            status = "ok"
        except AssertionError:
            status = "AssertionError"
        except Exception as e:
            status = type(e).__name__
        if status != exp["status"]:
            raise Mismatch(f"get_task({args['i']}) -> {status}, model {exp['status']}", "get_task_status")
        if status != "ok":
            if ad.env.n_set != n0:
                raise Mismatch(f"get_task({args['i']}) was rejected but configured the base environment", "rejected_but_configured")
            return
        want = arr([exp["configured"]])[0]
        if ad.env.cfg is None or not np.array_equal(ad.env.cfg, want):
            raise Mismatch(f"get_task({args['i']}): base environment configured for {ad.env.cfg}, model {want}", "configured_context")
        sp = h.observation_space
        lo, hi = arr([exp["low"]])[0], arr([exp["high"]])[0]
        if sp.shape != lo.shape or not np.array_equal(sp.low, lo) or not np.array_equal(sp.high, hi):
            raise Mismatch(f"get_task({args['i']}): observation space [{sp.low}, {sp.high}], model [{lo}, {hi}]", "observation_space")
        if sp.dtype != np.float32:
            raise Mismatch(f"observation space dtype {sp.dtype}", "observation_space_dtype")
        ad.handles.append(h)
    elif op == "Observe":
        h = ad.handles[args["h"] - 1]
        obs, _ = h.reset()
        want = arr([exp["obs"]])[0]
        obs = np.asarray(obs)
        if obs.shape != want.shape or not np.array_equal(obs, want):
            raise Mismatch(f"observation through handle {args['h']}: {obs}, model {want} (own context in front, then the base environment's task)",
                           "handle_observation")
    elif op == "GetContext":
        try:
            v = np.asarray(ad.ts.get_context(args["i"]))
            status = "ok"
        except IndexError:
            status = "IndexError"
        except Exception as e:
            status = type(e).__name__
        if status != exp["status"]:
            raise Mismatch(f"get_context({args['i']}) -> {status}, model {exp['status']}", "get_context_status")
        if status == "ok" and not np.array_equal(v.astype(F32), arr([exp["ctx"]])[0]):
            raise Mismatch(f"get_context({args['i']}) = {v}, model {exp['ctx']}", "get_context_value")
    elif op == "Len":
        if len(ad.ts) != exp["len"]:
            raise Mismatch(f"len(task_set) = {len(ad.ts)}, model {exp['len']}", "len")
    else:  # pragma: no cover
        raise AssertionError(op)


# ------------------------------------------------------------------ part "switch": traces of the real schedulers
class _Abort(Exception):
    pass


class StubResult:
    def __init__(self, global_step):
        self.global_step = global_step
        self.steps_trained = global_step


ROWS = [[0.0, 0.25], [0.5, 0.0], [0.25, 0.25], [0.0, -0.5]]  # distinct rows within every max_norm: the row a forward pass used is identifiable


def used_row(kind, root, xs, nt):
    """the embedding row the real forward pass used: the one whose recomputation agrees bit for bit (-1: none, -2: several)"""
    real = outputs(kind, root, xs)
    tab = table(mod_of(kind, root))
    hits = []
    for r in range(nt):
        m = manual(kind, root, xs, tab[r])
        if all(same_bits(real[n], m[n]) for n in m):
            hits.append(r)
    return hits[0] if len(hits) == 1 else (-1 if not hits else -2)


def record_switches(sc, seed):
    """Run one REAL scheduler with a stub learner; -> trace for spec/TaskEmbedTrace.tla."""
    import contextlib
    import io

    from flax import nnx
    from rl_blox.blox.multitask import DiscreteTaskSet
    from rl_blox.blox.replay_buffer import MultiTaskReplayBuffer, ReplayBuffer

    nt, sched = sc["nt"], sc["sched"]
    ctx = np.arange(nt, dtype=F32)[:, None] * np.array([[0.5, 1.0]], dtype=F32) + np.array([[0.5, -1.0]], dtype=F32)
    env = CtsEnv(ep_len=sc.get("ep_len", 2), returns=sc["returns"])
    events = []
    trace = {"id": sc["id"], "cfg": {"sched": sched, "listed": dict(sc["listed"]), "nt": nt}, "init": {"buffer": 0, "encoder": 0, "target": 0},
             "events": events, "exception": ""}

    def set_ctx(e, c):
        set_context(e, c)
        e.unwrapped.task = int(np.argmin(np.abs(ctx - np.asarray(c, dtype=F32)).sum(axis=1)))

    try:
        with warnings.catch_warnings():
            warnings.simplefilter("ignore")
            ts = DiscreteTaskSet(env, set_ctx, ctx, context_aware=False)
        state = mrq_state(nt, seed)
        live = _bundle_cls()(state.policy_with_encoder, state.q)
        for t in range(nt):
            write_row(live.pwe.encoder, t, np.array(ROWS[t], dtype=F32))
        target = nnx.clone(live)
        rb = MultiTaskReplayBuffer(ReplayBuffer(buffer_size=4), nt)
        comps = {"encoder": live, "target": target}
        for c, k in sc.get("preset", {}).items():  # ids the components hold before the scheduler starts
            comps[c].pwe.encoder.select_task(k)
    except Exception as e:
        trace["exception"] = f"building the learner's components raised {type(e).__name__}: {str(e)[:160]}"
        return trace
    xs = {"vec": np.array([0.5, -1.0], dtype=F32)}
    trace["init"] = {"buffer": int(rb.selected_task), "encoder": int(live.pwe.encoder.task_id), "target": int(target.pwe.encoder.task_id)}

    def learner(env=None, *, total_timesteps, total_episodes, global_step, learning_starts=None, seed=None, progress_bar=None, logger=None,
                replay_buffer=None, bar=None):
        if len(events) >= sc.get("max_calls", 60):
            raise _Abort()
        base = env.unwrapped
        events.append({
            "task": int(base.task),
            "ids": {"buffer": int(rb.selected_task), "encoder": int(live.pwe.encoder.task_id), "target": int(target.pwe.encoder.task_id)},
            "used": {"encoder": used_row("pwe", live, xs, nt), "target": used_row("pwe", target, xs, nt)},
        })
        step, ep = int(global_step), 0
        env.reset(seed=None if seed is None else int(seed))
        while step < total_timesteps:
            _, _, term, trunc, _ = env.step(np.zeros(A_DIM, dtype=F32))
            step += 1
            if term or trunc:
                ep += 1
                if total_episodes is not None and ep >= total_episodes:
                    break
                env.reset()
        return StubResult(step)

    listed = [comps[c].pwe.encoder for c in ("encoder", "target") if sc["listed"][c]]
    with warnings.catch_warnings(), contextlib.redirect_stdout(io.StringIO()):
        warnings.simplefilter("ignore")
        try:
            if sched == "uts":
                from rl_blox.algorithm.uniform_task_sampling import train_uts

                train_uts(ts, learner, total_timesteps=sc["T"], episodes_per_task=1, seed=seed, exploring_starts=0, progress_bar=False, logger=None)
            elif sched == "amt":
                from rl_blox.algorithm.active_mt import train_active_mt

                train_active_mt(ts, learner, rb, r_max=1.0, ducb_gamma=0.5, xi=0.0, task_selector=sc.get("selector", "Round Robin"),
                                total_timesteps=sc["T"], scheduling_interval=1, learning_starts=0, seed=seed, task_selectables=listed or None,
                                logger=None, progress_bar=False)
            else:
                from rl_blox.algorithm.smt import train_smt

                train_smt(ts, learner, rb, b1=sc["T"], b2=sc["T"] // 2, solved_threshold=1.0, unsolvable_threshold=-1.0, scheduling_interval=1,
                          kappa=0.25, K=min(2, nt), n_average=1, learning_starts=0, seed=seed, task_selectables=listed or None, logger=None,
                          progress_bar=False)
        except _Abort:
            pass
        except Exception as e:
            import traceback

            tb = traceback.extract_tb(e.__traceback__)
            trace["exception"] = f"{type(e).__name__} at {tb[-1].filename.split('/')[-1]}:{tb[-1].name}: {str(e)[:160]}"
    return trace
