"""X05: how every training routine of rl_blox drives the LoggerBase it is given - ONE protocol model
(spec/LogProtocol.tla), configured per routine.  Everything below is derived by READING the routines
(file:line of /repo/rl_blox/algorithm at the snapshot this was written against), not by fitting traces.

Fields of a configuration (all present for every routine; sets are lists):

  mode          "on" | "off"   off: the adapter passes logger=None (tabular routines need info["episode"], generate_rollout has
                               no logger parameter) - no logger event may occur at all
  bracket       "full"       start_new_episode / stop_episode bracket every episode
                "open_only"  one start_new_episode before the loop, never stopped, never started again (dqn, ddqn, ddqn_per)
                "none"       neither is ever called (nature_dqn)
                "tick"       vector environments: start_new_episode is a tick after every finished episode, stop_episode never
  vector        several sub-environments are stepped per call (a2c, ppo)
  wrapper       "none" | "next_step" | "same_step": gymnasium.wrappers.vector.RecordEpisodeStatistics supplies info["episode"];
                its accounting (prev_dones) is modelled as it is: the call after an episode end is not counted
  prologue      "start_reset" | "reset_start" | "reset" | "call" (reinforce: every collection call begins with start, reset)
  ending        order of the calls at an episode end
                "ret_stop_start_reset"  return stat, stop, [break at the episode limit], start, reset
                "stop_start_reset"      [return stat iff info has "episode"], stop, start, reset          (no limit)
                "reset_stop_start_ret"  reset, stop, start, return stat, epoch                            (cmaes)
                "ret_reset"             return stat, reset                                               (dqn family)
                "stop_start"            stop, start, then [end of the collection call | reset]            (reinforce)
                "ret_tick"              per finished sub-environment: return stat, start                  (a2c, ppo)
  has_limit     the routine stops at total_episodes directly after stop_episode (no start follows)
  empty_restart start_new_episode is called although an episode without any step is open (reinforce: dangling start)
  stop_arg      what stop_episode receives: "episode_steps" (every routine that calls it)
  return_src    "own" (accumulated reward) | "info" (info["episode"]["r"] if supplied) | "wrapper" | "none"
  info_supplied the environment of the sweep supplies info["episode"] (never: ScriptEnv returns {})
  return_pos    "before_stop" | "after_start" | "any"
  episode_arg   "none" | "index1" (own 1-based episode counter) | "starts_m1" (logger.n_episodes - 1)
  stats         key -> step class; epochs: key -> step class; classes:
                "G"    start + steps executed so far (step + 1 after the step, t before it)
                "Gm1"  G - 1 (the index of the step just executed)
                "none" no step argument
                "batch" G - training_steps + index of the gradient iteration (TD7: batched training is back-dated)
                "calls" / "calls_before"  a2c: num_envs * vector calls (after / before the current call)
                "finished_len"            ppo: sum of the (wrapper) lengths of the finished episodes
                "loop_index"              ppo: iteration index
  batch_key     the statistic whose VALUE is the number of gradient iterations that follow ("training steps")
  copies        [target, source, lag]: hard copies - a copy of unchanged content is invisible; lag: the copy precedes the
                update of its source within one gradient iteration (the target receives the source's PREVIOUS content)
  units         design model only: [component, stat key, epoch key, every] - what one learning segment updates and records
  learn_pos     design model only: "after_step" | "before_step" | "after_collect" | "episode_start" | "none"
  twin          what the run with logger=None must share with the logged run: "full" (every non-logger event: environment calls,
                actions, stored experience, samples, component changes) | "env_only" (reset / step events without the action)
"""
from __future__ import annotations

G, GM1, NONE = "G", "Gm1", "none"


def _cfg(**over):
    c = dict(mode="on", bracket="full", vector=False, wrapper="none", prologue="start_reset", ending="ret_stop_start_reset", has_limit=False,
             empty_restart=False, start_first=True, stop_arg="episode_steps", return_src="own", info_supplied=False, return_pos="before_stop", episode_arg="none",
             stats={}, epochs={}, batch_key="", copies=[], units=[], learn_pos="after_step", abandon_on_inner_call=False, twin="full")
    c.update(over)
    return c


OFF = _cfg(mode="off", bracket="none", start_first=False, prologue="reset", ending="ret_reset", return_src="none", return_pos="any", learn_pos="none")

# ---- DQN family -------------------------------------------------------------------------------------------------------
# dqn.py:133-134 start once; 181-188 stats/epoch step=step+1, episode=episode; 192-199 return at the episode end; no stop_episode,
# no further start_new_episode.
_DQN_STATS = {"q loss": G, "q mean": G, "return": G}
DQN = _cfg(bracket="open_only", ending="ret_reset", return_pos="any", episode_arg="index1", stats=_DQN_STATS, epochs={"q": G},
           units=[["q", "q loss", "q", 1]])
# nature_dqn.py: no start_new_episode anywhere (171-190 stats, epoch, return only)
NATURE_DQN = dict(DQN, bracket="none", start_first=False, prologue="reset")
# ddqn.py:123-124 start once; 175-195 as dqn
DDQN = dict(DQN)
# per.py:132-133 start once; 181-194 "weighted loss", "abs td error" (a vector), "q mean", epoch q; 204-207 return
DDQN_PER = dict(DQN, stats={"weighted loss": G, "abs td error": G, "q mean": G, "return": G}, units=[["q", "weighted loss", "q", 1]])

# ---- DDPG / TD3 / SAC / TD7 / MR.Q ------------------------------------------------------------------------------------
# ddpg.py:393-394 start, reset; 446-461 stats + four epochs at global_step + 1; 464-468 return, stop(steps_per_episode);
# 471-472 break at total_episodes; 474-475 start; 479 reset
DDPG = _cfg(has_limit=True, stats={"q loss": G, "q mean": G, "policy loss": G, "return": G}, epochs={"q": G, "q_target": G, "policy": G, "policy_target": G},
            units=[["q", "q loss", "q", 1], ["policy", "policy loss", "policy", 1], ["q_target", "", "q_target", 1]])
# td3.py:404-405; 477-481 (policy, policy_target, q_target only when step % policy_delay == 0); 484-492
TD3 = _cfg(has_limit=True, stats={"q loss": G, "q mean": G, "policy loss": G, "return": G}, epochs={"q": G, "policy": G, "policy_target": G, "q_target": G},
           units=[["q", "q loss", "q", 1], ["policy", "policy loss", "policy", 2], ["q_target", "", "q_target", 2]])
# td3_lap.py:221-222; 298-302; 308-316: return only if "episode" in info, then stop, start (no episode limit), reset
TD3_LAP = dict(TD3, has_limit=False, ending="stop_start_reset", return_src="info")
# sac.py:498-499; 581-585 stats / epochs at step (NOT step + 1); 588-590 return at step, stop; 593-595 break; 597-598 start
SAC = _cfg(has_limit=True, stats={"q loss": GM1, "q mean": GM1, "policy loss": GM1, "alpha": GM1, "alpha loss": GM1, "return": GM1},
           epochs={"q": GM1, "policy": GM1, "q_target": GM1},
           units=[["q", "q loss", "q", 1], ["policy", "policy loss", "policy", 2], ["q_target", "", "q_target", 3]])
# td7.py:696-697; 768-778 checkpoint epochs / CheckpointState stats at step + 1; 780-783 "training steps" at step + 1;
# 809-816 metrics / epochs of gradient iteration idx of a batch of training_steps at step + 1 - training_steps + idx;
# 819-821 return, stop; 824-826 break; 828-829 start.  _train_step 871-969: metrics = embedding loss, q loss,
# ValueClippingState.__dict__, [policy loss]; hard copies 955-959 in the order actor, critic, fixed_embedding_target <-
# fixed_embedding, THEN fixed_embedding <- embedding (so fixed_embedding_target lags by one update).
_TD7_STATS = {"training steps": G, "embedding loss": "batch", "q loss": "batch", "policy loss": "batch", "min_value": "batch", "max_value": "batch",
              "min_target_value": "batch", "max_target_value": "batch", "return": G}
_TD7_EPOCHS = {k: "batch" for k in ("embedding", "q", "policy", "policy_target", "q_target", "fixed_embedding", "fixed_embedding_target")}
_TD7_COPIES = [["policy_target", "policy", False], ["q_target", "q", False], ["fixed_embedding", "embedding", False], ["fixed_embedding_target", "fixed_embedding", True]]
TD7 = _cfg(has_limit=True, stats=_TD7_STATS, epochs=_TD7_EPOCHS, batch_key="training steps", copies=_TD7_COPIES,
           units=[["q", "q loss", "q", 1], ["policy", "policy loss", "policy", 2], ["q_target", "", "q_target", 3]])
TD7_CKPT = dict(TD7, stats=dict(_TD7_STATS, episodes_since_udpate=G, timesteps_since_upate=G, max_episodes_before_update=G, min_return=G, best_min_return=G),
                epochs=dict(_TD7_EPOCHS, actor_checkpoint=G, fixed_embedding_checkpoint=G),
                copies=_TD7_COPIES + [["actor_checkpoint", "policy", True], ["fixed_embedding_checkpoint", "fixed_embedding", True]], learn_pos="batched")
# mrq.py:603-604; 640-674 at epoch % target_delay == 0: targets copied FIRST, then the encoder is trained: stats at step + 1,
# epochs (policy_with_encoder_target, q_target) WITHOUT step; 700-711 stats at step + 1, epochs (q, policy_with_encoder) without step;
# 714-716 return, stop; 718-720 break; 721-722 start
MRQ = _cfg(has_limit=True, stats={k: G for k in ("reward scale", "encoder loss", "dynamics loss", "reward loss", "done loss", "reward mse", "q loss", "q mean",
                                                  "policy loss", "dpg loss", "policy regularization", "return")},
           epochs={k: NONE for k in ("policy_with_encoder_target", "q_target", "q", "policy_with_encoder")},
           copies=[["policy_with_encoder_target", "policy_with_encoder", True], ["q_target", "q", True]],
           units=[["q", "q loss", "q", 1], ["policy_with_encoder", "policy loss", "policy_with_encoder", 1]])

# ---- PE-TS, CMA-ES ------------------------------------------------------------------------------------------------------
# pets.py:588-591 reset THEN start; 595-613 the model is refined BEFORE step t: stat / epoch at t (= steps executed so far);
# 632-636 return at t (= index of the step just executed) only if "episode" in info, stop, start; 639 reset
PETS = _cfg(prologue="reset_start", ending="stop_start_reset", return_src="info", stats={"dynamics model loss": G, "return": GM1}, epochs={"dynamics_model": G},
            units=[["dynamics_model", "dynamics model loss", "dynamics_model", 1]], learn_pos="before_step")
# cmaes.py:681-684 reset, start; 686 set_params per episode; 698 reset; 461-464 three stats without step inside
# is_cmaes_finished; 710-714 stop(step_counter), start, THEN "return" (recorded into the episode just opened) and epoch policy;
# an early stop (703-704 break) leaves the last episode unstopped
CMAES = _cfg(prologue="reset_start", ending="reset_stop_start_ret", return_pos="after_start",
             stats={"return": NONE, "total_variance": NONE, "max_fitness_dist": NONE, "condition_number": NONE}, epochs={"policy": NONE},
             units=[["policy", "", "policy", 1]], learn_pos="episode_start")

# ---- REINFORCE / actor-critic ---------------------------------------------------------------------------------------------
# reinforce.py:612-613 every collection call: start; 617 reset; 635-637 stop, start; 640-641 end of the call (the episode just
# started stays open and empty); 645-650 "average return" episode=n_episodes-1; 537-541 / 552-556 losses + epochs.
# actor_critic.py:189-206 the same with its own update functions.
REINFORCE = _cfg(prologue="call", ending="stop_start", empty_restart=True, return_src="none", return_pos="any", episode_arg="starts_m1",
                 stats={"average return": NONE, "policy loss": NONE, "value function loss": NONE}, epochs={"policy": NONE, "value_function": NONE},
                 units=[["policy", "policy loss", "policy", 1], ["value_function", "value function loss", "value_function", 1]], learn_pos="after_collect")

# ---- vector environments ----------------------------------------------------------------------------------------------------
# a2c.py: no start before the loop; 81-91 per finished sub-environment (RecordEpisodeStatistics supplied by the caller): return
# at global_step (= num_envs * vector calls BEFORE this call, 102), start; 254-259 losses at global_step after the block, epochs
# every 10th block
A2C = _cfg(bracket="tick", vector=True, wrapper="next_step", start_first=False, prologue="reset", ending="ret_tick", return_src="wrapper", return_pos="any",
           stats={"return": "calls_before", "policy_loss": "calls", "value_loss": "calls"}, epochs={"policy": NONE, "value_function": NONE},
           units=[["policy", "policy_loss", "", 1]], learn_pos="after_collect")
# ppo.py:337-341 reset, wrap with RecordEpisodeStatistics (SAME_STEP asserted), start; 101-118 per finished sub-environment:
# global_step += l, return at global_step, start; 379-380 loss at step=iteration.
# The final observation of a finished episode (for next_value) is restored from info["final_obs"] independent of the logger since
# /repo commit 5ae04f4 (before, it was gated by `logger is not None and "episode" in info`: a run with logger=None learnt from
# different next values - found by this module's twin comparison); the full twin comparison applies.
PPO = _cfg(bracket="tick", vector=True, wrapper="same_step", prologue="reset_start", ending="ret_tick", return_src="wrapper", return_pos="any",
           stats={"return": "finished_len", "loss": "loop_index"}, epochs={}, units=[["policy", "loss", "", 1]], learn_pos="after_collect")

# ---- multi-task schedulers (thorough tier): chained calls of a single-task learner with the same logger --------------------
# uniform_task_sampling.py:65-84 train_sac(total_episodes=episodes_per_task, global_step=global_step, logger=logger)
UTS = dict(SAC, abandon_on_inner_call=True)
# smt.py:240-289 train_ddpg per task, then five stats at global_step; 328-334 two stats; 379-410; a call that ends at the stage
# budget leaves its episode open, the next call starts a new one
_SMT_KEYS = ("task_id", "task_performance", "pool_size_main", "pool_size_solved", "pool_size_unsolvable", "worst task", "worst performance")
SMT = dict(DDPG, abandon_on_inner_call=True, stats=dict(DDPG["stats"], **{k: G for k in _SMT_KEYS}))
# active_mt.py:174-177 "task_id" at global_step before every call of train_ddpg
ACTIVE_MT = dict(DDPG, abandon_on_inner_call=True, stats=dict(DDPG["stats"], task_id=G))

BY_ROUTINE = {
    "dqn": DQN, "nature_dqn": NATURE_DQN, "ddqn": DDQN, "ddqn_per": DDQN_PER, "ddpg": DDPG, "td3": TD3, "td3_lap": TD3_LAP, "sac": SAC, "td7": TD7,
    "td7_ckpt": TD7_CKPT, "mrq": MRQ, "pets": PETS, "cmaes": CMAES, "reinforce": REINFORCE, "reinforce_gauss": REINFORCE, "actor_critic": REINFORCE,
    "a2c": A2C, "ppo": PPO, "q_learning": OFF, "sarsa": OFF, "double_q_learning": OFF, "monte_carlo": OFF, "dynaq": OFF, "rollout": OFF,
    "uts": UTS, "smt": SMT, "active_mt": ACTIVE_MT,
}

# what the unchanged code does although it looks wrong / differs from the other routines (reported, not failed)
ODDITIES = [
    ("dqn / ddqn / ddqn_per", "dqn.py:133, ddqn.py:123, per.py:132", "start_new_episode once before the loop, never again; stop_episode never (bracket=open_only)"),
    ("nature_dqn", "nature_dqn.py:147-195", "neither start_new_episode nor stop_episode is ever called (bracket=none)"),
    ("sac", "sac.py:583-589", "step= is the index of the step just executed (step), every sibling routine passes step + 1 (class Gm1)"),
    ("pets", "pets.py:608-634", "the return statistic is recorded at t (index of the step, Gm1) while the model statistics use t = steps executed so far (G)"),
    ("cmaes", "cmaes.py:710-714", "reset precedes stop_episode; 'return' and the policy epoch are recorded AFTER start_new_episode, i.e. into the next logger episode; a start follows the last episode"),
    ("reinforce / actor_critic", "reinforce.py:612-613, 636-641", "every collection call ends with a dangling start_new_episode and the next call starts another one: n_episodes grows by one per call (empty_restart)"),
    ("td7 (checkpoints)", "td7.py:809-816", "statistics of batched training are back-dated (step + 1 - training_steps + idx): step arguments are not monotone across keys"),
    ("mrq", "mrq.py:671-674, 710-711", "record_epoch without step"),
    ("td3_lap / pets", "td3_lap.py:309, pets.py:633", "'return' only when the environment supplies info['episode'] (never recorded on a plain environment)"),
    ("a2c", "a2c.py:88-91", "no start_new_episode before the first episode; start_new_episode as a tick per finished episode; needs a RecordEpisodeStatistics wrapper (undocumented)"),
    ("ppo", "ppo.py:337-338, 101-118", "RecordEpisodeStatistics (gymnasium 1.3.0) skips the call after an episode end; in SAME_STEP mode that call is the first step of the next episode: 'return' and the step argument miss it"),
    ("ppo", "ppo.py:95-104 before /repo 5ae04f4 (fixed there)", "logger=None used to change the learning data: the final observation of a finished episode replaced the auto-reset observation (for next_value) only inside `if logger is not None and 'episode' in info`; now independent of the logger, twin=full"),
    ("ppo", "ppo.py:380", "'loss' uses step=iteration while 'return' uses the environment-step count"),
]


def log_cfg(routine):
    if routine not in BY_ROUTINE:
        raise KeyError(f"X05 has no logger configuration for routine {routine}")
    c = dict(BY_ROUTINE[routine])
    c["stat_keys"] = sorted(c["stats"])
    c["epoch_keys"] = sorted(c["epochs"])
    return c
