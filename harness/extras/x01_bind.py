"""X01 binding: projections between the real PE-TS objects and the tags / key paths of spec/Mpc.tla, and the
three ways the real code is driven:

  level 1  MpcBench         real PETSMPCConfig / PETSMPCState / mpc_action with a tagging stub optimiser (graph.cover)
  level 2  run_optimize     real _pets_optimize / _pets_opt_iter / evaluate_plans / ts_inf with recording stub
                            sample_fn / update_fn / reward model / dynamics model
  level 3  run_train_pets   real train_pets on the scripted environment with mpc_action, update_dynamics_model, the
                            replay buffer and the logger interposed -> event trace for spec/MpcTrace.tla

Python only projects, feeds and compares: every expected value comes from TLC.
"""
from __future__ import annotations

import json
import os
import types

import numpy as np

from .. import tlc
from ..algos import guarded, interpose
from ..envs import Recorder, ScriptEnv, adigest, decode_obs
from ..graph import Mismatch

ADIM = 2
LOW, HIGH = (-1.0, -0.5), (2.0, 0.25)            # ScriptEnv bounds used by every run
AVG = (0.5, -0.125)                              # 0.5 * (high + low), exact in float32; not a tag value
UNKNOWN_KEY = [9]


class _Lazy:
    def __init__(self):
        self.ready = False

    def load(self):
        if self.ready:
            return self
        import jax
        import jax.numpy as jnp
        from flax import nnx

        from rl_blox.algorithm import pets
        from rl_blox.blox import replay_buffer as rb

        self.jax, self.jnp, self.nnx, self.pets, self.rb = jax, jnp, nnx, pets, rb
        self.ready = True
        return self


L = _Lazy()


# ------------------------------------------------------------------ tags <-> rows
def tag_row(c, k):
    """row of a plan that carries the tag <<c, k>>: every action component is c + k/8 (dyadic, c >= 1, 1 <= k <= 7)"""
    return np.full((ADIM,), float(c) + float(k) / 8.0, dtype=np.float32)


class RowIds:
    """float32 rows -> tags.  avg_act -> [0, 0]; a tag row -> [c, k]; anything else -> [1000 + n, 0] (n-th distinct foreign row)."""

    def __init__(self, avg=AVG):
        self.avg = np.asarray(avg, dtype=np.float32)
        self.foreign = {}

    def row(self, r):
        r = np.asarray(r, dtype=np.float32).reshape(-1)
        if r.shape == self.avg.shape and r.tobytes() == self.avg.tobytes():
            return [0, 0]
        v = float(r[0]) if r.size else -1.0
        if r.size == ADIM and np.all(r == r[0]) and v >= 1.0 and (v * 8.0) == int(v * 8.0):
            c = int(v)
            k = int(round((v - c) * 8))
            if 1 <= k <= 7 and c < 1000:
                return [c, k]
        d = adigest(r)
        if d not in self.foreign:
            self.foreign[d] = len(self.foreign)
        return [1000 + self.foreign[d], 0]

    def plan(self, p):
        p = np.asarray(p)
        if p.ndim != 2:
            return [[-1, int(p.ndim)]]
        return [self.row(r) for r in p]


# ------------------------------------------------------------------ key paths <-> keys
def _kd(key):
    return np.asarray(L.jax.random.key_data(key)).tobytes()


class KeyTree:
    """Paths of the split tree below `root` that the models can name: 0^n followed by at most `tail` further choices."""

    def __init__(self, root, depth, tail=3):
        self.root = root
        self.table = {}
        spine = root
        for n in range(depth + 1):
            self._below(spine, [0] * n, tail)
            spine = L.jax.random.split(spine, 2)[0]

    def _below(self, key, path, tail):
        self.table.setdefault(_kd(key), list(path))
        if tail == 0:
            return
        ks = L.jax.random.split(key, 2)
        for i in (0, 1):
            self._below(ks[i], path + [i], tail - 1)

    def path(self, key):
        try:
            return self.table.get(_kd(key), UNKNOWN_KEY)
        except Exception:
            return UNKNOWN_KEY

    def key(self, path):
        k = self.root
        for i in path:
            k = L.jax.random.split(k, 2)[int(i)]
        return k


# ------------------------------------------------------------------ level 1
class MpcBench:
    """Real PETSMPCConfig + PETSMPCState; the optimiser is a stub that tags its result as the model's abstract optimiser does."""

    def __init__(self, h, with_prev, seed, share=None):
        L.load()
        jnp, pets = L.jnp, L.pets
        self.h, self.with_prev, self.seed = h, with_prev, seed
        if share is None:
            self.cfg = pets.PETSMPCConfig(plan_horizon=h, n_particles=1, n_samples=1, n_opt_iter=1, init_with_previous_plan=with_prev,
                                          reward_model=None, action_space_shape=(ADIM,), avg_act=jnp.asarray(np.asarray(AVG, dtype=np.float32)),
                                          init_var=jnp.ones((h, ADIM), dtype=jnp.float32), sample_fn=None, update_fn=None)
            self.model = types.SimpleNamespace(name="dynamics-model-sentinel")
            self.tree = KeyTree(L.jax.random.key(seed), 8, tail=2)
            self.state = pets.PETSMPCState(dynamics_model=self.model, prev_plan=pets.PETSMPCState.initial_plan(self.cfg), key=L.jax.random.key(seed))
        else:
            self.cfg, self.model, self.tree = share.cfg, share.model, share.tree
            self.state = pets.PETSMPCState(dynamics_model=share.state.dynamics_model, prev_plan=share.state.prev_plan, key=share.state.key)
        self.ids = RowIds()
        self.calls = share.calls if share else 0
        self.ep_first = share.ep_first if share else 0

    def clone(self):
        return MpcBench(self.h, self.with_prev, self.seed, share=self)


def mpc_step(b: MpcBench, op, args, exp, pre=None, post=None):
    pets, jnp = L.pets, L.jnp
    if op == "EpisodeReset":
        # the statement of train_pets at an episode end
        b.state.prev_plan = pets.PETSMPCState.initial_plan(b.cfg)
        b.ep_first = b.calls
        return
    if op != "MpcAction":  # pragma: no cover
        raise AssertionError(op)
    c, mask = int(args["c"]), set(args["mask"])
    obs = np.asarray([c, 7.0, 0.0], dtype=np.float32)
    seen = []

    def stub(dm, plan, key, o):
        seen.append((dm, plan, key, o))
        rows = [plan[k] if (k + 1) in mask else jnp.asarray(tag_row(c, k + 1)) for k in range(b.h)]
        return jnp.stack(rows)

    act = pets.mpc_action(b.cfg, b.state, stub, obs)
    b.calls += 1
    if len(seen) != 1:
        raise Mismatch(f"mpc_action called the optimiser {len(seen)} times, model: once", code="mpc_action:optimiser_calls")
    dm, plan, key, o = seen[0]
    got_in = b.ids.plan(plan)
    if got_in != exp["in"]:
        raise Mismatch(f"plan handed to the optimiser {got_in}, model {exp['in']} (init_with_previous_plan={b.with_prev})", code="mpc_action:optimiser_input")
    kp = b.tree.path(key)
    if kp != exp["optkey"]:
        raise Mismatch(f"key handed to the optimiser is split-path {kp} of the initial key, model {exp['optkey']}", code="mpc_action:optimiser_key")
    if dm is not b.model:
        raise Mismatch("the optimiser was not handed state.dynamics_model", code="mpc_action:optimiser_model")
    if np.asarray(o).shape != obs.shape or not np.array_equal(np.asarray(o), obs):
        raise Mismatch(f"observation handed to the optimiser {np.asarray(o).tolist()}, given {obs.tolist()}", code="mpc_action:optimiser_obs")
    a = np.asarray(act)
    if a.shape != (ADIM,):
        raise Mismatch(f"returned action has shape {a.shape}, model: one row {(ADIM,)}", code="mpc_action:returned_shape")
    got = b.ids.row(a)
    if got != exp["ret"]:
        raise Mismatch(f"returned action is row {got}, model {exp['ret']} (optimised plan {exp['out']})", code="mpc_action:returned_row")


def mpc_project(b: MpcBench):
    return {"prevPlan": b.ids.plan(b.state.prev_plan), "key": b.tree.path(b.state.key), "calls": b.calls, "epFirst": b.ep_first}


# ------------------------------------------------------------------ level 2
ODIM = 3
GIVEN0, VAR0, MEAN_BASE, VAR_BASE = 500.0, 300.0, 1000.0, 2000.0


def cand_grid(i, ns, h):
    """candidate set of the i-th sample_fn call as the model numbers it: Val(i, s, k) = 64 i + 8 s + k in every action component"""
    s = np.arange(1, ns + 1, dtype=np.float32)[:, None, None]
    k = np.arange(1, h + 1, dtype=np.float32)[None, :, None]
    return np.broadcast_to(64.0 * i + 8.0 * s + k, (ns, h, ADIM)).astype(np.float32).copy()


def run_optimize(n, ns, p, o0, h, seed, nens):
    """One real _pets_optimize call with recording stubs -> dict(log=[...], ret=array, given=.., K=key, tree=KeyTree) or error string."""
    L.load()
    jax, jnp, nnx, pets = L.jax, L.jnp, L.nnx, L.pets
    log = []
    given = np.asarray([[GIVEN0 + k + 1] * ADIM for k in range(h)], dtype=np.float32)
    var0 = np.asarray([[VAR0 + k + 1] * ADIM for k in range(h)], dtype=np.float32)
    count = {"sample": 0, "update": 0}

    def sample_fn(mean, var, key):
        count["sample"] += 1
        log.append(dict(call="sample", mean=np.asarray(mean), var=np.asarray(var), key=key))
        return jnp.asarray(cand_grid(count["sample"], ns, h))

    def update_fn(actions, returns, mean, var):
        count["update"] += 1
        log.append(dict(call="update", actions=np.asarray(actions), returns=np.asarray(returns), mean=np.asarray(mean), var=np.asarray(var)))
        i = count["update"]
        return jnp.full((h, ADIM), MEAN_BASE + i, dtype=jnp.float32), jnp.full((h, ADIM), VAR_BASE + i, dtype=jnp.float32)

    def reward_model(act, obs):
        log.append(dict(call="reward", act=np.asarray(act), obs=np.asarray(obs)))
        return act[..., 0] + 4096.0 * obs[..., 0]

    class _Dist:
        def __init__(self, idx):
            self.idx = idx

        def sample(self, seed=None):
            # deterministic "dynamics": first observation component grows by one per predicted step
            return jnp.zeros((ODIM,), dtype=jnp.float32).at[0].set(1.0)

    class StubDynamics(nnx.Module):
        def __init__(self):
            self.n_ensemble = nens

        def base_distribution(self, x, model_idx):
            return _Dist(model_idx)

    dyn = StubDynamics()
    cfg = pets.PETSMPCConfig(plan_horizon=h, n_particles=p, n_samples=ns, n_opt_iter=n, init_with_previous_plan=True, reward_model=reward_model,
                             action_space_shape=(ADIM,), avg_act=jnp.asarray(np.asarray(AVG, dtype=np.float32)), init_var=jnp.asarray(var0),
                             sample_fn=sample_fn, update_fn=update_fn)
    K = jax.random.fold_in(jax.random.key(seed), 77)
    obs = np.asarray([o0, 0.0, 5.0], dtype=np.float32)
    real_ts = pets.ts_inf

    def ts_rec(keys, midx, acts, ob, dm):
        log.append(dict(call="ts_inf", keys=keys, midx=np.asarray(midx), acts=np.asarray(acts), obs=np.asarray(ob), dm=dm))
        return real_ts(keys, midx, acts, ob, dm)

    with interpose(pets, ts_inf=ts_rec):
        ret, err = guarded(lambda: pets._pets_optimize(cfg, dyn, jnp.asarray(given), K, jnp.asarray(obs)))
    return dict(log=log, ret=None if ret is None else np.asarray(ret), err=err, given=given, var0=var0, K=K, dyn=dyn, obs=obs)


def _dist_id(arr, zero, base):
    arr = np.asarray(arr, dtype=np.float32)
    if arr.shape == zero.shape and np.array_equal(arr, zero):
        return 0
    v = float(arr.reshape(-1)[0]) if arr.size else -1.0
    if arr.shape == zero.shape and np.all(arr == v) and v > base and v == int(v):
        return int(v - base)
    return -1


def _cand_id(arr, ns, h):
    arr = np.asarray(arr, dtype=np.float32)
    if arr.shape != (ns, h, ADIM):
        return -1
    i = int(arr[0, 0, 0]) // 64
    return i if np.array_equal(arr, cand_grid(i, ns, h)) else -1


def compare_optimize(run, events):
    """Compare the recorded calls of one real planning call with TLC's behaviour (OptBegin, OptIter*, OptReturn).
    -> list of (key, what)"""
    jax = L.jax
    out = []
    par = events[0]["args"]
    n, ns, p, h, o0 = par["n"], par["ns"], par["p"], par["h"], par["o0"]
    if run["err"]:
        return [("_pets_optimize:raises", f"_pets_optimize raised {run['err']} for {par}")]
    tree = KeyTree(run["K"], 2 * n + 2, tail=3)
    begin = events[0]["exp"]
    iters = [e["exp"] for e in events if e["op"] == "OptIter"]
    fin = [e["exp"] for e in events if e["op"] == "OptReturn"][0]
    log = run["log"]
    kinds = [e["call"] for e in log]
    want_kinds = ["sample", "ts_inf", "reward", "update"] * len(iters)
    if kinds != want_kinds:
        return [("_pets_optimize:call_sequence", f"calls {kinds}, model {want_kinds} (n_opt_iter={n})")]
    midx_want = np.asarray(jax.random.randint(tree.key(begin["bootstrap_key"]), (begin["n_indices"],), begin["lo"], begin["hi"]))
    for it, ex in enumerate(iters):
        s, t, r, u = log[4 * it: 4 * it + 4]
        i = ex["i"]
        got = dict(mean=_dist_id(s["mean"], run["given"], MEAN_BASE), var=_dist_id(s["var"], run["var0"], VAR_BASE), key=tree.path(s["key"]))
        if got != ex["sample"]:
            k = "key" if got["key"] != ex["sample"]["key"] else "distribution"
            out.append((f"_pets_opt_iter:sample_{k}", f"iteration {i}: sample_fn got (mean #{got['mean']}, var #{got['var']}, key path {got['key']}), model {ex['sample']} ({par})"))
        # trajectory sampling: the candidates just sampled, the planner's observation, the bootstrap indices, fresh particle keys
        pk = jax.random.split(tree.key(ex["particle_key"]), (ns, p))
        try:
            same_keys = np.array_equal(np.asarray(jax.random.key_data(t["keys"])), np.asarray(jax.random.key_data(pk)))
        except Exception:
            same_keys = False
        if not same_keys:
            out.append(("_pets_opt_iter:particle_keys", f"iteration {i}: particle keys are not split(key at path {ex['particle_key']}, ({ns}, {p})) ({par})"))
        if t["midx"].shape != midx_want.shape or not np.array_equal(t["midx"], midx_want):
            out.append(("_pets_optimize:model_indices", f"iteration {i}: bootstrap indices {t['midx'].tolist()}, model randint(key at path {begin['bootstrap_key']}, ({begin['n_indices']},), {begin['lo']}, {begin['hi']}) = {midx_want.tolist()}"))
        if _cand_id(t["acts"], ns, h) != ex["rollout"]["actions"] or float(t["obs"][0]) != float(ex["rollout"]["obs0"]) or t["dm"] is not run["dyn"] or not np.array_equal(t["obs"], run["obs"]):
            out.append(("_pets_opt_iter:rollout_inputs", f"iteration {i}: ts_inf got candidates #{_cand_id(t['acts'], ns, h)}, obs {t['obs'].tolist()}; model candidates #{ex['rollout']['actions']}, obs0 {ex['rollout']['obs0']}"))
        if r["act"].shape != (ns, p, h, ADIM) or r["obs"].shape != (ns, p, h, ODIM):
            out.append(("evaluate_plans:reward_model_shapes", f"iteration {i}: reward model got actions {r['act'].shape}, observations {r['obs'].shape}; model {(ns, p, h, ADIM)}, {(ns, p, h, ODIM)}"))
        gu = dict(actions=_cand_id(u["actions"], ns, h), mean=_dist_id(u["mean"], run["given"], MEAN_BASE), var=_dist_id(u["var"], run["var0"], VAR_BASE))
        if gu != ex["update"]:
            out.append(("_pets_opt_iter:update_inputs", f"iteration {i}: update_fn got (candidates #{gu['actions']}, mean #{gu['mean']}, var #{gu['var']}), model {ex['update']} ({par})"))
        rets = np.asarray(u["returns"], dtype=np.float64)
        if rets.shape != (ns,) or rets.tolist() != [float(x) for x in ex["returns"]]:
            out.append(("_pets_opt_iter:returns", f"iteration {i}: expected returns handed to update_fn {rets.tolist()}, model {ex['returns']} ({par})"))
    rid = _dist_id(run["ret"], run["given"], MEAN_BASE)
    if rid != fin["ret"]:
        out.append(("_pets_optimize:returned", f"_pets_optimize returned distribution mean #{rid} (-1: none of the means), model #{fin['ret']} ({par})"))
    return out


# ------------------------------------------------------------------ level 0
def real_config(lo, hi, h):
    """PETSMPCConfig / PETSMPCState as train_pets builds them (zero steps) for a one-dimensional action box."""
    L.load()
    pets = L.pets
    rec = Recorder()
    env = ScriptEnv(rec, [(1, "term")], low=(lo,), high=(hi,))
    st = types.SimpleNamespace(model=_stub_dynamics())
    with interpose(pets, _pets_optimize=_plain_optimize):
        res, err = guarded(lambda: pets.train_pets(env, lambda a, o: o[..., 0], st, plan_horizon=h, n_particles=1, n_samples=2, n_opt_iter=1, seed=3,
                                                   total_timesteps=0, progress_bar=False))
    return res, err


def _plain_optimize(config, dynamics_model, mean, key, obs):
    return mean


def _stub_dynamics():
    nnx = L.nnx

    class StubDynamics(nnx.Module):
        def __init__(self):
            self.n_ensemble = 2

    return StubDynamics()


# ------------------------------------------------------------------ level 3
def _rowstr(obs, act, nxt):
    return f"{decode_obs(obs)}|{act}|{decode_obs(nxt)}"


def run_train_pets(sc):
    """sc: script, total, ls, nspi, lsgs, gs, h, with_prev, cap, logger, stats, seed, masks (list of lists, cycled), real (bool)
    -> trace dict {id, cfg, events, scenario, error?}"""
    L.load()
    jax, jnp, pets, rb = L.jax, L.jnp, L.pets, L.rb
    import gymnasium as gym

    from ..probes import _act, recording_logger

    rec = Recorder()
    base = ScriptEnv(rec, sc["script"], low=LOW, high=HIGH)
    env = gym.wrappers.RecordEpisodeStatistics(base) if sc["stats"] else base
    h, seed = sc["h"], sc["seed"]
    ids = RowIds()
    tree = KeyTree(jax.random.key(seed), sc["total"] + 2, tail=2)
    real = bool(sc.get("real"))
    if real:
        state = pets.create_pets_state(base, seed=seed, n_ensemble=2, hidden_nodes=(4,), learning_rate=0.01, batch_size=2)
    else:
        state = types.SimpleNamespace(model=_stub_dynamics())

    class Buf(rb.ReplayBuffer):
        def add_sample(self, **sample):
            out = super().add_sample(**sample)
            rec.emit("add", row=_rowstr(sample["observation"], _act(sample["action"]), sample["next_observation"]))
            return out

        def sample_batch(self, batch_size, rng):
            n_before = int(len(self))
            out = super().sample_batch(batch_size, rng)
            rows = [_rowstr(o, _act(a), n) for o, a, n in zip(np.asarray(out[0]), np.asarray(out[1]), np.asarray(out[3]))]
            rec.emit("sample", b=int(batch_size), n=n_before, rows=rows)
            return out

    buf = Buf(sc["cap"])
    logger = None
    if sc["logger"]:
        logger = recording_logger(rec)
        real_stat = logger.record_stat

        def record_stat(key, value, episode=None, step=None, t=None, verbose=None, format_str="{0:.3f}"):
            real_stat(key, value, episode=episode, step=step)
            e = rec.events[-1]
            v = float(np.asarray(value).reshape(-1)[0])
            e["v4"] = int(round(v * 4)) if abs(v) < 2**20 else -1

        real_epoch = logger.record_epoch

        def record_epoch(key, value, episode=None, step=None, t=None):
            real_epoch(key, value, episode=episode, step=step)
            rec.events[-1]["live"] = bool(value is state.model)

        logger.record_stat, logger.record_epoch = record_stat, record_epoch
    trains = []
    real_update = pets.update_dynamics_model

    def update_dynamics_model(dynamics_model, observations, actions, next_observations, train_key, n_epochs):
        rows = [_rowstr(o, _act(a), n) for o, a, n in zip(np.asarray(observations), np.asarray(actions), np.asarray(next_observations))]
        loss = real_update(dynamics_model, observations, actions, next_observations, train_key, n_epochs) if real and len(rows) else jnp.asarray(0.25 * (len(trains) + 1))
        trains.append(1)
        rec.emit("train", rows=rows, epochs=int(n_epochs), kpath=tree.path(train_key), live=bool(dynamics_model is state),
                 val=adigest(np.asarray(float(np.asarray(loss)), dtype=np.float64)))
        return loss

    real_mpc = pets.mpc_action
    seen_fn = []
    holder = {}
    masks = sc.get("masks") or [[]]

    def mpc_action(config, mpc_state, optimize_fn, obs):
        holder["state"] = mpc_state
        c = len(seen_fn) + 1
        seen_fn.append(optimize_fn)
        before = ids.plan(mpc_state.prev_plan)
        skey_b = tree.path(mpc_state.key)
        mask = set(masks[(c - 1) % len(masks)])
        calls = []

        def tagging(dm, plan, key, o):
            if real:
                out = optimize_fn(dm, plan, key, o)
            else:
                out = jnp.stack([plan[k] if (k + 1) in mask and k < plan.shape[0] else jnp.asarray(tag_row(c, k + 1)) for k in range(h)])
            calls.append(dict(inp=ids.plan(plan), okey=tree.path(key), out=ids.plan(out), live=bool(dm is state.model), obs=decode_obs(o)))
            return out

        act = real_mpc(config, mpc_state, tagging, obs)
        a32 = np.asarray(act, dtype=np.float32)
        first = calls[0] if calls else dict(inp=[], okey=UNKNOWN_KEY, out=[], live=True, obs=decode_obs(obs))
        rec.emit("plan", obs=first["obs"] if calls else decode_obs(obs), given=decode_obs(obs), before=before, inp=first["inp"], okey=first["okey"], out=first["out"],
                 ncalls=len(calls), live=first["live"], ret=ids.row(a32) if a32.shape == (ADIM,) else [-1, -1], retd=adigest(a32),
                 after=ids.plan(mpc_state.prev_plan), skey_b=skey_b, skey_a=tree.path(mpc_state.key), samefn=bool(all(f is seen_fn[0] for f in seen_fn)),
                 mask=sorted(mask), c=c)
        return act

    patches = dict(mpc_action=mpc_action, update_dynamics_model=update_dynamics_model)
    if not real:
        patches["_pets_optimize"] = _plain_optimize

    def reward_model(act, obs):
        return obs[..., 1] - jnp.sum(act * act, axis=-1)

    with interpose(pets, **patches):
        res, err = guarded(lambda: pets.train_pets(
            env, reward_model, state, plan_horizon=h, n_particles=2, n_samples=10, n_opt_iter=1, init_with_previous_plan=sc["with_prev"], seed=seed,
            total_timesteps=sc["total"], learning_starts=sc["ls"], learning_starts_gradient_steps=sc["lsgs"], n_steps_per_iteration=sc["nspi"],
            gradient_steps=sc["gs"], replay_buffer=buf, logger=logger, progress_bar=False))
    if res is not None:
        ms = res.mpc_state
        rec.emit("result", plan=ids.plan(ms.prev_plan), skey=tree.path(ms.key), n=int(len(res.replay_buffer)),
                 same_state=bool(holder.get("state") is None or holder["state"] is ms), same_buffer=bool(res.replay_buffer is buf))
    cfg = dict(h=h, with_prev=bool(sc["with_prev"]), ls=sc["ls"], nspi=sc["nspi"], lsgs=sc["lsgs"], gs=sc["gs"], total=sc["total"], cap=sc["cap"],
               logger=bool(sc["logger"]), stats=bool(sc["stats"]))
    tr = {"id": sc["label"], "cfg": cfg, "events": rec.events, "scenario": sc}
    if err:
        tr["error"] = err
    return tr


EV_DEFAULTS = dict(
    obs=[-1, -1, -1], act="none", r4=0, term=False, trunc=False, key="", kpath=UNKNOWN_KEY, step=-1, n=0, b=0, rows=[], row="", epochs=0, live=True,
    val="", v4=0, before=[], inp=[], out=[], ret=[-1, -1], retd="", after=[], okey=UNKNOWN_KEY, skey_b=UNKNOWN_KEY, skey_a=UNKNOWN_KEY, skey=UNKNOWN_KEY,
    samefn=True, plan=[], seeded=False, ncalls=1,
)


def normalise(trace):
    evs = []
    for e in trace["events"]:
        n = {"ev": e["ev"]}
        for k, d in EV_DEFAULTS.items():
            n[k] = e.get(k, d)
        n["act"] = str(n["act"])
        evs.append(n)
    return {"id": trace["id"], "cfg": trace["cfg"], "events": evs}


def validate(traces, tag="x01trace", timeout=600):
    """MpcTrace on a batch of traces -> {id: dict(steps, trainings, calls, viol=[(pos, clause)])}, TlcResult"""
    norm = [normalise(t) for t in traces]
    path = f"/tmp/{tag}-{os.getpid()}.json"
    with open(path, "w") as f:
        json.dump(norm, f)
    try:
        r = tlc.run("MpcTrace", tlc.cfg_text(constraints=["Verdict"]), workers=1, env={"TRACE_FILE": path}, tag=tag, timeout=timeout)
    finally:
        os.remove(path)
    out = {}
    for line in r.stdout.splitlines():
        if line.startswith('<<"VERDICT", "'):
            d = json.loads(json.loads(line[len('<<"VERDICT", '):-2]))
            out[d["id"]] = dict(steps=d["steps"], trainings=d["trainings"], calls=d["calls"], viol=sorted((int(a), b) for a, b in d["viol"]))
    missing = [t["id"] for t in norm if t["id"] not in out]
    if missing:
        raise tlc.MachineryError(f"MpcTrace gave no verdict for traces {missing}: {r.stdout[-1500:]}")
    return out, r
