"""X08 recording side: run the real off-policy routines through the existing adapters (harness/algos.py `dqn`,
`nature_dqn`, `ddqn`, `ddqn_per`, `ddpg`, `td3`, `td3_lap`; harness/algos_offpolicy2.py `sac`, `td7`, `mrq` - used
unchanged) with the module-level update functions interposed, and log the learning operations in program order:

  add        recording buffer (harness/probes.py): the transition of the step was stored
  us_sample  replay_buffer.sample_batch: requested batch size, rows of the returned batch, buffer length at the call,
             serial number of the batch (the leaves of the returned batch are remembered BY OBJECT IDENTITY)
  us_upd     one call of an update function: component, serial number of the batch whose leaves it was handed (0: none
             of the remembered batches), rows of that leaf, optimiser step counter before / after the call
               critic  the jitted partial(train_step_with_loss, <loss>) every routine builds with partial(nnx.jit, ...)
                       (the module-level name `nnx` is replaced by a proxy whose jit() wraps exactly that partial);
                       td7.td7_update_critic; mrq update_critic_and_policy through nnx.cached_partial (critic + actor)
               actor   ddpg_update_actor (ddpg, td3, td3_lap), sac_update_actor, td7_update_actor
               temp    sac._update_entropy_coefficient
               emb     td7.update_sale
               enc     mrq update_model_based_encoder through nnx.cached_partial
  us_tgt     soft_target_net_update / hard_target_net_update: which online component was the source
  update_priority   recording buffer

    python -m harness.extras.x08_record <tier> <seed> <group> <out.json>
"""
from __future__ import annotations

import functools
import json
import os
import sys

import numpy as np

_S = {"rec": None, "serial": 0, "leaves": {}, "recent": [], "roles": {}}


def ev(kind, **fields):
    rec = _S["rec"]
    if rec is not None:
        rec.events.append(dict(ev=kind, **fields))


def _leaves(x, depth=0):
    if isinstance(x, (tuple, list)) and depth < 4:
        for y in x:
            yield from _leaves(y, depth + 1)
    elif hasattr(x, "shape") and getattr(x, "ndim", 0) >= 1:
        yield x


def _remember(batch):
    _S["serial"] += 1
    sid = _S["serial"]
    lv = list(_leaves(batch))
    _S["recent"].append((sid, lv))  # the references keep the ids unique
    for a in lv:
        _S["leaves"][id(a)] = (a, sid)
    while len(_S["recent"]) > 6:
        _, old = _S["recent"].pop(0)
        for a in old:
            if _S["leaves"].get(id(a), (None,))[0] is a:
                del _S["leaves"][id(a)]
    return sid, (int(lv[0].shape[0]) if lv else 0)


def _consumed(args):
    """(serial, rows) of the remembered batch one of whose leaves is among the arguments (latest serial wins)."""
    best = (0, 0)
    for a in _leaves(tuple(args)):
        hit = _S["leaves"].get(id(a))
        if hit is not None and hit[0] is a and hit[1] > best[0]:
            best = (hit[1], int(a.shape[0]))
    return best


def _opt_step(opt):
    try:
        return int(np.asarray(opt.step.value))
    except Exception:
        return -1


def _upd(comp, opt, args, call):
    sid, rows = _consumed(args)
    s0 = _opt_step(opt)
    try:
        return call()
    finally:
        ev("us_upd", comp=comp, sid=sid, rows=rows, s0=s0, s1=_opt_step(opt))


# ------------------------------------------------------------------ buffer
def _recording_buffer_factory(real):
    def recording_buffer(base_cls, rec, *args, **kwargs):
        buf = real(base_cls, rec, *args, **kwargs)
        _S["rec"] = rec
        sb0 = buf.sample_batch
        subtraj = hasattr(buf, "horizon")

        def sample_batch(batch_size, *a, **k):
            n = -1 if subtraj else int(buf.current_len)  # the subtrajectory buffer stores an extra slot per episode end
            out = sb0(batch_size, *a, **k)
            sid, rows = _remember(out)
            comp = "enc" if (subtraj and len(a) >= 2 and bool(a[1])) else ""
            ev("us_sample", comp=comp, bs=int(batch_size), rows=rows, n=n, sid=sid)
            return out

        buf.sample_batch = sample_batch
        return buf

    return recording_buffer


# ------------------------------------------------------------------ interposed names
def _role(src, dst):
    rec = _S["rec"]
    for name, ent in getattr(rec, "law", {}).items():
        if ent[1] is src and ent[0] is dst:
            return {"q_target": "critic", "policy_target": "actor"}.get(name, name)
    r = _S["roles"].get(id(src))
    if r:
        return r
    enc = getattr(src, "encoder", None)
    if enc is not None and _S["roles"].get(id(enc)) == "enc":
        return "actor"  # MR.Q: policy_with_encoder -> policy_with_encoder_target
    return "?"


def _tgt_wrapper(real):
    def target_update(src, dst, *a, **k):
        out = real(src, dst, *a, **k)
        ev("us_tgt", comp=_role(src, dst))
        return out

    return target_update


def _actor_wrapper(real):
    def update_actor(policy, optimizer, *a, **k):
        _S["roles"].setdefault(id(policy), "actor")
        return _upd("actor", optimizer, a, lambda: real(policy, optimizer, *a, **k))

    return update_actor


class _NnxProxy:
    """Stands in for the module-level name `nnx`: everything is the real flax.nnx, but jit() of
    partial(train_step_with_loss, loss) and cached_partial() of MR.Q's two update functions return reporting callables."""

    def __init__(self, real, tswl, mrq=None):
        self._real, self._tswl, self._mrq = real, tswl, mrq

    def __getattr__(self, k):
        return getattr(self._real, k)

    def jit(self, f=None, **kw):
        g = self._real.jit(f, **kw)
        if isinstance(f, functools.partial) and f.func is self._tswl:
            def train_step(optimizer, q, *a, **k):
                _S["roles"].setdefault(id(q), "critic")
                return _upd("critic", optimizer, a, lambda: g(optimizer, q, *a, **k))

            return train_step
        return g

    def cached_partial(self, f, *args, **kwargs):
        g = self._real.cached_partial(f, *args, **kwargs)
        m = self._mrq
        if m is not None and f is m["critic"]:
            # update_critic_and_policy(q, q_target, q_optimizer, policy, policy_optimizer, encoder, encoder_target, ...)
            qopt, popt = args[2], args[4]
            _S["roles"][id(args[0])] = "critic"

            def critic_and_policy(next_actions, batch, *a, **k):
                sid, rows = _consumed((next_actions, batch) + tuple(a))
                c0, p0 = _opt_step(qopt), _opt_step(popt)
                try:
                    return g(next_actions, batch, *a, **k)
                finally:
                    ev("us_upd", comp="critic", sid=sid, rows=rows, s0=c0, s1=_opt_step(qopt))
                    ev("us_upd", comp="actor", sid=sid, rows=rows, s0=p0, s1=_opt_step(popt))

            return critic_and_policy
        if m is not None and f is m["encoder"]:
            # update_model_based_encoder(encoder, encoder_target, encoder_optimizer, ...)
            eopt = args[2]
            _S["roles"][id(args[0])] = "enc"

            def encoder(batches, *a, **k):
                return _upd("enc", eopt, (batches,) + tuple(a), lambda: g(batches, *a, **k))

            return encoder
        return g


def _td7_names(td7):
    real_step, real_sale, real_critic = td7._train_step, td7.update_sale, td7.td7_update_critic

    def _train_step(*a, **k):
        # positional layout of td7._train_step: embedding(1), critic(3), policy(6)
        try:
            r = _S["roles"]
            r[id(a[1])] = "fixed"  # embedding -> policy.embedding
            r[id(a[3])] = "critic"
            r[id(a[6].actor)] = "actor"
            r[id(a[6].embedding)] = "fixed_target"  # policy.embedding -> policy_target.embedding
        except Exception:
            pass
        return real_step(*a, **k)

    def update_sale(embedding, optimizer, *a, **k):
        return _upd("emb", optimizer, a, lambda: real_sale(embedding, optimizer, *a, **k))

    def td7_update_critic(*a, **k):
        # positional layout: fixed_embedding, fixed_embedding_target, critic, critic_target, critic_optimizer(4), ...
        return _upd("critic", a[4], a[5:], lambda: real_critic(*a, **k))

    return dict(_train_step=_train_step, update_sale=update_sale, td7_update_critic=td7_update_critic,
                td7_update_actor=_actor_wrapper(td7.td7_update_actor), hard_target_net_update=_tgt_wrapper(td7.hard_target_net_update))


def _names_for(routine):
    """module, {name: replacement}"""
    from flax import nnx
    from rl_blox.algorithm import dqn

    tswl = dqn.train_step_with_loss
    if routine == "dqn":
        return dqn, dict(nnx=_NnxProxy(nnx, tswl))
    if routine in ("nature_dqn", "ddqn", "ddqn_per"):
        import importlib

        m = importlib.import_module("rl_blox.algorithm." + {"ddqn_per": "per"}.get(routine, routine))
        return m, dict(nnx=_NnxProxy(nnx, tswl), hard_target_net_update=_tgt_wrapper(m.hard_target_net_update))
    if routine in ("ddpg", "td3", "td3_lap"):
        import importlib

        m = importlib.import_module("rl_blox.algorithm." + routine)
        return m, dict(nnx=_NnxProxy(nnx, tswl), ddpg_update_actor=_actor_wrapper(m.ddpg_update_actor),
                       soft_target_net_update=_tgt_wrapper(m.soft_target_net_update))
    if routine == "sac":
        from rl_blox.algorithm import sac

        real_temp = sac._update_entropy_coefficient

        def _update_entropy_coefficient(optimizer, *a, **k):
            return _upd("temp", optimizer, a, lambda: real_temp(optimizer, *a, **k))

        return sac, dict(nnx=_NnxProxy(nnx, tswl), sac_update_actor=_actor_wrapper(sac.sac_update_actor),
                         _update_entropy_coefficient=_update_entropy_coefficient, soft_target_net_update=_tgt_wrapper(sac.soft_target_net_update))
    if routine == "td7":
        from rl_blox.algorithm import td7

        return td7, _td7_names(td7)
    if routine == "mrq":
        from rl_blox.algorithm import mrq

        return mrq, dict(nnx=_NnxProxy(nnx, tswl, dict(critic=mrq.update_critic_and_policy, encoder=mrq.update_model_based_encoder)),
                         hard_target_net_update=_tgt_wrapper(mrq.hard_target_net_update))
    raise KeyError(routine)


def record(routine, sc):
    """Run adapter `routine` on scenario sc with the schedule probes; -> trace dict for UpdateScheduleTrace."""
    import contextlib

    from .. import algos, probes
    from ..algos import interpose

    _S.update(rec=None, serial=0, leaves={}, recent=[], roles={})
    mod, names = _names_for(routine)
    with contextlib.ExitStack() as st:
        st.enter_context(interpose(probes, recording_buffer=_recording_buffer_factory(probes.recording_buffer)))
        st.enter_context(interpose(mod, **names))
        tr = algos.run(routine, sc)
    _S.update(rec=None, serial=0, leaves={}, recent=[], roles={})
    return project(routine, sc, tr)


def project(routine, sc, tr):
    evs = []
    for e in tr["events"]:
        k = e["ev"]
        if k == "add":
            evs.append(dict(ev="add"))
        elif k == "us_sample":
            evs.append(dict(ev="sample", comp=e["comp"], bs=e["bs"], rows=e["rows"], n=e["n"], sid=e["sid"]))
        elif k == "us_upd":
            evs.append(dict(ev="upd", comp=e["comp"], sid=e["sid"], rows=e["rows"], s0=e["s0"], s1=e["s1"]))
        elif k == "us_tgt":
            evs.append(dict(ev="tgt", comp=e["comp"]))
        elif k == "update_priority":
            evs.append(dict(ev="prio", rows=int(e.get("n", 0))))
    evs.append(dict(ev="end"))
    fam_td = {"sac": "target_network_delay", "td7": "target_delay", "mrq": "target_delay"}.get(routine, "target_update_frequency")
    cfg = dict(routine=routine, warm=int(sc["warm"]) if routine != "dqn" else 0, start=int(sc.get("start", 0)), bs=int(sc["batch"]), cap=int(sc["cap"]),
               gs=int(sc.get("gsteps", 1)) if routine in ("ddpg", "td3", "td3_lap") else 1,
               pd=int(sc.get("policy_delay", 2)) if routine in ("td3", "td3_lap", "sac", "td7") else 1,
               td=int(sc.get(fam_td, 3)) if routine in ("sac", "td7", "mrq", "nature_dqn", "ddqn", "ddqn_per") else 1,
               uf=int(sc.get("update_frequency", 1)) if routine in ("nature_dqn", "ddqn", "ddqn_per") else 1,
               autotune=bool(routine == "sac"), budget=int(sc["budget"]))
    out = {"id": f"{routine}:{sc.get('label', '')}", "cfg": cfg, "events": evs, "scenario": sc}
    if tr.get("error"):
        out["error"] = tr["error"]
    return out


# ------------------------------------------------------------------ scenarios
GROUPS = {"dqn": ("dqn", "nature_dqn", "ddqn", "ddqn_per"), "grad": ("ddpg", "td3", "td3_lap"), "sac": ("sac",), "td7": ("td7",), "mrq": ("mrq",)}


def scenarios(tier, seed):
    """(group, routine, scenario).  Non-default, pairwise distinct schedule parameters; learning_starts is no multiple of a
    delay; continued runs (start > 0); capacities below the run length; episode ends inside due and non-due steps."""
    s = seed % 1000 + 1
    scr = [[(3, "term"), (2, "trunc"), (4, "term")], [(4, "trunc"), (1, "term"), (3, "term")], [(2, "term"), (5, "trunc")]]
    base = dict(eplimit=0, prefill=0)
    out = []

    def grp(r):
        return "lap" if r == "td3_lap" else "grad"

    for r in GROUPS["grad"]:
        out += [
            (grp(r), r, dict(base, label="g2", seed=s, script=scr[0], budget=14, start=0, warm=5, batch=4, cap=9, gsteps=2, policy_delay=3)),
            (grp(r), r, dict(base, label="g3", seed=s + 1, script=scr[1], budget=13, start=0, warm=7, batch=2, cap=6, gsteps=3, policy_delay=2)),
            (grp(r), r, dict(base, label="g1s", seed=s + 2, script=scr[2], budget=15, start=4, warm=7, batch=4, cap=20, gsteps=1, policy_delay=3)),
        ]
    for r in GROUPS["dqn"]:
        # learning_starts BELOW batch_size + 1 in u2 (the coded gate step > batch_size decides), above it in u3
        out += [
            (("dqn"), r, dict(base, label="u2", seed=s, script=scr[0], budget=16, start=0, warm=1, batch=3, cap=8, update_frequency=2, target_update_frequency=5)),
            (("dqn"), r, dict(base, label="u3", seed=s + 1, script=scr[1], budget=17, start=0, warm=9, batch=2, cap=30, update_frequency=3, target_update_frequency=4)),
            (("dqn"), r, dict(base, label="u2s", seed=s + 2, script=scr[2], budget=16, start=5, warm=7, batch=3, cap=6, update_frequency=2, target_update_frequency=3)),
        ]
    out += [
        ("sac", "sac", dict(base, label="s3", seed=s, script=scr[0], budget=15, start=0, warm=5, batch=4, cap=9, policy_delay=3, target_network_delay=2)),
        ("sac", "sac", dict(base, label="s2", seed=s + 1, script=scr[1], budget=14, start=0, warm=7, batch=2, cap=30, policy_delay=2, target_network_delay=5)),
        ("sac", "sac", dict(base, label="s3s", seed=s + 2, script=scr[2], budget=16, start=4, warm=7, batch=4, cap=6, policy_delay=3, target_network_delay=4)),
        ("td7", "td7", dict(base, label="t3", seed=s, script=scr[0], budget=14, start=0, warm=5, batch=4, cap=9, policy_delay=3, target_delay=2)),
        ("td7", "td7", dict(base, label="t2", seed=s + 1, script=scr[1], budget=13, start=0, warm=4, batch=2, cap=30, policy_delay=2, target_delay=3)),
        ("td7", "td7", dict(base, label="t3s", seed=s + 2, script=scr[2], budget=15, start=9, warm=5, batch=4, cap=6, policy_delay=3, target_delay=2)),
        ("mrq", "mrq", dict(base, label="m2", seed=s, script=scr[0], budget=12, start=0, warm=4, batch=4, cap=12, target_delay=2)),
        ("mrq", "mrq", dict(base, label="m3", seed=s + 1, script=scr[1], budget=13, start=0, warm=5, batch=2, cap=30, target_delay=3)),
        ("mrq", "mrq", dict(base, label="m2s", seed=s + 2, script=scr[2], budget=14, start=8, warm=4, batch=4, cap=14, target_delay=2)),
    ]
    if tier == "thorough":
        for r in GROUPS["grad"]:
            out.append((grp(r), r, dict(base, label="g2l", seed=s + 3, script=[(50, "term")], budget=24, start=3, warm=8, batch=4, cap=50, gsteps=2, policy_delay=5)))
        for r in GROUPS["dqn"]:
            out.append(("dqn", r, dict(base, label="u5", seed=s + 3, script=scr[0], budget=30, start=0, warm=11, batch=4, cap=12, update_frequency=5, target_update_frequency=7)))
        out += [
            ("sac", "sac", dict(base, label="s5", seed=s + 3, script=scr[1], budget=26, start=0, warm=6, batch=2, cap=12, policy_delay=5, target_network_delay=3)),
            ("td7", "td7", dict(base, label="t5", seed=s + 3, script=scr[1], budget=24, start=0, warm=3, batch=2, cap=12, policy_delay=5, target_delay=4)),
            ("mrq", "mrq", dict(base, label="m4", seed=s + 3, script=scr[0], budget=20, start=0, warm=3, batch=2, cap=40, target_delay=4)),
        ]
    return out


def main():
    tier, seed, group, out = sys.argv[1], int(sys.argv[2]), sys.argv[3], sys.argv[4]
    os.environ.setdefault("JAX_PLATFORMS", "cpu")
    traces = []
    for g, routine, sc in scenarios(tier, seed):
        if g == group:
            traces.append(record(routine, sc))
    with open(out + ".tmp", "w") as f:
        json.dump(traces, f)
    os.replace(out + ".tmp", out)


if __name__ == "__main__":
    main()
