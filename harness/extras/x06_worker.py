"""python -m harness.extras.x06_worker <routine,routine,...> <tier> <seed> <out.json>

Recorded runs for X06 (KeyDiscipline): each routine is run through its ordinary adapter (harness/algos*.py, unchanged) on
scripted scenarios while harness/extras/x06_record.py observes every pseudo-random-key operation.  The recorder is
installed BEFORE rl_blox is imported (jit decorators run at import time).  Per routine and scenario:

  run "a"   seed s            the reference recording
  run "b"   seed s again      in the same process: must repeat run "a" operation by operation (second documented contract)
  run "c"   seed s + 100      must share no key with run "a" (thorough tier; in both tiers scenario B, which runs with seed 0,
                              is compared with scenario A in the same way)
"""
import json
import os
import random
import sys
import time


def plan(tier, name=None):
    """scenario label -> run kinds"""
    if name == "pets_eager":  # about 50 key operations per planning call: the short scenario only
        return {"B": ("a", "b")}
    if tier == "thorough":
        return {"A": ("a", "b", "c"), "B": ("a",), "C": ("a",)}
    return {"A": ("a", "b"), "B": ("a",)}  # scenario B runs with seed 0: it is the different-seed run as well


def _pets_eager():
    """train_pets documents a fall-back: when the jitted planner raises ConcretizationTypeError in the compile call,
    `_pets_optimize` runs eagerly.  Here the adapter's call of train_pets is interposed (module attribute looked up at call
    time) so that exactly this happens and the planner runs two CEM iterations: the key operations INSIDE one planning call
    become observable."""
    import contextlib

    from rl_blox.algorithm import pets

    real_train, real_nnx = pets.train_pets, pets.nnx

    class _Nnx:
        def __getattr__(self, k):
            return getattr(real_nnx, k)

        @staticmethod
        def jit(f, *a, **k):
            def not_jittable(*args, **kwargs):
                import jax

                raise jax.errors.ConcretizationTypeError.__new__(jax.errors.ConcretizationTypeError)

            return not_jittable

    def train_pets(*a, **k):
        k["n_opt_iter"] = 2
        pets.nnx = _Nnx()
        try:
            return real_train(*a, **k)
        finally:
            pets.nnx = real_nnx

    @contextlib.contextmanager
    def cm():
        pets.train_pets = train_pets
        try:
            yield
        finally:
            pets.train_pets = real_train

    return cm()


VARIANTS = {"pets_eager": ("pets", _pets_eager)}


def main():
    names, tier, seed, out = sys.argv[1].split(","), sys.argv[2], int(sys.argv[3]), sys.argv[4]
    from harness.extras import x06_record

    import flax.nnx  # noqa: F401
    import gymnasium  # noqa: F401
    import jax
    import numpy as np
    import optax  # noqa: F401

    if any(m == "rl_blox" or m.startswith("rl_blox.") for m in sys.modules):
        raise SystemExit("x06_worker: rl_blox imported before the recorder was installed")
    x06_record.install()
    jax.config.update("jax_cpu_enable_async_dispatch", False)  # see x05_worker: host callbacks of the adapters' probes
    import importlib
    import pkgutil

    import rl_blox.algorithm as _alg

    for m in pkgutil.iter_modules(_alg.__path__):
        importlib.import_module("rl_blox.algorithm." + m.name)
    from harness import algos

    np.random.seed(1)
    random.seed(1)
    traces = []
    import contextlib

    for name in names:
        adapter, setup = VARIANTS.get(name, (name, None))
        for sc in algos.scenarios(tier, seed, adapter):
            kinds = plan(tier, name).get(sc["label"])
            if not kinds:
                continue
            for kind in kinds:
                s = dict(sc)
                if kind == "c":
                    s["seed"] = s["seed"] + 100
                t0 = time.time()
                with x06_record.recording() as rec, (setup() if setup else contextlib.nullcontext()):
                    tr = algos.run(adapter, s)
                jax.effects_barrier()
                steps = sum(1 for e in tr["events"] if e.get("ev") == "step")
                traces.append({"id": f"{name}:{sc['label']}:{kind}", "routine": name, "label": sc["label"], "run": kind, "seed": int(s["seed"]),
                               "error": tr.get("error") or "", "steps": steps, "events": rec.events, "wall_s": round(time.time() - t0, 2)})
    with open(out + f".tmp{os.getpid()}", "w") as f:
        json.dump(traces, f)
    os.replace(out + f".tmp{os.getpid()}", out)


if __name__ == "__main__":
    main()
