"""X09 recording side: run the real train_ddqn_per (rl_blox/algorithm/per.py) and train_dynaq
(rl_blox/algorithm/dynaq.py) on the scripted environment of harness/envs.py with module-level names interposed
(algos.interpose; nothing in /repo is edited) and log the run-level behaviour in program order.

train_ddqn_per  (buffer = subclass of the real PrioritizedReplayBuffer; per.nnx is a proxy whose `jit` reports the
                 arguments / results of the jitted train step; per.per_priority, per.hard_target_net_update wrapped)
  add        replay_buffer.add_sample: slot written, priority the new transition received, tracked maximum
  sample     replay_buffer.sample_batch(batch_size, rng, beta): n, beta (exact rational), sampled slots, serial numbers of
             the returned batch / ratio objects, ratios as float64 hex strings
  train      the jitted train step: serials of the batch / ratio objects it was handed, ratios (hex), gamma, |td| it
             returned (float32 ordinal) and the serial of that object
  prio_fn    per_priority(abs_td_error, alpha=, epsion=): serial / ordinal of the argument, alpha, epsilon, result
  update_priority   priorities handed in, PriorityBuffer.sampled_indices at the time of the call, tracked maximum after
  reset_max_priority, bufcall (any other public buffer method called by the routine), copy (hard target update), end

train_dynaq  (dynaq.q_learning_update / counter_update / model_update / planning wrapped)
  direct     the real-experience q_learning_update: obs, act, r4, next, gamma, learning rate, table digests in / out
  count      counter_update(obs, act, reward, next)
  model      model_update: pair, model digest afterwards
  plan_start planning(...): n_planning_steps, the (obs, act) buffers handed in, digest of the model arrays handed in, table in
  plan       one simulated q_learning_update: obs, act, next, reward used, the model's reward entry for that triple
             (both as exact rationals), gamma, learning rate, table digests in / out
  plan_end   table returned, digest of the routine's live model
  end        table returned by the routine

Floats: float32 values -> float32 ordinals (harness/exact.py ord32) with an `exact` flag, or exact rationals
[num, den, fits]; float64 ratios -> hex strings (equality only).  No tolerances.

    python -m harness.extras.x09_record <tier> <seed> <group> <out.json>
"""
from __future__ import annotations

import hashlib
import json
import os
import sys
from fractions import Fraction

import numpy as np

PRIO_EPS = "1e-06"


# ------------------------------------------------------------------ projections
def o32(v):
    from ..exact import ord32

    f = float(np.asarray(v).reshape(-1)[0]) if np.asarray(v).size == 1 else float("nan")
    if not np.isfinite(f):
        return [0, False]
    return [ord32(np.float32(f)), bool(float(np.float32(f)) == f)]


def rat(v):
    """finite float -> [num, den, fits]: the exact value of the float as a rational (both below 2^30)"""
    f = float(np.asarray(v).reshape(-1)[0]) if np.asarray(v).size == 1 else float("nan")
    if not np.isfinite(f):
        return [0, 1, False]
    fr = Fraction(f)
    if abs(fr.numerator) >= 2**30 or fr.denominator >= 2**30:
        return [0, 1, False]
    return [int(fr.numerator), int(fr.denominator), True]


def hexes(a):
    return [float(x).hex() for x in np.asarray(a, dtype=np.float64).reshape(-1)]


def dig(*arrays):
    h = hashlib.sha1()
    for a in arrays:
        b = np.ascontiguousarray(np.asarray(a))
        h.update(str(b.dtype).encode() + str(b.shape).encode() + b.tobytes())
    return h.hexdigest()[:12]


class _Serials:
    """serial numbers for objects handed around by the routine (identity, kept alive)"""

    def __init__(self):
        self.keep = []

    def of(self, obj):
        for k, o in enumerate(self.keep):
            if o is obj:
                return k + 1
        self.keep.append(obj)
        return len(self.keep)


# ------------------------------------------------------------------ PER
def record_per(sc):
    import jax.numpy as jnp
    import optax
    from flax import nnx
    from rl_blox.algorithm import per
    from rl_blox.blox import replay_buffer as rb
    from rl_blox.blox.function_approximator.mlp import MLP

    from ..algos import guarded, interpose
    from ..envs import Recorder, ScriptEnv

    events = []
    ser = _Serials()
    st = {"depth": 0}

    def ev(kind, **f):
        events.append(dict(ev=kind, **f))

    RECORDED = ("add_sample", "sample_batch", "update_priority", "reset_max_priority")

    class RecPER(rb.PrioritizedReplayBuffer):
        def add_sample(self, **sample):
            outer = st["depth"] == 0
            st["depth"] += 1
            try:
                slot = int(self.insert_idx)
                out = rb.PrioritizedReplayBuffer.add_sample(self, **sample)
            finally:
                st["depth"] -= 1
            if outer:
                ev("add", idx=slot, p=o32(self.priority.priority[slot]), maxp=o32(self.priority.max_priority))
            return out

        def sample_batch(self, batch_size, rng, *a, **k):
            outer = st["depth"] == 0
            st["depth"] += 1
            try:
                out = rb.PrioritizedReplayBuffer.sample_batch(self, batch_size, rng, *a, **k)
            finally:
                st["depth"] -= 1
            if outer:
                beta = a[0] if a else k.get("beta", 0.4)
                batch, ratio = out
                ev("sample", n=int(batch_size), beta=rat(beta), idx=[int(i) for i in np.asarray(self.priority.sampled_indices).reshape(-1)],
                   bser=ser.of(batch), rser=ser.of(ratio), isr=hexes(ratio), len=int(self.current_len))
            return out

        def update_priority(self, priority):
            outer = st["depth"] == 0
            idx = [int(i) for i in np.asarray(self.priority.sampled_indices).reshape(-1)]
            st["depth"] += 1
            try:
                out = rb.PrioritizedReplayBuffer.update_priority(self, priority)
            finally:
                st["depth"] -= 1
            if outer:
                ev("update_priority", p=[o32(x) for x in np.asarray(priority, dtype=np.float64).reshape(-1)], pser=ser.of(priority), idx=idx,
                   maxp=o32(self.priority.max_priority))
            return out

        def reset_max_priority(self):
            outer = st["depth"] == 0
            st["depth"] += 1
            try:
                out = rb.PrioritizedReplayBuffer.reset_max_priority(self)
            finally:
                st["depth"] -= 1
            if outer:
                ev("reset_max_priority")
            return out

        def __getattribute__(self, name):
            v = object.__getattribute__(self, name)
            if name.startswith("_") or name in RECORDED or not callable(v) or name == "Batch" or st["depth"] != 0:
                return v

            def other(*a, **k):
                ev("bufcall", name=name)
                st["depth"] += 1
                try:
                    return v(*a, **k)
                finally:
                    st["depth"] -= 1

            return other

    class NnxProxy:
        """per.nnx: the real flax.nnx, except that the function returned by `jit` reports what it is handed / returns"""

        def __getattr__(self, k):
            return getattr(nnx, k)

        def jit(self, f=None, **kw):
            if f is None:
                return lambda g: self.jit(g, **kw)
            jf = nnx.jit(f, **kw)

            def train_step(optimizer, q, q_target, batch, gamma, is_ratio, *a, **k):
                out = jf(optimizer, q, q_target, batch, gamma, is_ratio, *a, **k)
                loss, (q_mean, abs_td) = out
                ev("train", bser=ser.of(batch), rser=ser.of(is_ratio), isr=hexes(is_ratio), gamma=rat(gamma), td=o32(abs_td), tdser=ser.of(abs_td),
                   tdn=int(np.asarray(abs_td).size))
                return out

            return train_step

    real_prio, real_copy = per.per_priority, per.hard_target_net_update

    def per_priority(abs_td_error, *a, **k):
        out = real_prio(abs_td_error, *a, **k)
        alpha = a[0] if a else k.get("alpha")
        eps = a[1] if len(a) > 1 else k.get("epsion", k.get("epsilon"))
        ev("prio_fn", tdser=ser.of(abs_td_error), td=o32(abs_td_error), alpha=rat(alpha), eps=repr(float(eps)),
           p=[o32(x) for x in np.asarray(out, dtype=np.float64).reshape(-1)], pser=ser.of(out))
        return out

    def hard_target_net_update(*a, **k):
        ev("copy")
        return real_copy(*a, **k)

    rec = Recorder()
    env = ScriptEnv(rec, sc["script"], discrete_actions=3)
    q_net = MLP(3, 3, [8], "relu", nnx.Rngs(sc["seed"]))
    opt = nnx.Optimizer(q_net, optax.adam(0.01), wrt=nnx.Param)
    buf = RecPER(sc["cap"], discrete_actions=True)
    tgt = nnx.clone(q_net)
    with interpose(per, nnx=NnxProxy(), per_priority=per_priority, hard_target_net_update=hard_target_net_update):
        res, err = guarded(lambda: per.train_ddqn_per(
            q_net, env, buf, opt, per_alpha=sc["alpha"], per_beta=sc["beta0"], batch_size=sc["batch"], total_timesteps=sc["budget"],
            gamma=sc["gamma"], update_frequency=sc["uf"], target_update_frequency=sc["tuf"], learning_starts=sc["warm"], q_target_net=tgt,
            seed=sc["seed"], logger=None, global_step=sc.get("start", 0), progress_bar=False))
    ev("end")
    from ..exact import ord32

    cfg = dict(routine="per", T=int(sc["budget"]), start=int(sc.get("start", 0)), warm=int(sc["warm"]), bs=int(sc["batch"]), uf=int(sc["uf"]),
               tuf=int(sc["tuf"]), beta0=rat(sc["beta0"])[:2], alpha=rat(sc["alpha"])[:2], gamma=rat(sc["gamma"])[:2], eps=PRIO_EPS,
               one=ord32(1.0), cap=int(sc["cap"]), nplan=0, ns=0, na=0, lr=[0, 1])
    out = {"id": f"per:{sc['label']}", "cfg": cfg, "events": events, "scenario": sc}
    if err:
        out["error"] = err
    return out


# ------------------------------------------------------------------ Dyna-Q
def record_dyna(sc):
    import jax.numpy as jnp
    from rl_blox.algorithm import dynaq as m

    from ..algos import guarded, interpose
    from ..envs import Recorder, ScriptEnv

    events = []
    st = {"planning": False, "model": None, "plan_args": None}

    def ev(kind, **f):
        events.append(dict(ev=kind, **f))

    def r4(r):
        return int(round(float(r) * 4))

    real_q, real_cnt, real_model, real_plan = m.q_learning_update, m.counter_update, m.model_update, m.planning

    def q_learning_update(obs, act, reward, next_obs, gamma, learning_rate, q_table):
        tin = dig(q_table)
        out = real_q(obs, act, reward, next_obs, gamma, learning_rate, q_table)
        f = dict(obs=int(obs), act=int(act), next=int(next_obs), gamma=rat(gamma), lr=rat(learning_rate), tin=tin, tout=dig(out))
        if st["planning"]:
            mt, mr = st["plan_args"]
            ev("plan", r=rat(reward), mr=rat(np.asarray(mr)[int(obs), int(act), int(next_obs)]), **f)
        else:
            ev("direct", r4=r4(reward), r4x=bool(float(reward) * 4 == r4(reward)), **f)
        return out

    def counter_update(counter, obs, act, reward, next_obs):
        ev("count", obs=int(obs), act=int(act), r4=r4(reward), next=int(next_obs))
        return real_cnt(counter, obs, act, reward, next_obs)

    def model_update(model, counter, obs, act, next_obs):
        out = real_model(model, counter, obs, act, next_obs)
        st["model"] = out
        ev("model", obs=int(obs), act=int(act), next=int(next_obs), mdig=dig(out.transition, out.reward))
        return out

    def planning(model_transition, model_reward, obs_buffer, act_buffer, n_planning_steps, key, gamma, learning_rate, q_table):
        ev("plan_start", n=int(n_planning_steps), obsbuf=[int(x) for x in np.asarray(obs_buffer).reshape(-1)],
           actbuf=[int(x) for x in np.asarray(act_buffer).reshape(-1)], mdig=dig(model_transition, model_reward), tin=dig(q_table))
        st["planning"], st["plan_args"] = True, (model_transition, model_reward)
        try:
            out = real_plan(model_transition, model_reward, obs_buffer, act_buffer, n_planning_steps, key, gamma, learning_rate, q_table)
        finally:
            st["planning"] = False
        mod = st["model"]
        ev("plan_end", tout=dig(out), mdig="none" if mod is None else dig(mod.transition, mod.reward))
        return out

    rec = Recorder()
    ns, na = int(sc["ns"]), int(sc["na"])
    env = ScriptEnv(rec, sc["script"], discrete_actions=na, discrete_obs=ns)
    rng = np.random.default_rng(sc["seed"])
    q0 = jnp.asarray(rng.integers(-4, 5, size=(ns, na)) / 4.0, dtype=jnp.float32)
    with interpose(m, q_learning_update=q_learning_update, counter_update=counter_update, model_update=model_update, planning=planning):
        res, err = guarded(lambda: m.train_dynaq(env, q0, gamma=sc["gamma"], learning_rate=sc["lr"], epsilon=sc["epsilon"],
                                                 n_planning_steps=sc["nplan"], buffer_size=sc["cap"], total_timesteps=sc["budget"],
                                                 seed=sc["seed"], logger=None, progress_bar=False))
    ev("end", tout="none" if res is None else dig(res))
    cfg = dict(routine="dynaq", T=int(sc["budget"]), start=0, warm=0, bs=0, uf=1, tuf=1, beta0=[0, 1], alpha=[0, 1], gamma=rat(sc["gamma"])[:2],
               eps="", one=0, cap=int(sc["cap"]), nplan=int(sc["nplan"]), ns=ns, na=na, lr=rat(sc["lr"])[:2])
    out = {"id": f"dynaq:{sc['label']}", "cfg": cfg, "events": events, "scenario": sc}
    if err:
        out["error"] = err
    return out


def record(routine, sc):
    return record_per(sc) if routine == "per" else record_dyna(sc)


# ------------------------------------------------------------------ scenarios
def scenarios(tier, seed):
    """(group, routine, scenario).  PER: total_timesteps - 1 is a power of two and per_beta dyadic, so every value of the
    documented linear beta schedule is a dyadic rational that float32 holds exactly; alpha, beta0, gamma pairwise distinct
    and non-default; update / target frequencies 2 / 3 / 5; continued runs (global_step > 0); capacities below the run.
    Dyna-Q: 3-4 states, 2 actions (pairs recur with two successors: odd episodes advance two states per step),
    n_planning_steps 3 / 2 / 4, buffer_size below the run length, gamma / learning rate / epsilon pairwise distinct."""
    s = seed % 1000 + 1
    scs = [
        ("per", "per", dict(label="p17", seed=s, script=[(3, "term"), (2, "trunc"), (4, "term")], budget=17, start=0, warm=4, batch=2, cap=9,
                            alpha=0.75, beta0=0.25, gamma=0.5, uf=2, tuf=3)),
        ("per", "per", dict(label="p33", seed=s + 1, script=[(4, "trunc"), (1, "term"), (3, "term")], budget=33, start=5, warm=0, batch=3, cap=12,
                            alpha=0.5, beta0=0.625, gamma=0.875, uf=3, tuf=5)),
        ("per", "per", dict(label="p9", seed=s + 2, script=[(2, "term"), (5, "trunc")], budget=9, start=0, warm=3, batch=1, cap=5,
                            alpha=1.0, beta0=0.5, gamma=0.25, uf=1, tuf=2)),
        ("dyna", "dynaq", dict(label="d3", seed=s, script=[(3, "term"), (2, "trunc"), (4, "term")], budget=14, ns=4, na=2, nplan=3, cap=5,
                               gamma=0.5, lr=0.25, epsilon=0.375)),
        ("dyna", "dynaq", dict(label="d2", seed=s + 1, script=[(4, "trunc"), (3, "term")], budget=16, ns=3, na=2, nplan=2, cap=30,
                               gamma=0.75, lr=0.5, epsilon=0.125)),
        ("dyna", "dynaq", dict(label="d4", seed=s + 2, script=[(2, "term"), (3, "trunc"), (1, "term")], budget=12, ns=4, na=2, nplan=4, cap=3,
                               gamma=0.25, lr=0.125, epsilon=0.625)),
    ]
    if tier == "thorough":
        scs += [
            ("per2", "per", dict(label="p65", seed=s + 3, script=[(3, "term"), (4, "trunc")], budget=65, start=40, warm=44, batch=4, cap=16,
                                 alpha=0.25, beta0=0.125, gamma=0.625, uf=4, tuf=7)),
            ("per2", "per", dict(label="p17c", seed=s + 4, script=[(1, "term"), (6, "term")], budget=17, start=2, warm=0, batch=2, cap=4,
                                 alpha=0.875, beta0=0.75, gamma=0.375, uf=1, tuf=4)),
            ("dyna2", "dynaq", dict(label="d1", seed=s + 3, script=[(5, "term"), (2, "trunc")], budget=24, ns=3, na=2, nplan=1, cap=8,
                                    gamma=0.875, lr=0.375, epsilon=0.25)),
            ("dyna2", "dynaq", dict(label="d5", seed=s + 4, script=[(3, "trunc"), (3, "term")], budget=20, ns=5, na=3, nplan=5, cap=2,
                                    gamma=0.125, lr=0.75, epsilon=0.5)),
        ]
    return scs


def main():
    tier, seed, group, out = sys.argv[1], int(sys.argv[2]), sys.argv[3], sys.argv[4]
    os.environ.setdefault("JAX_PLATFORMS", "cpu")
    traces = [record(r, sc) for g, r, sc in scenarios(tier, seed) if g == group]
    with open(out + ".tmp", "w") as f:
        json.dump(traces, f)
    os.replace(out + ".tmp", out)


if __name__ == "__main__":
    main()
