"""X02 recording side: run the real train_td7 / train_mrq / train_td3_lap through the existing adapters
(harness/algos.py `td3_lap`, harness/algos_offpolicy2.py `td7`, `td7_ckpt`, `mrq` - used unchanged) with
further module-level names interposed, and log the run-level bookkeeping in program order:

  add           recording buffer (harness/probes.py): signed reward r4 = 4*reward, episode-end flags
  prio_init     PriorityBuffer.initialize_priority: slots, tracked maximum
  prio_update   PriorityBuffer.update_priority: sampled slots, new priorities, tracked maximum afterwards
  prio_reset    PriorityBuffer.reset_max_priority: current_len handed in, tracked maximum afterwards
  reset_max_priority   the buffer-level call (recording buffer of harness/probes.py)
  bk_iter / bk_iter_end   td7._train_step: the epoch and target_delay it was called with
  bk_critic     td7.td7_update_critic: clipping bounds received (q_min, q_max), min / max of the returned target batch
                mrq update_critic_and_policy (through nnx.cached_partial): the (reward_scale, target_reward_scale) pair
  bk_range / bk_target_range   ValueClippingState.update_range / update_target_range: argument range, state afterwards
  bk_copy       hard_target_net_update / soft_target_net_update inside the learning part of a step
  bk_rs         replay_buffer.reward_scale(): the value returned
  bk_sample     SubtrajectoryReplayBufferPER.sample_batch arguments
  bk_encoder    mrq update_model_based_encoder (through nnx.cached_partial): leading / horizon dimension of the batches,
                static target_delay / batch_size / encoder_horizon, number of optimiser steps it performed
  bk_log        logger.record_stat of min_value / max_value / min_target_value / max_target_value / "reward scale"

Floats: TD7 values and priorities are float32-valued -> float32 ordinals (harness/exact.py ord32) with an `x`
(exactly representable) flag; reward scales are float64 means of dyadic rewards -> the unique rational with
denominator <= 4096 that rounds to the recorded double (flag `x` False if there is none).  No tolerances.

    python -m harness.extras.x02_record <tier> <seed> <group> <out.json>
"""
from __future__ import annotations

import json
import os
import sys
from fractions import Fraction

import numpy as np

KEYS = ("min_value", "max_value", "min_target_value", "max_target_value", "reward scale")
_S = {"rec": None, "sc": None, "in_iter": False, "learning": False}


# ------------------------------------------------------------------ projections
def o32(v):
    """float32-valued number -> [ordinal, exactly-float32?]"""
    from ..exact import ord32

    f = float(v)
    if not np.isfinite(f):
        return [0, False]
    return [ord32(np.float32(f)), bool(float(np.float32(f)) == f)]


def rat(v, maxden=4096):
    """double -> [num, den, exact?]: the rational with a small denominator whose correctly rounded double is v"""
    f = float(v)
    if not np.isfinite(f):
        return [0, 1, False]
    fr = Fraction(f).limit_denominator(maxden)
    ok = (fr.numerator / fr.denominator) == f and abs(fr.numerator) < 2**20
    return [int(fr.numerator), int(fr.denominator), bool(ok)] if abs(fr.numerator) < 2**30 else [0, 1, False]


def ev(kind, **fields):
    rec = _S["rec"]
    if rec is not None:
        rec.events.append(dict(ev=kind, **fields))


# ------------------------------------------------------------------ scripted environment with signed rewards
def _signed_env_factory(real_box_env):
    """ScriptEnv whose reward is negated on every second step of an episode (|r| = 16*(ep%8) + t + 1/4):
    the mean ABSOLUTE reward differs from the absolute mean reward."""

    def make(rec, sc):
        env = real_box_env(rec, sc)
        if not sc.get("signed", True):
            return env
        base = type(env)

        class SignedScriptEnv(base):
            def step(self, action):
                o, r, te, tr, info = super().step(action)
                if self.t % 2 == 0:
                    r = -r
                return o, r, te, tr, info

        env.__class__ = SignedScriptEnv
        return env

    return make


# ------------------------------------------------------------------ buffer / logger wrappers
def _wrap_priority(buf):
    p = buf.priority
    init0, upd0, reset0 = p.initialize_priority, p.update_priority, p.reset_max_priority

    def initialize_priority(insert_idx):
        out = init0(insert_idx)
        ev("prio_init", idx=[int(i) for i in np.atleast_1d(np.asarray(insert_idx))], maxp=o32(p.max_priority))
        return out

    def update_priority(priority):
        out = upd0(priority)
        ev("prio_update", idx=[int(i) for i in np.asarray(p.sampled_indices).reshape(-1)],
           p=[o32(x) for x in np.asarray(priority, dtype=np.float64).reshape(-1)], maxp=o32(p.max_priority))
        return out

    def reset_max_priority(current_len):
        out = reset0(current_len)
        ev("prio_reset", n=int(current_len), maxp=o32(p.max_priority))
        return out

    p.initialize_priority, p.update_priority, p.reset_max_priority = initialize_priority, update_priority, reset_max_priority


def _prefill(buf, sc):
    """Data stored before the routine is entered (continued training): one complete, truncated episode."""
    k = int(sc.get("prefill", 0))
    if not k:
        return
    na = len(sc.get("low", (-1.0, -0.5)))
    for t in range(k):
        obs = np.asarray([90, t, 0], dtype=np.float32)
        nxt = np.asarray([90, t + 1, 0], dtype=np.float32)
        r = (3.0 + 2.0 * t + 0.25) * (-1.0 if t % 2 else 1.0)
        buf.add_sample(observation=obs, action=np.zeros(na, dtype=np.float32), reward=r, next_observation=nxt,
                       terminated=False, truncated=bool(t == k - 1))


def _recording_buffer_factory(real):
    def recording_buffer(base_cls, rec, *args, **kwargs):
        buf = real(base_cls, rec, *args, **kwargs)
        _S["rec"] = rec
        sc = _S["sc"]
        ev("bk_buffer", cap=int(buf.buffer_size), subtraj=bool(hasattr(buf, "horizon")))
        if hasattr(buf, "priority"):
            _wrap_priority(buf)
        if hasattr(buf, "reward_scale"):
            rs0 = buf.reward_scale

            def reward_scale(*a, **k):
                v = rs0(*a, **k)
                ev("bk_rs", v=rat(v), n=int(buf.current_len))
                return v

            buf.reward_scale = reward_scale
        if hasattr(buf, "horizon"):
            sb0 = buf.sample_batch

            def sample_batch(batch_size, horizon, include_intermediate, rng):
                ev("bk_sample", n=int(batch_size), hor=int(horizon), inter=bool(include_intermediate))
                return sb0(batch_size, horizon, include_intermediate, rng)

            buf.sample_batch = sample_batch
            _prefill(buf, sc)
        ev("bk_start")
        return buf

    return recording_buffer


def _recording_logger_factory(real):
    def recording_logger(rec):
        lg = real(rec)
        stat0 = lg.record_stat

        def record_stat(key, value, *a, **k):
            if key in KEYS:
                step = k.get("step", -1)
                if key == "reward scale":
                    ev("bk_log", key=key, q=rat(value), o=[0, False], step=-1 if step is None else int(step))
                else:
                    ev("bk_log", key=key, o=o32(value), q=[0, 1, False], step=-1 if step is None else int(step))
            return stat0(key, value, *a, **k)

        lg.record_stat = record_stat
        return lg

    return recording_logger


# ------------------------------------------------------------------ routine-specific interposition
def _copy_wrapper(real):
    def copy(*a, **k):
        out = real(*a, **k)
        if _S["in_iter"] or _S["learning"]:
            ev("bk_copy")
        return out

    return copy


def _td7_names(td7):
    real_critic, real_step, RealVCS = td7.td7_update_critic, td7._train_step, td7.ValueClippingState

    def td7_update_critic(*a, **k):
        # positional layout of td7.td7_update_critic: ..., min_priority, q_min, q_max
        q_min, q_max = (k["q_min"] if "q_min" in k else a[13]), (k["q_max"] if "q_max" in k else a[14])
        out = real_critic(*a, **k)
        qt = np.asarray(out[2])
        ev("bk_critic", lo=o32(q_min), hi=o32(q_max), qmin=o32(qt.min()), qmax=o32(qt.max()), n=int(qt.size))
        return out

    def state_of(s):
        return dict(minV=o32(s.min_value), maxV=o32(s.max_value), minT=o32(s.min_target_value), maxT=o32(s.max_target_value))

    class RecValueClippingState(RealVCS):
        def update_range(self, q_target):
            out = RealVCS.update_range(self, q_target)
            qt = np.asarray(q_target)
            ev("bk_range", qmin=o32(qt.min()), qmax=o32(qt.max()), after=state_of(self))
            return out

        def update_target_range(self):
            out = RealVCS.update_target_range(self)
            ev("bk_target_range", after=state_of(self))
            return out

    RecValueClippingState.__name__ = RealVCS.__name__  # a plain subclass: fields, __init__ and __dict__ layout are the dataclass's own

    def _train_step(*a, **k):
        # positional layout of td7._train_step: ..., value_clipping_state(9), replay_buffer(10), epoch(11), ..., target_delay(17)
        ev("bk_iter", epoch=int(a[11]), delay=int(a[17]), state=state_of(a[9]))
        _S["in_iter"] = True
        try:
            return real_step(*a, **k)
        finally:
            _S["in_iter"] = False
            ev("bk_iter_end")

    return dict(td7_update_critic=td7_update_critic, ValueClippingState=RecValueClippingState, _train_step=_train_step,
                hard_target_net_update=_copy_wrapper(td7.hard_target_net_update))


class _NnxProxy:
    """Stands in for the module-level name `nnx` of rl_blox.algorithm.mrq: everything is the real flax.nnx, but the
    callables train_mrq obtains from nnx.cached_partial for its two update functions report their arguments."""

    def __init__(self, real, mrq):
        self._real, self._mrq = real, mrq
        self._critic, self._encoder = mrq.update_critic_and_policy, mrq.update_model_based_encoder

    def __getattr__(self, k):
        return getattr(self._real, k)

    def cached_partial(self, f, *args, **kwargs):
        g = self._real.cached_partial(f, *args, **kwargs)
        if f is self._critic:
            def critic(next_actions, batch, reward_scale, target_reward_scale, *a, **k):
                ev("bk_critic", rs=rat(reward_scale), trs=rat(target_reward_scale), n=int(np.asarray(batch.reward).shape[0]))
                return g(next_actions, batch, reward_scale, target_reward_scale, *a, **k)

            return critic
        if f is self._encoder:
            # update_model_based_encoder(encoder, encoder_target, encoder_optimizer, the_bins, encoder_horizon, dynamics_weight,
            #                            reward_weight, done_weight, target_delay, batch_size, normalize_targets, batches, terminates)
            opt, eh, td, bs = args[2], int(args[4]), int(args[8]), int(args[9])

            def encoder(batches, environment_terminates, *a, **k):
                s0 = int(np.asarray(opt.step.value))
                shp = np.asarray(batches.observation).shape
                try:
                    return g(batches, environment_terminates, *a, **k)
                finally:
                    ev("bk_encoder", nsub=int(shp[0]), hor=int(shp[1]), delay=td, bs=bs, eh=eh,
                       opt_steps=int(np.asarray(opt.step.value)) - s0)

            return encoder
        return g


def record(routine, sc):
    """Run adapter `routine` on scenario sc with the bookkeeping probes; -> trace dict for BookkeepingTrace."""
    import contextlib

    from .. import algos, algos_offpolicy2, probes
    from ..algos import interpose

    _S.update(rec=None, sc=sc, in_iter=False, learning=False)
    with contextlib.ExitStack() as st:
        st.enter_context(interpose(probes, recording_buffer=_recording_buffer_factory(probes.recording_buffer),
                                   recording_logger=_recording_logger_factory(probes.recording_logger)))
        st.enter_context(interpose(algos, _box_env=_signed_env_factory(algos._box_env)))
        st.enter_context(interpose(algos_offpolicy2, _box_env=_signed_env_factory(algos_offpolicy2._box_env)))
        if routine in ("td7", "td7_ckpt"):
            from rl_blox.algorithm import td7

            st.enter_context(interpose(td7, **_td7_names(td7)))
        elif routine == "mrq":
            from flax import nnx
            from rl_blox.algorithm import mrq

            _S["learning"] = True
            st.enter_context(interpose(mrq, nnx=_NnxProxy(nnx, mrq), hard_target_net_update=_copy_wrapper(mrq.hard_target_net_update)))
        elif routine == "td3_lap":
            from rl_blox.algorithm import td3_lap

            _S["learning"] = True
            st.enter_context(interpose(td3_lap, soft_target_net_update=_copy_wrapper(td3_lap.soft_target_net_update)))
        tr = algos.run(routine, sc)
    _S.update(rec=None, sc=None, in_iter=False, learning=False)
    return project(routine, sc, tr)


KEEP = {"add", "reset_max_priority", "ret"}


def project(routine, sc, tr):
    """Adapter trace -> bookkeeping trace: keep the bookkeeping events (program order), drop the protocol events."""
    evs = []
    for e in tr["events"]:
        k = e["ev"]
        if k.startswith("bk_") or k.startswith("prio_"):
            evs.append(dict(e))
        elif k == "add":
            evs.append(dict(ev="add", r4=int(e["r4"]), ends=bool(e.get("term", False) or e.get("trunc", False))))
        elif k in KEEP:
            evs.append(dict(ev=k))
    evs.append(dict(ev="end"))
    td = int(sc.get("target_delay", 3))
    cfg = dict(routine="td7" if routine == "td7_ckpt" else routine, variant=routine, delay=td, grid=250, warm=int(sc["warm"]), start=int(sc.get("start", 0)),
               bs=int(sc["batch"]), eh=int(sc.get("encoder_horizon", 2)), qh=int(sc.get("q_horizon", 2)), budget=int(sc["budget"]),
               checkpoints=bool(routine == "td7_ckpt"))
    out = {"id": f"{routine}:{sc.get('label', '')}", "cfg": cfg, "events": evs, "scenario": sc}
    if tr.get("error"):
        out["error"] = tr["error"]
    return out


# ------------------------------------------------------------------ scenarios
def scenarios(tier, seed):
    """(group, routine, scenario).  Small delays (2 / 3), learning_starts 0 / 2, 8-14 steps, capacities smaller than
    the run (the mean absolute reward is taken over a wrapped ring), episode ends inside and at update points."""
    s = seed % 1000 + 1
    base = dict(batch=2, eplimit=0)
    scs = [
        ("td7", "td7", dict(base, label="t2", seed=s, script=[(3, "term"), (2, "trunc"), (4, "term")], budget=10, start=0, warm=2, cap=7, target_delay=2, policy_delay=2)),
        ("td7", "td7", dict(base, label="t3", seed=s + 1, script=[(4, "trunc"), (1, "term"), (3, "term")], budget=12, start=0, warm=0, cap=5, target_delay=3, policy_delay=2)),
        ("mrq", "mrq", dict(base, label="m2", seed=s, script=[(3, "term"), (2, "trunc"), (4, "term")], budget=10, start=0, warm=2, cap=9, target_delay=2)),
        ("mrq", "mrq", dict(base, label="m3p", seed=s + 1, script=[(4, "trunc"), (3, "term")], budget=11, start=0, warm=0, cap=12, target_delay=3, prefill=3)),
        ("lap", "td3_lap", dict(base, label="l0", seed=s, script=[(3, "term"), (2, "trunc")], budget=8, start=0, warm=2, cap=5, policy_delay=2)),
        # the hard-coded 250-step grid of train_td3_lap, reached by continuing a run at step 247
        ("lap", "td3_lap", dict(base, label="l250", seed=s + 1, script=[(3, "term"), (2, "trunc")], budget=255, start=247, warm=249, cap=5, policy_delay=3)),
    ]
    if tier == "thorough":
        scs += [
            ("td7", "td7", dict(base, label="t2s", seed=s + 2, script=[(2, "term"), (5, "trunc")], budget=14, start=3, warm=2, cap=6, target_delay=2, policy_delay=3)),
            ("td7", "td7", dict(base, label="t3w", seed=s + 3, script=[(1, "term"), (6, "term")], budget=13, start=0, warm=2, cap=4, target_delay=3, policy_delay=2, signed=False)),
            ("td7c", "td7_ckpt", dict(base, label="c2", seed=s + 4, script=[(3, "term"), (2, "trunc"), (4, "term")], budget=14, start=0, warm=2, cap=7, target_delay=2, policy_delay=2, ckpt_episodes=2, ckpt_after=4)),
            ("mrq", "mrq", dict(base, label="m2w", seed=s + 2, script=[(2, "term"), (5, "trunc")], budget=14, start=0, warm=0, cap=6, target_delay=2)),
            ("mrq", "mrq", dict(base, label="m3s", seed=s + 3, script=[(1, "trunc"), (4, "term")], budget=13, start=3, warm=2, cap=8, target_delay=3, prefill=2)),
            ("lap", "td3_lap", dict(base, label="l500", seed=s + 2, script=[(4, "term"), (1, "trunc")], budget=504, start=496, warm=0, cap=4, policy_delay=2)),
        ]
    return scs


def main():
    tier, seed, group, out = sys.argv[1], int(sys.argv[2]), sys.argv[3], sys.argv[4]
    os.environ.setdefault("JAX_PLATFORMS", "cpu")
    traces = []
    for g, routine, sc in scenarios(tier, seed):
        if g == group:
            traces.append(record(routine, sc))
    with open(out + ".tmp", "w") as f:
        json.dump(traces, f)
    os.replace(out + ".tmp", out)


if __name__ == "__main__":
    main()
