"""X01 - PE-TS receding-horizon control and model-training cadence (rl_blox/algorithm/pets.py).

spec/Mpc.tla       level 1: mpc_action + episode-end reset of the stored plan (tags, key paths)
                   level 2: one planning call (_pets_optimize / _pets_opt_iter): iteration structure and data flow
                   level 3: the loop body of train_pets (training cadence, epochs hand-over, random / planned actions,
                            plan reset at episode ends, logger discipline)
                   level 0: PETSMPCConfig as train_pets fills it (avg_act, init_var)
spec/MpcTrace.tla  trace validation of real train_pets runs with the vocabulary of Mpc.tla

TLC decides the invariants on the models and refutes the named deviations; the models are bound to the code by
(1) transition-coverage replay of the complete level-1 state graph into the real mpc_action (stub optimiser that tags
its result), (2) comparison of the call sequence / data flow of real _pets_optimize calls (recording stub sample_fn,
update_fn, reward model, dynamics model; ts_inf interposed) with TLC's behaviours, (3) trace validation of real
train_pets runs on the scripted environment.  VERIF_TLC_WORKERS caps the TLC workers (default 16).
"""
from __future__ import annotations

import concurrent.futures as cf
import copy
import itertools
import json
import os
import time
from fractions import Fraction

import numpy as np

from .. import graph, tlc
from . import x01_bind as B

TITLE = "PE-TS receding-horizon control (mpc_action, CEM iteration structure) and the model-training cadence of train_pets"
LEVEL = "model_checking"
MANIFEST = dict(
    category="model_checking",
    text="TLC checks on spec/Mpc.tla that the stored plan always has plan_horizon rows, that every stored row is avg_act or a row the optimiser returned at an earlier call of the same episode shifted by the number of calls since (no row lost or duplicated, last row avg_act), that the stored plan is the initial plan after every episode end and is reset nowhere else, that the planner key is split once per call and a consumed key is never split or consumed again, that one planning call runs n_opt_iter sample/evaluate/update iterations from (given plan, init_var) and returns the final mean, and that the dynamics model is trained exactly at the due steps with the epochs hand-over happening once; the models are bound to the real code by transition-coverage replay of the level-1 state graph into mpc_action, by comparing the recorded call sequence and data flow of real _pets_optimize calls with TLC's behaviours, and by trace validation (spec/MpcTrace.tla) of real train_pets runs on a scripted environment. Small-scope exhaustive on the models, which fits control flow that is uniform in horizon and step count.",
    note="bounds: horizon 2-4, <= 5 planner calls (level 1), <= 8 loop bodies (level 3), n_opt_iter <= 3; in train_pets runs the optimiser, update_dynamics_model, replay buffer and logger are interposed (one scenario runs the real optimiser and the real model update); the content of the CEM update, trajectory sampling noise and the ensemble training are other modules' matter; trusted: TLC, the tag / key-path projections in harness/extras/x01_bind.py",
    technique="TLA+ spec + TLC (invariants, named deviation canaries); transition-coverage replay into mpc_action; call-sequence comparison for _pets_optimize/_pets_opt_iter; trace validation of train_pets",
)

M_INVS = ["PlanLength", "LastRowIsAvgAct", "StoredRowsShifted", "TagShift", "FreshEpisodeHasInitialPlan", "ChainOfPlans", "OptimiserSeesStoredPlan",
          "NoRowLostOrDuplicated", "KeyDiscipline", "ConsumedKeysNeverSplitOrReused", "MTypeOK"]
L_INVS = M_INVS + ["TrainingsExactlyAtDueSteps", "EpochsHandOverOnce", "TrainsOnWholeBuffer", "TrainKeysDistinct", "RandomExactlyBeforeLearningStarts",
                   "TrainedBeforeFirstPlan", "LoggerEpisodesPartitionSteps", "LTypeOK"]
O_INVS = ["ReturnsFinalMean", "DistributionFollowsIterations"]
# deviation -> (level, invariant that must refute it)
CANARIES = {
    "no_shift": ("M", "LastRowIsAvgAct"),
    "repeat_last": ("M", "LastRowIsAvgAct"),
    "shift_two": ("M", "NoRowLostOrDuplicated"),
    "keep_plan_at_episode_end": ("M", "FreshEpisodeHasInitialPlan"),
    "opt_gets_state_key": ("M", "ConsumedKeysNeverSplitOrReused"),
    "key_not_advanced": ("M", "ConsumedKeysNeverSplitOrReused"),
    "opt_sees_initial": ("M", "OptimiserSeesStoredPlan"),
    "train_every_step": ("L", "TrainingsExactlyAtDueSteps"),
    "train_ignores_learning_starts": ("L", "TrainingsExactlyAtDueSteps"),
    "epochs_never_handed_over": ("L", "EpochsHandOverOnce"),
    "random_inclusive": ("L", "RandomExactlyBeforeLearningStarts"),
    "reset_only_on_termination": ("L", "FreshEpisodeHasInitialPlan"),
    "stop_reports_loop_index": ("L", "LoggerEpisodesPartitionSteps"),
    "returns_given_plan": ("O", "ReturnsFinalMean"),
}
QUICK_CANARIES = ["no_shift", "repeat_last", "keep_plan_at_episode_end", "opt_gets_state_key", "train_every_step", "epochs_never_handed_over",
                  "reset_only_on_termination", "returns_given_plan"]
INITS = {"M": ("MInit", "MNext"), "L": ("LInit", "LNext"), "O": ("OInit", "ONext"), "S": ("SInit", "SNext")}


def _workers():
    return max(1, min(16, int(os.environ.get("VERIF_TLC_WORKERS", "16") or 16)))


def subsets(h):
    return {frozenset(c) for r in range(h + 1) for c in itertools.combinations(range(1, h + 1), r)}


def consts(**over):
    c = dict(H=3, InitWithPrev=True, Masks={frozenset()}, MaxCalls=3, NOptIters={1}, NSamplesSet={2}, NParticlesSet={2}, Obs0Set={1}, NEnsemble=2,
             ThreadIterKey=False, Total=4, LearningStarts=1, StepsPerIter=2, LSGradSteps=5, GradSteps=1, MaxEpLen=2, Cap=3, Bounds={16 * 64 + 20},
             Dev=set(), EMIT=False)
    c.update(over)
    return c


def _run(level, c, invs=(), **kw):
    init, nxt = INITS[level]
    return tlc.run("Mpc", tlc.cfg_text(init=init, next=nxt, constants=c, invariants=list(invs), view=kw.pop("view", None)), **kw)


# ------------------------------------------------------------------ level 1
def l1_configs(quick):
    if quick:
        return [(2, True, 4), (3, True, 4), (3, False, 3)]
    return [(2, True, 6), (2, False, 4), (3, True, 6), (3, False, 4), (4, True, 4), (4, False, 3)]


def l1_key(v):
    code = v["code"]
    if code == "state after step differs from model" or code.startswith("state after step"):
        got, want = v["detail"].get("got", {}), v["detail"].get("want", {})
        if got.get("prevPlan") != want.get("prevPlan"):
            return "mpc_action:stored_plan" if v["path"][-1]["op"] == "MpcAction" else "episode_end:stored_plan"
        if got.get("key") != want.get("key"):
            return "mpc_action:state_key"
        return "mpc_action:state"
    return code


def l1_replay(rep, h, prev, calls, seed, G=None):
    c = consts(H=h, InitWithPrev=prev, Masks=subsets(h), MaxCalls=calls, EMIT=True)
    g = _run("M", c, view="MView", workers=1, tag="x01m-gen")
    G = graph.Graph(g.emitted)
    res = graph.cover(G, G.roots()[0], lambda: B.MpcBench(h, prev, seed), B.mpc_step, B.mpc_project, clone=lambda b: b.clone())
    for v in res["violations"]:
        what = f"horizon {h}, init_with_previous_plan={prev}: {v['what']}"
        if v["detail"].get("got") is not None:
            what += f" (real {v['detail']['got']}, model {v['detail'].get('want')})"
        rep.violation(l1_key(v), what + f" after {[(s['op'], s['args']) for s in v['path']]}"[:700],
                      {"kind": "l1", "h": h, "with_prev": prev, "seed": seed, "path": v["path"]})
    return G, g, res


def l1_binding_canary(G, h, prev, seed):
    """One corrupted expected value / one corrupted post-state must be noticed by the replay."""
    k0 = G.roots()[0]
    edge = next(e for e in G.out[k0] if e[0] == "MpcAction")
    op, args, exp, k2 = edge
    b = B.MpcBench(h, prev, seed)
    try:
        B.mpc_step(b, op, args, exp)
    except graph.Mismatch:
        return  # the code deviates on this very edge: reported by the main pass, nothing to learn from a corruption
    want = copy.deepcopy(G.state[k2])
    if graph.canon(B.mpc_project(b)) != graph.canon(want):
        return
    bad = copy.deepcopy(exp)
    bad["ret"] = [exp["ret"][0] + 1, exp["ret"][1]]
    try:
        B.mpc_step(B.MpcBench(h, prev, seed), op, args, bad)
    except graph.Mismatch:
        pass
    else:
        raise tlc.MachineryError("binding canary: a corrupted returned-row expectation was not noticed by the level-1 replay")
    want["prevPlan"][-1] = [1, 1]
    if graph.canon(B.mpc_project(b)) == graph.canon(want):
        raise tlc.MachineryError("binding canary: a corrupted stored plan was not noticed by the level-1 projection")


# ------------------------------------------------------------------ level 2
def l2_groups(emitted):
    groups = {}
    for e in emitted:
        groups.setdefault(json.dumps(e["args"], sort_keys=True), []).append(e)
    order = {"OptBegin": 0, "OptIter": 1, "OptReturn": 2}
    return [sorted(evs, key=lambda e: (order[e["op"]], e["exp"].get("i", 0))) for _, evs in sorted(groups.items())]


def l2_check(rep, c, seed):
    nens = c["NEnsemble"]
    o = _run("O", dict(c, EMIT=True), workers=1, tag="x01o-gen")
    n_calls = 0
    groups = l2_groups(o.emitted)
    for evs in groups:
        par = evs[0]["args"]
        run = B.run_optimize(par["n"], par["ns"], par["p"], par["o0"], par["h"], seed, nens)
        n_calls += len(run["log"])
        for key, what in B.compare_optimize(run, evs):
            rep.violation(key, what, {"kind": "l2", "par": par, "seed": seed, "nens": nens, "consts": _jsonable(c)})
    return o, groups, n_calls


def l2_binding_canary(groups, seed, nens):
    evs = next((g for g in groups if g[0]["args"]["n"] >= 1), None)
    if evs is None:
        raise tlc.MachineryError("binding canary: no planning behaviour with an iteration generated")
    par = evs[0]["args"]
    run = B.run_optimize(par["n"], par["ns"], par["p"], par["o0"], par["h"], seed, nens)
    if B.compare_optimize(run, evs):
        return
    bad = copy.deepcopy(evs)
    it = next(e for e in bad if e["op"] == "OptIter")
    it["exp"]["returns"][0] += 1
    if "_pets_opt_iter:returns" not in {k for k, _ in B.compare_optimize(run, bad)}:
        raise tlc.MachineryError("binding canary: a corrupted expected return was not noticed by the level-2 comparison")
    bad = copy.deepcopy(evs)
    run2 = dict(run, log=run["log"][:-1])
    if "_pets_optimize:call_sequence" not in {k for k, _ in B.compare_optimize(run2, bad)}:
        raise tlc.MachineryError("binding canary: a dropped update_fn call was not noticed by the level-2 comparison")


# ------------------------------------------------------------------ level 0
def l0_vector(rep, e, h):
    """one setup vector of TLC against the configuration a real train_pets call builds"""
    lo, hi = Fraction(*e["args"]["lo"]), Fraction(*e["args"]["hi"])
    res, err = B.real_config(float(lo), float(hi), h)
    rp = {"kind": "l0", "vector": e, "h": h}
    if err:
        rep.violation("train_pets:setup_raises", f"train_pets(total_timesteps=0) raised {err} for bounds [{lo}, {hi}]", rp)
        return
    cfg, st = res.mpc_config, res.mpc_state
    avg, var = Fraction(*e["exp"]["avg_act"]), Fraction(*e["exp"]["init_var"])
    got_avg, got_var, plan = np.asarray(cfg.avg_act), np.asarray(cfg.init_var), np.asarray(st.prev_plan)
    if got_avg.shape != (1,) or Fraction(float(got_avg[0])) != avg:
        rep.violation("train_pets:config_avg_act", f"avg_act {got_avg.tolist()} for bounds [{lo}, {hi}], model {float(avg)}", rp)
    if got_var.shape != (e["exp"]["rows"], 1) or any(Fraction(float(x)) != var for x in got_var.ravel()):
        rep.violation("train_pets:config_init_var", f"init_var {got_var.tolist()} for bounds [{lo}, {hi}], horizon {h}; model {e['exp']['rows']} rows of {float(var)}", rp)
    if plan.shape != (e["exp"]["rows"], 1) or any(Fraction(float(x)) != avg for x in plan.ravel()) or cfg.plan_horizon != h:
        rep.violation("train_pets:initial_plan", f"initial stored plan {plan.tolist()}, model {e['exp']['rows']} rows of avg_act {float(avg)}", rp)


def l0_check(rep, quick):
    bounds = [(-4, 8), (0, 4), (-6, -2), (2, 3)] if quick else [(-4, 8), (0, 4), (-6, -2), (2, 3), (-16, 16), (-1, 0), (5, 13)]
    hs = [2] if quick else [2, 4]
    n = 0
    for h in hs:
        s = _run("S", consts(H=h, Bounds={(a + 16) * 64 + (b + 16) for a, b in bounds}, EMIT=True), workers=1, tag="x01s-gen")
        for e in s.emitted:
            l0_vector(rep, e, h)
            n += 1
        rep.add_tlc(s, f"Mpc setup vectors H={h}")
        if n == len(s.emitted):
            rep.sample({"level0": s.emitted[0]})
    return n


# ------------------------------------------------------------------ level 3
SCRIPT_A = [(2, "term"), (3, "trunc"), (1, "term"), (4, "trunc")]


def scenarios(quick, seed):
    m3 = [[], [1, 2, 3], [2], [1, 3]]
    out = [
        dict(label="A ls3 n2 h3 prev stats", script=SCRIPT_A, total=12, ls=3, nspi=2, h=3, with_prev=True, cap=100, logger=True, stats=True, masks=m3),
        dict(label="B ls0 n1 h2 prev", script=[(3, "trunc"), (2, "term")], total=8, ls=0, nspi=1, h=2, with_prev=True, cap=100, logger=True, stats=False, masks=[[1, 2], [], [2]]),
        dict(label="C ls3 n4 h4 noprev", script=[(4, "term"), (1, "trunc"), (3, "term")], total=14, ls=3, nspi=4, h=4, with_prev=False, cap=100, logger=True, stats=True, masks=[[], [1, 2, 3, 4], [3]]),
        dict(label="D ls0 n4 h3 smallbuf nologger", script=[(1, "term"), (1, "trunc"), (2, "term")], total=9, ls=0, nspi=4, h=3, with_prev=True, cap=4, logger=False, stats=False, masks=m3),
        dict(label="E ls3 n1 h2 noprev smallbuf", script=[(4, "trunc")], total=9, ls=3, nspi=1, h=2, with_prev=False, cap=5, logger=True, stats=True, masks=[[1], []]),
        dict(label="F ls3 n2 h2 trunc-only", script=[(2, "trunc"), (3, "trunc")], total=10, ls=3, nspi=2, h=2, with_prev=True, cap=100, logger=True, stats=False, masks=[[1, 2]]),
        dict(label="G never learns", script=[(2, "term")], total=2, ls=3, nspi=2, h=2, with_prev=True, cap=100, logger=True, stats=True, masks=[[]]),
        dict(label="H ls0 n2 h4 term-only", script=[(1, "term"), (4, "term"), (2, "term")], total=11, ls=0, nspi=2, h=4, with_prev=True, cap=100, logger=True, stats=True, masks=[[2, 3, 4], [], [1, 2, 3, 4]]),
        dict(label="R real optimiser and model update", script=[(3, "term"), (2, "trunc")], total=8, ls=3, nspi=2, h=2, with_prev=True, cap=100, logger=True, stats=False, masks=[[]], real=True),
    ]
    rs = np.random.default_rng(seed * 7919 + 101)
    for i in range(4 if quick else 36):
        h = int(rs.integers(2, 5))
        script = [(int(rs.integers(1, 5)), str(rs.choice(["term", "trunc"]))) for _ in range(int(rs.integers(1, 5)))]
        masks = [sorted(int(x) for x in rs.choice(np.arange(1, h + 1), size=int(rs.integers(0, h + 1)), replace=False)) for _ in range(5)]
        out.append(dict(label=f"S{i} seed{seed}", script=script, total=int(rs.integers(6, 17)), ls=int(rs.choice([0, 3])), nspi=int(rs.choice([1, 2, 4])), h=h,
                        with_prev=bool(rs.integers(0, 2)), cap=int(rs.choice([3, 100])), logger=bool(rs.integers(0, 4) > 0), stats=bool(rs.integers(0, 2)), masks=masks))
    if not quick:
        out.append(dict(label="R2 real optimiser noprev", script=[(2, "trunc"), (4, "term")], total=9, ls=3, nspi=4, h=3, with_prev=False, cap=100, logger=True, stats=True, masks=[[]], real=True))
    for sc in out:
        sc.setdefault("lsgs", 5)
        sc.setdefault("gs", 1)
        sc.setdefault("seed", seed % 1000 + 3)
    return out


def first_clause(viol):
    return min(viol)[1] if viol else None


def l3_report(rep, traces, out):
    ok = 0
    for t in traces:
        v = out[t["id"]]
        rp = {"kind": "l3", "scenario": t["scenario"]}
        if t.get("error"):
            rep.violation("train_pets:raised", f"{t['id']}: train_pets raised {t['error']}", rp)
            continue
        if v["viol"]:
            pos, clause = min(v["viol"])
            ev = t["events"][pos - 1]
            rep.violation(f"train_pets:{clause}", f"{t['id']}: event {pos} ({ev['ev']}) fails clause {clause}; all failing clauses {sorted({c for _, c in v['viol']})}; event "
                          f"{ {k: ev[k] for k in ev if k not in ('ver', 'vd', 'same', 'actf', 'rows')} }"[:900], rp)
        else:
            ok += 1
    return ok


def l3_binding_canaries(traces, out):
    """Corrupt one recorded field / drop one event of an accepted trace: MpcTrace must name the clause."""
    def count(t, kind):
        return sum(e["ev"] == kind for e in t["events"])

    t = next((t for t in traces if not t.get("error") and not out[t["id"]]["viol"] and count(t, "train") >= 2 and count(t, "log_stop") >= 2 and t["cfg"]["logger"]
              and any(e["ev"] == "plan" and e["ret"] != [0, 0] for e in t["events"])), None)
    if t is None:
        return False  # no accepted trace of that shape: the main pass reports the deviations
    bads = []

    def variant(name, clause, fn):
        b = copy.deepcopy(t)
        b["id"] = name
        fn(b["events"])
        bads.append((b, clause))

    def nth(evs, kind, n=1, pred=lambda e: True):
        idx = [i for i, e in enumerate(evs) if e["ev"] == kind and pred(e)]
        return idx[min(n, len(idx) - 1)]

    fresh = lambda e: e["ret"] != [0, 0]  # the optimised plan starts with a fresh row: storing it unshifted is a real change
    train_block = lambda e: e["ev"] in ("sample", "train") or (e["ev"] in ("log_stat", "log_epoch") and e.get("key") in ("dynamics model loss", "dynamics_model"))
    variant("epochs", "EpochsHandOver", lambda evs: evs[nth(evs, "train")].update(epochs=evs[nth(evs, "train")]["epochs"] + 4))
    variant("noreset", "Missing_reset", lambda evs: evs.pop(nth(evs, "reset")))
    variant("shift", "ShiftByOne", lambda evs: evs[nth(evs, "plan", 0, fresh)].update(after=evs[nth(evs, "plan", 0, fresh)]["out"]))
    variant("notrain", "TrainMissing", lambda evs: [evs.pop(i) for i in sorted([j for j, e in enumerate(evs) if train_block(e)][:4], reverse=True)])
    variant("stop", "StopReportsEpisodeLength", lambda evs: evs[nth(evs, "log_stop")].update(n=evs[nth(evs, "log_stop")]["n"] + 1))
    res, _ = B.validate([b for b, _ in bads], tag="x01canary")
    for b, clause in bads:
        got = {c for _, c in res[b["id"]]["viol"]}
        if clause not in got:
            raise tlc.MachineryError(f"binding canary '{b['id']}': the corrupted trace was not rejected by clause {clause} (got {sorted(got)})")
    return True


# ------------------------------------------------------------------ run
def _jsonable(c):
    return {k: (sorted(sorted(x) if isinstance(x, (set, frozenset)) else x for x in v) if isinstance(v, (set, frozenset)) else v) for k, v in c.items()}


def _from_jsonable(c):
    out = {}
    for k, v in c.items():
        if isinstance(v, list):
            out[k] = {frozenset(x) if isinstance(x, list) else x for x in v}
        else:
            out[k] = v
    return out


def run(rep):
    quick = rep.tier == "quick"
    seed = rep.seed
    W = _workers()
    t0 = time.time()
    tlc.sany("Mpc")
    tlc.sany("MpcTrace")
    pool = cf.ThreadPoolExecutor(max_workers=4)
    jobs = {}
    # ---- TLC decides the properties on the models
    for h, prev, calls in l1_configs(quick):
        jobs[f"Mpc level 1 H={h} prev={prev} calls<={calls}"] = ("prop", pool.submit(
            _run, "M", consts(H=h, InitWithPrev=prev, Masks=subsets(h), MaxCalls=calls), M_INVS, workers=max(2, W // 4), coverage=True, tag="x01m"))
    l3 = [dict(H=2, LearningStarts=0, StepsPerIter=1, Total=5, MaxEpLen=3, Cap=3), dict(H=3, LearningStarts=3, StepsPerIter=2, Total=7, MaxEpLen=3, Cap=4),
          dict(H=2, LearningStarts=2, StepsPerIter=4, Total=8, MaxEpLen=4, Cap=100, InitWithPrev=False)]
    if not quick:
        l3 += [dict(H=4, LearningStarts=3, StepsPerIter=1, Total=7, MaxEpLen=4, Cap=5), dict(H=3, LearningStarts=0, StepsPerIter=4, Total=8, MaxEpLen=2, Cap=100),
               dict(H=3, LearningStarts=9, StepsPerIter=2, Total=6, MaxEpLen=3, Cap=100),
               dict(H=3, LearningStarts=3, StepsPerIter=2, Total=8, MaxEpLen=4, Cap=6)]
    for c in l3:
        h = c["H"]
        masks = subsets(h) if h <= 3 else {frozenset(), frozenset(range(1, h + 1)), frozenset({2}), frozenset({1, h})}
        need = ["EnvStep", "EpisodeEnd", "Continue"] + (["ActRandom"] if c["LearningStarts"] > 0 else []) + (["TrainModel", "ActPlanned"] if c["LearningStarts"] < c["Total"] else [])
        need += ["SkipTraining"] if c["LearningStarts"] > 0 or c["StepsPerIter"] > 1 else []
        jobs[f"Mpc level 3 {c}"] = ("prop", pool.submit(_run, "L", consts(Masks=masks, **c), L_INVS, workers=max(2, W // 4), coverage=True, tag="x01l"), need)
    oc = consts(H=3, NOptIters={0, 1, 2, 3}, NSamplesSet={1, 2, 4}, NParticlesSet={1, 2, 4}, Obs0Set={0, 2})
    jobs["Mpc level 2"] = ("prop", pool.submit(_run, "O", oc, O_INVS, workers=2, coverage=True, tag="x01o"))
    # the named deviations must be refuted
    for dev in QUICK_CANARIES if quick else CANARIES:
        lvl, inv = CANARIES[dev]
        c = consts(H=3, Masks=subsets(3), MaxCalls=3, Total=6, LearningStarts=2, StepsPerIter=2, MaxEpLen=3, Cap=100, NOptIters={2}, Dev={dev})
        jobs[f"canary {dev}"] = ("canary", pool.submit(_run, lvl, c, [inv], workers=2, tag="x01bad"), inv)
    # the code's key handling inside one planning call: every iteration gets the same sampling key (reported, not enforced)
    jobs["iteration keys (code)"] = ("keys", pool.submit(_run, "O", consts(NOptIters={2}), ["IterationKeysDistinct"], workers=1, tag="x01k"), False)
    jobs["iteration keys (threaded)"] = ("keys", pool.submit(_run, "O", consts(NOptIters={2}, ThreadIterKey=True), ["IterationKeysDistinct"], workers=1, tag="x01k"), True)

    jobs["planner / training keys (code)"] = ("keys", pool.submit(_run, "L", consts(H=2, Total=4, LearningStarts=1, StepsPerIter=2, MaxEpLen=2), ["PlannerAndTrainingKeysDisjoint"], workers=1, tag="x01k"), False)

    B.L.load()
    marks = {"jax": round(time.time() - t0, 1)}
    # ---- level 1: every transition of the state graph into the real mpc_action
    edges = nontrivial = 0
    first_G = None
    for h, prev, calls in l1_configs(quick):
        G, g, res = l1_replay(rep, h, prev, calls, seed + 11)
        edges += res["edges_tested"]
        nontrivial += sum(1 for k, es in G.out.items() for e in es if G.state[k]["calls"] > G.state[k]["epFirst"])
        if first_G is None:
            first_G = (G, h, prev)
            rep.sample({"level1": g.emitted[min(len(g.emitted) - 1, 9)]})
    l1_binding_canary(first_G[0], first_G[1], first_G[2], seed + 11)
    marks["l1"] = round(time.time() - t0, 1)
    # ---- level 2: real planning calls against TLC's behaviours
    c2 = consts(H=3, NOptIters={0, 1, 3}, NSamplesSet={2}, NParticlesSet={2}, Obs0Set={1}, NEnsemble=3) if quick else consts(H=3, NOptIters={0, 1, 2, 3}, NSamplesSet={1, 4}, NParticlesSet={1, 4}, Obs0Set={0, 2}, NEnsemble=3)
    o, groups, n_calls = l2_check(rep, c2, seed + 5)
    plan_runs = len(groups)
    if not quick:
        o2, groups2, n2 = l2_check(rep, consts(H=2, NOptIters={2}, NSamplesSet={2}, NParticlesSet={2}, Obs0Set={1}, NEnsemble=2), seed + 6)
        o4, groups4, n4 = l2_check(rep, consts(H=4, NOptIters={1, 2}, NSamplesSet={3}, NParticlesSet={2}, Obs0Set={3}, NEnsemble=5), seed + 7)
        plan_runs += len(groups2) + len(groups4)
        n_calls += n2 + n4
    l2_binding_canary(groups, seed + 5, 3)
    rep.sample({"level2": next(e for e in o.emitted if e["op"] == "OptIter")})
    marks["l2"] = round(time.time() - t0, 1)
    # ---- level 0: the configuration train_pets builds
    n_cfg = l0_check(rep, quick)
    marks["l0"] = round(time.time() - t0, 1)
    # ---- level 3: real train_pets runs, validated by MpcTrace
    scs = scenarios(quick, seed)
    traces = [B.run_train_pets(sc) for sc in scs]
    marks["l3 runs"] = round(time.time() - t0, 1)
    out, r = B.validate(traces)
    rep.add_tlc(r, "MpcTrace batched trace validation")
    accepted = l3_report(rep, traces, out)
    l3_binding_canaries(traces, out)
    marks["l3"] = round(time.time() - t0, 1)
    rep.sample({"level3": {"trace": traces[0]["id"], "cfg": traces[0]["cfg"], "verdict": out[traces[0]["id"]],
                           "plan_event": {k: v for k, v in next(e for e in traces[0]["events"] if e["ev"] == "plan").items() if k not in ("ver", "vd", "same")}}})

    # ---- collect the model-level verdicts
    for name, job in jobs.items():
        kind, fut = job[0], job[1]
        r = fut.result()
        if kind == "prop":
            rep.add_tlc(r, name)
            if not r.ok:
                rep.violation(f"spec:Mpc:{r.violated}", f"design-level violation of {r.violated} in {name}", {"kind": "spec", "trace": r.error_trace})
                continue
            if "level 1" in name:
                tlc.require_covered(r, ["MpcAction", "EpisodeReset"])
            elif "level 3" in name:
                tlc.require_covered(r, job[2])
            else:
                tlc.require_covered(r, ["OptBegin", "OptIter", "OptReturn"])
        elif kind == "canary":
            if r.violated != job[2]:
                raise tlc.MachineryError(f"{name}: the deviation was not refuted by {job[2]} (TLC: {r.violated})")
        elif kind == "keys":
            if bool(r.ok) != job[2]:
                raise tlc.MachineryError(f"{name}: the key-separation invariant was expected to {'hold' if job[2] else 'fail'}")
    pool.shutdown()
    marks["tlc"] = round(time.time() - t0, 1)

    steps = sum(out[t["id"]]["steps"] for t in traces)
    rep.traces = edges + plan_runs + n_cfg + len(traces)
    rep.evaluations = edges + n_calls + n_cfg + sum(len(t["events"]) for t in traces)
    rep.distinct = nontrivial + sum(1 for g in groups if g[0]["args"]["n"] >= 1) + sum(1 for t in traces if out[t["id"]]["calls"] >= 2 and out[t["id"]]["trainings"] >= 2)
    rep.exhaustive = True
    rep.rule = (
        "level 1: TLC enumerates the complete state graph of mpc_action / episode reset (horizon 2-4, every subset of rows passed through by the abstract "
        "optimiser, init_with_previous_plan on/off); every transition is replayed once into the real mpc_action, non-trivial when the stored plan holds a row "
        "of an earlier call; level 2: one real _pets_optimize call per (n_opt_iter, n_samples, n_particles, first observation) behaviour, non-trivial when "
        "n_opt_iter >= 1; level 3: real train_pets runs on scripted episodes (fixed scenarios + scenarios drawn from the seed), non-trivial when the run has "
        ">= 2 trainings and >= 2 planner calls"
    )
    rep.extra.update(level1_edges=edges, level2_planning_calls=plan_runs, level2_recorded_calls=n_calls, setup_vectors=n_cfg, level3_runs=len(traces),
                     level3_accepted=accepted, level3_steps=steps, level3_planner_calls=sum(out[t["id"]]["calls"] for t in traces),
                     level3_trainings=sum(out[t["id"]]["trainings"] for t in traces), canaries=len(QUICK_CANARIES if quick else CANARIES), marks=marks,
                     observations=["TLC refutes IterationKeysDistinct for the code's key handling in _pets_optimize (same sampling key in every CEM iteration); modelled as IterKeyReusedEveryIteration, not enforced",
                                   "TLC refutes PlannerAndTrainingKeysDisjoint for train_pets (training and planner key chains start from the same jax.random.key(seed)); modelled as SameRootForTrainingAndPlanning, not enforced",
                                   "the training batch is a with-replacement resample of the buffer (BatchIsResampleOfBuffer): membership is checked, not equality"])
    rep.assumptions += [
        "the abstract optimiser either passes a row through or returns a fresh one (the two extremes of an update of the mean)",
        "jax.random.split is injective on the explored part of the split tree (key paths are compared through key data)",
        "train_pets runs use an interposed optimiser / model update (two scenarios run the real ones); CEM arithmetic, ts_inf noise and ensemble training belong to C10 / C16 / C17",
        "bounds: horizon 2-4, <= 5 planner calls per level-1 graph, <= 8 loop bodies in the level-3 model, <= 16 steps per real run",
    ]


# ------------------------------------------------------------------ replay
def replay(path, rep):
    d = json.load(open(path))
    rp = d["replay"]
    bad = False
    B.L.load()
    if rp["kind"] == "l1":
        b = B.MpcBench(rp["h"], rp["with_prev"], rp["seed"])
        # expectations for the path come from TLC again
        c = consts(H=rp["h"], InitWithPrev=rp["with_prev"], Masks=subsets(rp["h"]), MaxCalls=8, EMIT=True)
        try:
            for st in rp["path"]:
                B.mpc_step(b, st["op"], st["args"], st.get("exp"))
                print(st["op"], st["args"], "->", B.mpc_project(b))
            g = _run("M", c, view="MView", workers=1, tag="x01replay")
            G = graph.Graph(g.emitted)
            k = G.roots()[0]
            for st in rp["path"]:
                k = next(k2 for op, a, e, k2 in G.out[k] if op == st["op"] and graph.canon(a) == graph.canon(st["args"]))
            if graph.canon(B.mpc_project(b)) != k:
                print("  real state", B.mpc_project(b), "model", G.state[k])
                bad = True
        except graph.Mismatch as m:
            print("  ", m.what)
            bad = True
    elif rp["kind"] == "l2":
        c = _from_jsonable(rp["consts"])
        par = rp["par"]
        c.update(NOptIters={par["n"]}, NSamplesSet={par["ns"]}, NParticlesSet={par["p"]}, Obs0Set={par["o0"]}, EMIT=True)
        o = _run("O", c, workers=1, tag="x01replay")
        run = B.run_optimize(par["n"], par["ns"], par["p"], par["o0"], par["h"], rp["seed"], rp["nens"])
        res = B.compare_optimize(run, l2_groups(o.emitted)[0])
        for k, w in res:
            print("  ", k, w)
        bad = bool(res)
    elif rp["kind"] == "l3":
        sc = rp["scenario"]
        sc["script"] = [tuple(x) for x in sc["script"]]
        t = B.run_train_pets(sc)
        out, _ = B.validate([t], tag="x01replay")
        print(t["id"], out[t["id"]], t.get("error"))
        bad = bool(out[t["id"]]["viol"] or t.get("error"))
    elif rp["kind"] == "l0":
        class Sink:
            def __init__(self):
                self.v = []

            def violation(self, k, w, r):
                self.v.append((k, w))

        sink = Sink()
        l0_vector(sink, rp["vector"], rp["h"])
        for k, w in sink.v:
            print("  ", k, w)
        bad = bool(sink.v)
    else:
        print(rp)
        bad = True
    if bad:
        print("EXTRA-DEVIATION spec=X01 replay=" + path)
        return 1
    return 0
