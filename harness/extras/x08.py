"""X08 - the gradient-step schedule of the off-policy training routines.

Specification: spec/UpdateSchedule.tla (design model: the learning part of one environment step of train_dqn /
train_nature_dqn / train_ddqn / train_ddqn_per / train_ddpg / train_td3 / train_td3_lap / train_sac / train_td7 / train_mrq
is the operation sequence StepOps(c, s); a state machine executes it one operation per transition and keeps a log; the
schedule is stated as laws over the log that do not refer to StepOps - closed-form update counts, batch provenance,
order inside a block, the learning gate, optimiser counters - and TLC checks them for every small configuration) and
spec/UpdateScheduleTrace.tla (trace validation: real runs recorded by harness/extras/x08_record.py are matched event
by event against StepOps and the laws are re-evaluated on the log of the real run).

TLC gives every verdict; Python only records and reads verdicts.
"""
from __future__ import annotations

import copy
import json
import os
import subprocess
import sys
import time
from concurrent.futures import ThreadPoolExecutor

from .. import tlc

LEVEL = "model_checking"
TITLE = "Gradient-step schedule of the off-policy routines: update counts per component, batch provenance, order inside an update block, learning gate, optimiser step counters"
MANIFEST = dict(
    category="model_checking",
    text="TLC model-checks spec/UpdateSchedule.tla for every small configuration (learning_starts 0-3, start 0/2, batch 1-2, gradient_steps 1-3, policy / target delays and update frequencies 1-3, SAC with and without autotune) of the ten off-policy routines: the number of critic / actor / temperature / embedding / encoder updates, sample_batch calls, priority updates and target updates after any number of steps equals a closed form of the step indices and the configuration (CountingLaw); every update consumes the batch sampled last, sampled in the same step after the transition was stored, no two critic (encoder) updates share a batch, actor and temperature share the critic's batch (BatchFresh, ActorSharesCriticBatch, BatchRows, StoredBeforeSampled); critic before actor, temperature right after each actor update, nothing trained after the target update of an iteration, MR.Q targets first (OrderInBlock); nothing is learned outside the gate and the first update happens exactly at the documented step (NoLearningOutsideGate, FirstUpdateAtDocumentedStep); optimiser step counters equal the number of updates, the MR.Q encoder block takes target_delay steps (OptimiserCounters, StepsPerUpdate). Real runs of all ten routines (scripted environment, recording buffer that numbers its batches, interposed module-level update functions reporting the batch they were handed by object identity and the optimiser counter before / after) are matched operation by operation against the same StepOps and judged by the same laws in one TLC run - the right level because these are counter / ordering / provenance properties of a sequential loop that an explicit state machine plus exact trace validation decides.",
    note="bounds: design model 7 steps per run, about 49,000 states over about 2,600 configurations; traces: 30 (quick) / 40 (thorough) runs of 7-30 steps, gradient_steps 1-3, policy_delay 2/3/5, update_frequency 2/3/5, target delays 2-7, learning_starts 1-11 (no multiple of a delay), batch 2-4, continued runs, capacities below the run length; trusted: TLC, the probes in harness/extras/x08_record.py (object identity of batch leaves between sample_batch and the update call, positional layout of td7._train_step / td7_update_critic / mrq update functions), nnx.Optimizer.step as the optimiser's own counter",
    technique="TLA+ design model + TLC (11 invariants, 7 named deviation canaries); trace validation (UpdateScheduleTrace) of real train_* runs with nnx.jit(partial(train_step_with_loss, loss)), ddpg_update_actor, sac_update_actor, _update_entropy_coefficient, update_sale, td7_update_critic, td7_update_actor, nnx.cached_partial(update_critic_and_policy / update_model_based_encoder), soft / hard_target_net_update and sample_batch interposed",
)

ROOT = os.path.dirname(os.path.dirname(os.path.dirname(os.path.abspath(__file__))))
WORKERS = int(os.environ.get("VERIF_TLC_WORKERS", "8"))

INVS = ["TypeOK", "CountingLaw", "BatchFresh", "ActorSharesCriticBatch", "BatchRows", "StoredBeforeSampled", "OrderInBlock", "NoLearningOutsideGate",
        "FirstUpdateAtDocumentedStep", "OptimiserCounters", "StepsPerUpdate"]
ACTIONS = ["EnvStepAndStore", "SampleBatch", "UpdateComponent", "PriorityOrTargetUpdate", "Finished"]


def _design(routines, *, steps=7, warms=(0, 1, 2, 3), starts=(0, 2), batches=(1, 2), delays=(1, 2, 3), dev="NoDev"):
    return dict(Routines=set(routines), Steps=steps, Warms=set(warms), Starts=set(starts), Batches=set(batches), Delays=set(delays), DEV=dev)


def design_configs(tier):
    cfgs = [("gradient_steps family", _design(["ddpg", "td3", "td3_lap"])),
            ("sac + DQN family", _design(["sac", "dqn", "nature_dqn", "ddqn", "ddqn_per"])),
            ("epoch-counted (td7, mrq)", _design(["td7", "mrq"]))]
    if tier == "thorough":
        cfgs += [("td3 / sac, 11 steps, delays up to 4", _design(["td3", "sac"], steps=11, warms=(0, 3, 5), starts=(0, 4), batches=(2,), delays=(2, 3, 4))),
                 ("ddqn / td7 / mrq, 11 steps, delays up to 4", _design(["ddqn", "td7", "mrq"], steps=11, warms=(0, 3, 5), starts=(0, 4, 7), batches=(2,), delays=(2, 3, 4)))]
    return cfgs


_SMALL = dict(steps=6, warms=(1, 2), starts=(0,), batches=(2,), delays=(2, 3))
# deviation -> (configuration, invariant that must refute it)
CANARIES = [
    ("ActorEveryStep", _design(["td3"], dev="ActorEveryStep", **_SMALL), "CountingLaw"),
    ("BatchReusedAcrossGradientSteps", _design(["ddpg"], dev="BatchReusedAcrossGradientSteps", **_SMALL), "BatchFresh"),
    ("LearnOneStepEarly", _design(["sac"], dev="LearnOneStepEarly", **_SMALL), "NoLearningOutsideGate"),
    ("TargetBeforeActor", _design(["td3_lap"], dev="TargetBeforeActor", **_SMALL), "OrderInBlock"),
    ("ActorOnItsOwnBatch", _design(["td3"], dev="ActorOnItsOwnBatch", **_SMALL), "ActorSharesCriticBatch"),
    ("SampleBeforeStore", _design(["ddqn"], dev="SampleBeforeStore", **_SMALL), "StoredBeforeSampled"),
    ("TemperatureOncePerBlock", _design(["sac"], dev="TemperatureOncePerBlock", **_SMALL), "CountingLaw"),
]


def _tlc_design(name, consts, workers, invariants=None):
    full = invariants is None
    r = tlc.run("UpdateSchedule", tlc.cfg_text(constants=consts, invariants=invariants or INVS), workers=workers, coverage=full, tag="x08design", timeout=900)
    if full and r.ok:
        tlc.require_covered(r, ACTIONS)
    return name, r


# ------------------------------------------------------------------ recording
def _record_group(tier, seed, group, outdir, repo, timeout=400):
    out = os.path.join(outdir, f"{group}.json")
    env = dict(os.environ)
    env.update(PYTHONPATH=repo + os.pathsep + ROOT, JAX_PLATFORMS="cpu", TF_CPP_MIN_LOG_LEVEL="3", PYTHONHASHSEED="0")
    env["XLA_FLAGS"] = env.get("XLA_FLAGS", "") + " --xla_cpu_multi_thread_eigen=false"
    env.setdefault("OMP_NUM_THREADS", "2")
    last = ""
    for attempt in range(2):  # an ordered jax.debug.callback of the adapters' policy probes was seen to hang under heavy load
        try:
            p = subprocess.run([sys.executable, "-m", "harness.extras.x08_record", tier, str(seed), group, out], env=env, cwd=ROOT,
                               capture_output=True, text=True, timeout=timeout * (attempt + 1))
        except subprocess.TimeoutExpired as e:
            last = f"timeout {e}"
            continue
        if p.returncode == 0 and os.path.exists(out):
            with open(out) as f:
                return json.load(f)
        last = p.stderr[-2000:]
        break
    raise tlc.MachineryError(f"X08 recorder for group {group} failed: {last}")


# ------------------------------------------------------------------ normalisation for TLC
EV_DEFAULTS = dict(comp="", rows=0, bs=0, n=-1, sid=0, s0=0, s1=0)
CFG_KEYS = ("routine", "warm", "start", "bs", "cap", "gs", "pd", "td", "uf", "autotune")


def normalise(tr):
    evs = []
    for e in tr["events"]:
        n = dict(EV_DEFAULTS)
        n.update(e)
        evs.append(n)
    return {"id": tr["id"], "cfg": {k: tr["cfg"][k] for k in CFG_KEYS}, "events": evs}


DUMMY = dict(Routines={"ddpg"}, Steps=1, Warms={0}, Starts={0}, Batches={1}, Delays={1}, DEV="NoDev")
COUNTS = ("steps", "samples", "ops", "critic", "actor", "temp", "emb", "enc", "first")


def validate(traces, tag="x08trace", timeout=600):
    """-> {trace id: dict(steps, samples, ops, critic, actor, temp, emb, enc, first, viol=[(pos, clause), ...])}, TlcResult"""
    norm = [normalise(t) for t in traces]
    os.makedirs(os.path.join(tlc.OUT, "tmp"), exist_ok=True)
    path = os.path.join(tlc.OUT, "tmp", f"{tag}-{os.getpid()}-{int(time.time() * 1000) % 100000}.json")
    with open(path, "w") as f:
        json.dump(norm, f)
    try:
        r = tlc.run("UpdateScheduleTrace", tlc.cfg_text(init="TInit", next="TNext", constants=DUMMY, constraints=["Verdict"]), workers=1,
                    env={"TRACE_FILE": path}, tag=tag, timeout=timeout)
    finally:
        os.remove(path)
    out = {}
    for line in r.stdout.splitlines():
        if line.startswith('<<"VERDICT", "'):
            d = json.loads(json.loads(line[len('<<"VERDICT", '):-2]))
            out[d["id"]] = dict({k: d[k] for k in COUNTS}, viol=sorted((int(a), b) for a, b in d["viol"]))
    missing = [t["id"] for t in norm if t["id"] not in out]
    if missing:
        raise tlc.MachineryError(f"UpdateScheduleTrace gave no verdict for traces {missing}: {r.stdout[-2500:]}")
    return out, r


# ------------------------------------------------------------------ binding canaries
def _nth(evs, pred, nth=0):
    hits = [i for i, e in enumerate(evs) if pred(e)]
    return hits[min(nth, len(hits) - 1)] if hits else None


def _c_drop_actor(t):  # one actor update of a due step dropped
    del t["events"][_nth(t["events"], lambda e: e["ev"] == "upd" and e["comp"] == "actor", 1)]


def _c_stale_batch(t):  # a critic update that consumed the batch of the previous gradient step
    i = _nth(t["events"], lambda e: e["ev"] == "upd" and e["comp"] == "critic", 2)
    t["events"][i]["sid"] -= 1


def _c_opt_twice(t):  # an optimiser that stepped twice in one update
    i = _nth(t["events"], lambda e: e["ev"] == "upd" and e["comp"] == "critic", 1)
    for e in t["events"][i:]:
        if e["ev"] == "upd" and e["comp"] == "critic":
            e["s1"] += 1
            if e is not t["events"][i]:
                e["s0"] += 1


def _c_early(t):  # the first learning block moved one step earlier
    i = _nth(t["events"], lambda e: e["ev"] == "sample")
    j = max(k for k in range(i) if t["events"][k]["ev"] == "add")
    nxt = next(k for k in range(i, len(t["events"])) if t["events"][k]["ev"] in ("add", "end"))
    blk = t["events"][i:nxt]
    del t["events"][i:nxt]
    t["events"][j:j] = blk


def _c_small_batch(t):  # a batch with one row less
    i = _nth(t["events"], lambda e: e["ev"] == "sample", 1)
    t["events"][i]["rows"] -= 1
    t["events"][i]["bs"] -= 1


def _c_swap_temp(t):  # temperature before its actor update
    i = _nth(t["events"], lambda e: e["ev"] == "upd" and e["comp"] == "temp")
    t["events"][i - 1], t["events"][i] = t["events"][i], t["events"][i - 1]


def _c_tgt_first(t):  # the target copy of a due step made before the Q update of that step
    i = _nth(t["events"], lambda e: e["ev"] == "tgt")
    j = max(k for k in range(i) if t["events"][k]["ev"] == "add")
    if j + 1 == i:
        raise ValueError("no Q update in this step")
    t["events"].insert(j + 1, t["events"].pop(i))


CORRUPTIONS = [("td3", "drop_actor", _c_drop_actor, "BlockOrder"), ("ddpg", "stale_batch", _c_stale_batch, "Inv:BatchFresh"),
               ("td3_lap", "opt_twice", _c_opt_twice, "OptimiserStepsPerUpdate"), ("sac", "early", _c_early, "LearningOutsideGate"),
               ("ddqn", "small_batch", _c_small_batch, "BatchSize"), ("sac", "swap_temp", _c_swap_temp, "Inv:OrderInBlock"),
               ("td7", "drop_actor7", _c_drop_actor, "Inv:CountingLaw"), ("mrq", "stale_batch_m", _c_stale_batch, "ConsumesLatestBatch")]


def corruptions(traces):
    by = {}
    for t in traces:
        if not t.get("error"):
            by.setdefault(t["cfg"]["routine"], t)
    out = []
    for rname, name, fn, clause in CORRUPTIONS:
        if rname not in by:
            continue
        b = copy.deepcopy(by[rname])
        b["id"], b["base"] = "canary:" + name, by[rname]["id"]
        try:
            fn(b)
        except Exception:
            continue
        out.append((b, clause))
    return out


# ------------------------------------------------------------------ run
def _violations(rep, traces, out):
    n_events = 0
    for t in traces:
        v = out[t["id"]]
        n_events += len(t["events"])
        rname = t["cfg"]["routine"]
        if t.get("error"):
            rep.violation(f"{rname}:raised", f"{t['id']}: the routine (or a probe inside it) raised {t['error']}", {"routine": rname, "scenario": t["scenario"], "clause": "raised"})
        for pos, clause in v["viol"]:
            e = t["events"][pos - 1]
            rep.violation(f"{rname}:{clause}", f"{t['id']} event {pos}: clause {clause} fails at {e} (cfg {t['cfg']})"[:700],
                          {"routine": rname, "scenario": t["scenario"], "position": pos, "clause": clause})
    return n_events


def run(rep):
    repo = os.environ.get("VERIF_REPO_ROOT", "/repo")
    tlc.sany("UpdateSchedule")
    tlc.sany("UpdateScheduleTrace")
    from . import x08_record

    groups = sorted({g for g, _, _ in x08_record.scenarios(rep.tier, rep.seed)})
    outdir = os.path.join(tlc.OUT, "tmp", f"x08-{os.getpid()}")
    os.makedirs(outdir, exist_ok=True)
    w = max(1, min(4, WORKERS // 2))
    try:
        with ThreadPoolExecutor(max_workers=len(groups) + 3) as ex:
            recs = [ex.submit(_record_group, rep.tier, rep.seed, g, outdir, repo) for g in groups]
            designs = [ex.submit(_tlc_design, n, c, w) for n, c in design_configs(rep.tier)]
            canaries = [ex.submit(_tlc_design, n, c, 1, [inv]) for n, c, inv in CANARIES]
            for f in designs:
                name, r = f.result()
                rep.add_tlc(r, f"UpdateSchedule design model: {name}")
                if not r.ok:
                    rep.violation(f"spec:UpdateSchedule:{r.violated}", f"design-level violation of {r.violated} ({name})", (r.error_trace or "")[:3000])
            for f, (dev, _, inv) in zip(canaries, CANARIES):
                name, r = f.result()
                if r.violated != inv:
                    raise tlc.MachineryError(f"canary: deviation {dev} not refuted by invariant {inv} (TLC says {r.violated})")
            traces = [t for f in recs for t in f.result()]
    finally:
        import shutil

        shutil.rmtree(outdir, ignore_errors=True)
    corr = corruptions(traces)
    out, r = validate(traces + [c for c, _ in corr])
    rep.add_tlc(r, "UpdateScheduleTrace batched trace validation")
    n_events = _violations(rep, traces, out)
    counted = 0
    for c, clause in corr:
        if out[c["base"]]["viol"]:
            continue  # on a deviating repository the "corrupted" value may be the conforming one
        counted += 1
        got = {cl for _, cl in out[c["id"]]["viol"]}
        if clause not in got:
            raise tlc.MachineryError(f"binding canary {c['id']}: corrupted trace not rejected by clause {clause} (got {sorted(got)})")
    if counted < 5 and not rep.violations:
        raise tlc.MachineryError(f"binding canaries: only {counted} could be judged (a routine produced no usable trace)")
    if not rep.violations:
        # non-vacuity: every run learns, delayed components are updated at least twice and less often than the critic
        for t in traces:
            v, c = out[t["id"]], t["cfg"]
            if v["critic"] < 3:
                raise tlc.MachineryError(f"scenario {t['id']} contains only {v['critic']} critic updates")
            if c["routine"] in ("td3", "td3_lap", "sac", "td7") and not (2 <= v["actor"] and (v["actor"] < v["critic"] or c["routine"] == "sac")):
                raise tlc.MachineryError(f"scenario {t['id']}: the actor delay is not exercised (actor {v['actor']}, critic {v['critic']})")
            if c["routine"] == "mrq" and v["enc"] < 2:
                raise tlc.MachineryError(f"scenario {t['id']}: fewer than two encoder blocks")
            if c["routine"] == "sac" and v["temp"] != v["actor"]:
                raise tlc.MachineryError(f"scenario {t['id']}: temperature updates not recorded")
    # -- evidence
    per, calls = {}, {}
    for t in traces:
        v = out[t["id"]]
        p = per.setdefault(t["cfg"]["routine"], dict(traces=0, events=0, steps=0, samples=0, critic=0, actor=0, temp=0, emb=0, enc=0))
        p["traces"] += 1
        p["events"] += len(t["events"])
        for k in ("steps", "samples", "critic", "actor", "temp", "emb", "enc"):
            p[k] += v[k]
        for e in t["events"]:
            k = e["ev"] + (":" + e["comp"] if e.get("comp") else "")
            calls[k] = calls.get(k, 0) + 1
    rep.traces = len(traces)
    rep.evaluations = n_events
    rep.distinct = sum(out[t["id"]]["ops"] for t in traces)
    rep.rule = ("one case = one learning operation (sample_batch call, update of one component, priority update, target update) of a real train_* run, matched against "
                "StepOps of its step and judged by the laws of UpdateSchedule on the whole run; scenarios: gradient_steps 1-3, policy_delay 2/3/5, update_frequency 2/3/5, "
                "target delays 2-7, learning_starts that are no multiple of a delay (and one below batch_size + 1 for the DQN family), batch 2-4, continued runs (start > 0, "
                "TD7 / MR.Q with start > learning_starts so that the epoch counter continues), capacities below the run length; non-trivial: every run has >= 3 critic "
                "updates, delayed components >= 2 updates and fewer than the critic")
    rep.exhaustive = False
    rep.extra["per_routine"] = per
    rep.extra["real_calls"] = calls
    rep.extra["binding_canaries"] = [c["id"] + " -> " + cl for c, cl in corr]
    rep.extra["spec_canaries"] = [f"{d} refuted by {i}" for d, _, i in CANARIES]
    for rname in ("td3", "sac", "mrq"):
        for t in traces:
            if t["cfg"]["routine"] == rname:
                i = _nth(t["events"], lambda e: e["ev"] == "upd" and e["comp"] == "actor", 1)
                if i is not None:
                    rep.sample({"trace": t["id"], "cfg": t["cfg"], "position": i + 1, "block": t["events"][max(0, i - 3):i + 3]})
                break
    rep.assumptions += [
        "batch provenance is observed by object identity: the arrays returned by sample_batch are the very objects handed to the update functions (a routine that copied or re-wrapped its batch would be reported as consuming no recorded batch)",
        "nnx.Optimizer.step is read before and after every interposed update call; optimisers are fresh at the start of a run",
        "probes rely on the positional layout of td7._train_step, td7.td7_update_critic, mrq.update_critic_and_policy and update_model_based_encoder; a changed layout surfaces as '<routine>:raised' or UnknownComponent",
        "MR.Q's critic and policy are updated inside one jitted call (update_critic_and_policy): their relative order is not observable and recorded as critic, actor",
        "documented-vs-coded (modelled as named operators, not raised): GateAlsoNeedsMoreThanBatchSteps (nature_dqn / ddqn / ddqn_per learn only when step > batch_size as well as step >= learning_starts), DqnGateIsStepExceedsBatch, TemperaturePerActorUpdate (SAC updates the temperature policy_delay times per due step), TargetCopyNeedsNoTraining, MrqTargetsCopiedBeforeTraining, EpochContinues",
    ]


def replay(path, rep):
    with open(path) as f:
        doc = json.load(f)
    r = doc.get("replay") or {}
    if not isinstance(r, dict) or "scenario" not in r:
        print("design-level finding, nothing to replay against the code:", doc.get("what"))
        return 1
    from . import x08_record

    t = x08_record.record(r["routine"], r["scenario"])
    out, _ = validate([t], tag="x08replay")
    v = out[t["id"]]
    bad = sorted({c for _, c in v["viol"]})
    print(t["id"], {k: v[k] for k in COUNTS}, "failing clauses:", bad, "error:", t.get("error"))
    fails = (r.get("clause") in bad) or (r.get("clause") == "raised" and t.get("error"))
    if fails:
        print(f"EXTRA-DEVIATION spec={rep.pid} replay={path}")
        return 1
    return 0
