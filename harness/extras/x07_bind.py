"""X07 - adapters between spec/Nets.tla and the real rl_blox networks.

Python here only (a) builds the real modules for the structure TLC chose, (b) overwrites their parameters with the lattice
assignment TLC printed and feeds the inputs TLC chose, (c) compares the outputs with the values TLC printed (exact rationals,
closed rational intervals, or "must be bit-identical to the unperturbed output").  No expected value is computed here.

Every check_* function returns a list of (key, what) pairs - empty when the real code agrees with the model.
"""
from __future__ import annotations

import contextlib
from fractions import Fraction

import numpy as np

from .. import exact, tlc

F32 = np.float32
UNIT = Fraction(1, 2 ** 22)  # unit of the model's slack values (NetsOps.tla: LnDelta, LnSlack)


# ------------------------------------------------------------------ values
def qf(x) -> float:
    return float(exact.q(x))


def vec(v):
    """sequence of [n, d] -> float32 vector (lattice values must be float32-exact: checked)"""
    a = np.array([qf(x) for x in v], dtype=np.float64)
    b = a.astype(F32)
    if not np.array_equal(a, b.astype(np.float64)):
        raise tlc.MachineryError(f"lattice value not exact in float32: {v}")
    return b


def mat(rows, ncols=None):
    if len(rows) == 0:
        return np.zeros((0, ncols or 0), dtype=F32)
    return np.stack([vec(r) for r in rows])


def bits(a):
    return np.ascontiguousarray(np.asarray(a, dtype=F32)).view(np.uint32)


def same_bits(a, b):
    a, b = np.asarray(a), np.asarray(b)
    return a.shape == b.shape and a.dtype == b.dtype and np.array_equal(bits(a), bits(b))


def close_to(v, x, slack_units) -> bool:
    """|v - x| <= slack (a rational bound printed by TLC, in units of 2^-22); slack 0: equality"""
    v = float(v)
    if not np.isfinite(v):
        return False
    return abs(Fraction(v) - exact.q(x)) <= exact.q(slack_units) * UNIT


def within(v, lo, hi) -> bool:
    v = float(v)
    return bool(np.isfinite(v)) and exact.q(lo) <= Fraction(v) <= exact.q(hi)


def expect_exact32(x, where):
    if not exact.is_exact32(exact.q(x)):
        raise tlc.MachineryError(f"{where}: the model's value {x} is not a float32 - the lattice is not exact")


SEED = 0  # VERIF_SEED: initial weights of the real modules (overwritten before every call - must not matter)
CLS = {"mlp": "MLP", "lnmlp": "LayerNormMLP", "gauss_shared": "GaussianMLP", "gauss_sep": "GaussianMLP"}


# ------------------------------------------------------------------ real modules
def construct(kind, nf, no, hn, act, seed=0):
    from flax import nnx
    from rl_blox.blox.function_approximator.gaussian_mlp import GaussianMLP
    from rl_blox.blox.function_approximator.layer_norm_mlp import LayerNormMLP
    from rl_blox.blox.function_approximator.mlp import MLP

    seed = int(SEED) % 1000003 + seed
    if kind == "mlp":
        return MLP(nf, no, list(hn), act, nnx.Rngs(seed))
    if kind == "lnmlp":
        return LayerNormMLP(nf, no, list(hn), act, nnx.Rngs(seed))
    if kind in ("gauss_shared", "gauss_sep"):
        return GaussianMLP(kind == "gauss_shared", nf, no, list(hn), act, nnx.Rngs(seed))
    raise AssertionError(kind)


_NETS = {}


def net_for(s, slot=0):
    """the real module for structure s (one object per structure and slot; its parameters are overwritten per vector)"""
    key = (s["kind"], s["nf"], tuple(s["hn"]), s["no"], s["act"], slot)
    if key not in _NETS:
        _NETS[key] = construct(s["kind"], s["nf"], s["no"], s["hn"], s["act"], seed=slot)
    return _NETS[key]


def head_layers(kind, net):
    return list(net.output_layers) if kind.startswith("gauss") else [net.output_layer]


def structure_problems(kind, net, report):
    """hidden_nodes semantics: number and shapes of the layers of the real module against the model's structure"""
    from flax import nnx

    cls = CLS[kind]
    bad = []
    hl = list(net.hidden_layers)
    want = [tuple(x) for x in report["layers"]]
    got = [tuple(l.kernel.value.shape) for l in hl]
    if got != want:
        bad.append((f"{cls}:structure:hidden_layers", f"hidden layers have kernel shapes {got}, model {want} (one layer per hidden_nodes entry, chained from n_features)"))
    if any(tuple(l.bias.value.shape) != (k[1],) for l, k in zip(hl, got)):
        bad.append((f"{cls}:structure:hidden_bias", f"hidden biases {[tuple(l.bias.value.shape) for l in hl]} for kernels {got}"))
    heads = head_layers(kind, net)
    wanth = [tuple(x) for x in report["heads"]]
    goth = [tuple(l.kernel.value.shape) for l in heads]
    if goth != wanth:
        bad.append((f"{cls}:structure:output_layers", f"output layer(s) have kernel shapes {goth}, model {wanth}"))
    if kind == "lnmlp":
        ln = [tuple(n.scale.value.shape) for n in net.layer_norms]
        if ln != [(k[1],) for k in want]:
            bad.append((f"{cls}:structure:layer_norms", f"layer norms over {ln} features, model {[(k[1],) for k in want]} (one per hidden layer)"))
    n = sum(int(np.prod(v.value.shape)) for _, v in nnx.to_flat_state(nnx.state(net, nnx.Param)))
    if n != report["nparams"]:
        bad.append((f"{cls}:structure:parameter_count", f"{n} parameters, model {report['nparams']}"))
    return bad


def _set_linear(layer, L):
    import jax.numpy as jnp

    W = mat(L["W"], len(L["b"]))
    b = vec(L["b"])
    if tuple(layer.kernel.value.shape) != W.shape or tuple(layer.bias.value.shape) != b.shape:
        raise ShapeProblem(f"a layer of the real module has kernel {tuple(layer.kernel.value.shape)}, the model's layer {W.shape}")
    layer.kernel.value = jnp.asarray(W)
    layer.bias.value = jnp.asarray(b)


class ShapeProblem(Exception):
    pass


def set_params(kind, net, P):
    """overwrite the parameters of the real module with the model's assignment"""
    import jax.numpy as jnp

    if len(net.hidden_layers) != len(P["hid"]):
        raise ShapeProblem(f"{len(net.hidden_layers)} hidden layers, the model has {len(P['hid'])}")
    for layer, L in zip(net.hidden_layers, P["hid"]):
        _set_linear(layer, L)
    if kind == "lnmlp":
        if len(net.layer_norms) != len(P["ln"]):
            raise ShapeProblem(f"{len(net.layer_norms)} layer norms, the model has {len(P['ln'])}")
        for norm, L in zip(net.layer_norms, P["ln"]):
            norm.scale.value = jnp.asarray(vec(L["sc"]))
            norm.bias.value = jnp.asarray(vec(L["b"]))
    heads = head_layers(kind, net)
    if len(heads) != len(P["head"]):
        raise ShapeProblem(f"{len(heads)} output layers, the model has {len(P['head'])}")
    for layer, L in zip(heads, P["head"]):
        _set_linear(layer, L)


_JIT = {}


def jit_call(net, *xs, method=None):
    from flax import nnx

    k = method or "__call__"
    if k not in _JIT:
        _JIT[k] = nnx.jit((lambda m, *a: m(*a)) if method is None else (lambda m, *a: getattr(m, method)(*a)))
    return _JIT[k](net, *xs)


def named(kind, out):
    """the real return value as {name: array} (GaussianMLP documents the pair (mean, log_var))"""
    if kind.startswith("gauss"):
        if not isinstance(out, tuple) or len(out) != 2:
            raise ShapeProblem(f"GaussianMLP returned {type(out).__name__} (model: the pair (mean, log_var))")
        return {"mean": np.asarray(out[0]), "log_var": np.asarray(out[1])}
    return {"out": np.asarray(out)}


def run_net(kind, net, x, mode):
    import jax.numpy as jnp

    x = jnp.asarray(x)
    return named(kind, net(x) if mode == "eager" else jit_call(net, x))


def by_program(kind, net, program, x):
    """the forward pass recomputed through the real sub-modules in the order the model prescribes"""
    import jax.numpy as jnp

    x = jnp.asarray(x)
    l = -1
    for op in program:
        if op == "linear":
            l += 1
            x = net.hidden_layers[l](x)
        elif op == "norm":
            x = net.layer_norms[l](x)
        elif op == "act":
            x = net.activation(x)
        elif op == "head":
            heads = head_layers(kind, net)
            if kind == "gauss_shared":
                y = np.asarray(heads[0](x))
                n = y.shape[-1] // 2
                return {"mean": y[..., :n], "log_var": y[..., n:]}
            if kind == "gauss_sep":
                return {"mean": np.asarray(heads[0](x)), "log_var": np.asarray(heads[1](x))}
            return {"out": np.asarray(heads[0](x))}
        else:  # pragma: no cover
            raise tlc.MachineryError(f"unknown program step {op}")
    raise tlc.MachineryError("program without head")


def compare_outs(cls, tag, real, outs, slack, shape_1d=False):
    """real {name: array} against the model's {name: rows}; -> [(key, what)]"""
    bad = []
    for n, rows in outs.items():
        if n not in real:
            bad.append((f"{cls}:{tag}:missing_output", f"no output {n}"))
            continue
        a = real[n]
        want_shape = (len(rows[0]),) if shape_1d else (len(rows), len(rows[0]))
        if a.shape != want_shape or a.dtype != F32:
            bad.append((f"{cls}:{tag}:shape", f"output {n} has shape {a.shape} / dtype {a.dtype}, model {want_shape} float32"))
            continue
        a2 = a[None, :] if shape_1d else a
        for b, row in enumerate(rows):
            for k, x in enumerate(row):
                sl = slack[n][b][k] if slack is not None else [0, 1]
                if not close_to(a2[b][k], x, sl):
                    tol = "" if exact.q(sl) == 0 else f" +- {float(exact.q(sl) * UNIT):.3g}"
                    bad.append((f"{cls}:{tag}:{n}", f"output {n}[{b}][{k}] = {float(a2[b][k])!r}, model {exact.q(x)} = {qf(x)!r}{tol}"))
                    break
            else:
                continue
            break
    return bad


def zero_slack(outs):
    return {n: [[[0, 1] for _ in r] for r in rows] for n, rows in outs.items()}


def all_exact(slack):
    return all(exact.q(v) == 0 for rows in slack.values() for r in rows for v in r)


# ------------------------------------------------------------------ part "mlp"
def modes_for(xs):
    """every vector eagerly; under nnx.jit the two-row batches (one compilation per structure)"""
    return ("eager", "jit") if len(xs) == 2 else ("eager",)


def _real_outputs(kind, net, xs):
    return {m: run_net(kind, net, xs, m) for m in modes_for(xs)}


def check_forward(args, exp, rows_1d=True, program=True):
    """one Forward record: structure, batch (eager and jit), every row alone, program composition"""
    s = args["s"]
    kind, cls = s["kind"], CLS[s["kind"]]
    try:
        net = net_for(s)
    except Exception as e:
        return [(f"{cls}:constructor_raised", f"{cls}{(s['nf'], s['no'], s['hn'], s['act'])} raised {type(e).__name__}: {str(e)[:120]} (model: valid configuration)")]
    bad = structure_problems(kind, net, exp["struct"])
    if bad:
        return bad
    try:
        set_params(kind, net, args["P"])
    except ShapeProblem as e:
        return [(f"{cls}:structure:parameters", str(e))]
    xs = mat(args["xs"])
    if all_exact(exp["slack"]):
        for rows in exp["outs"].values():
            for r in rows:
                for v in r:
                    expect_exact32(v, "forward")
    try:
        real = _real_outputs(kind, net, xs)
        _BASE[_key(s, args["sd"], args["xs"])] = real
        for m in real:
            bad += compare_outs(cls, f"forward:{m}", real[m], exp["outs"], exp["slack"])
        if rows_1d:
            for b in range(len(xs)):
                for m in ("eager",):
                    r1 = run_net(kind, net, xs[b], m)
                    one = {n: [rows[b]] for n, rows in exp["outs"].items()}
                    sl = {n: [rows[b]] for n, rows in exp["slack"].items()}
                    bad += compare_outs(cls, f"forward_1d:{m}", r1, one, sl, shape_1d=True)
                    if all(exact.q(v) == 0 for rows in sl.values() for v in rows[0]):
                        for n in r1:
                            if r1[n].shape == real[m][n][b].shape and not same_bits(r1[n], real[m][n][b]):
                                bad.append((f"{cls}:batch_row_independence", f"row {b} of the batched pass = {real[m][n][b]}, the pass of that row alone = {r1[n]} ({n}, {m})"))
        if program:
            comp = by_program(kind, net, exp["struct"]["program"], xs)
            for n in comp:
                if n in real["eager"] and not same_bits(comp[n], real["eager"][n]):
                    bad.append((f"{cls}:order_of_operations", f"{n} = {np.asarray(real['eager'][n]).ravel()[:4]}, the sub-modules applied in the model's order "
                                f"{exp['struct']['program']} give {np.asarray(comp[n]).ravel()[:4]}"))
    except ShapeProblem as e:
        bad.append((f"{cls}:forward:return_type", str(e)))
    except Exception as e:
        bad.append((f"{cls}:forward:exception", f"{cls} forward pass raised {type(e).__name__}: {str(e)[:160]} (model: defined for every (batch of) input rows)"))
    return bad


_BASE = {}


def _key(*parts):
    import json

    return json.dumps(parts, sort_keys=True)


def check_perturb(args, exp):
    """one Perturb record: outputs the perturbation may not change are bit-identical, the others have the model's value"""
    s = args["s"]
    kind, cls = s["kind"], CLS[s["kind"]]
    pert = args["pert"]
    pk = pert["kind"] + (":" + pert["grp"] if pert["grp"] else "")
    try:
        net = net_for(s)
        k = _key(s, args["sd"], args["xs"])
        if k not in _BASE:   # (the Forward record of the same vector computed it already)
            set_params(kind, net, args["P"])
            _BASE[k] = _real_outputs(kind, net, mat(args["xs"]))
        base = _BASE[k]
        set_params(kind, net, args["P2"])
        xs2 = mat(args["xs2"])
        real = _real_outputs(kind, net, xs2)
    except ShapeProblem as e:
        return [(f"{cls}:structure:parameters", str(e))]
    except Exception as e:
        return [(f"{cls}:forward:exception", f"{cls} forward pass raised {type(e).__name__}: {str(e)[:160]}")]
    bad = []
    for m in base:
        bad += compare_outs(cls, f"forward:{m}", base[m], exp["outs"], exp["slack"])
        if exp["valued"]:
            bad += compare_outs(cls, f"perturbed:{m}", real[m], exp["outs2"], exp["slack2"])
        for n, flags in exp["same"].items():
            for b, keep in enumerate(flags):
                if keep and n in real[m] and real[m][n].ndim == 2 and not same_bits(real[m][n][b], base[m][n][b]):
                    bad.append((f"{cls}:dependency:{pert['kind']}:{n}", f"perturbation {pk} (row {pert['r']}, component {pert['i']}) changed {n}[{b}] from {base[m][n][b]} to "
                                f"{real[m][n][b]} ({m}); in the model this output does not depend on it"))
    return bad


# ------------------------------------------------------------------ part "dq"
_DQ = {}


def dq_for(s):
    from rl_blox.blox.double_qnet import ContinuousClippedDoubleQNet

    key = (s["nf"], tuple(s["hn"]), s["no"], s["act"])
    if key not in _DQ:
        q1, q2 = construct("mlp", s["nf"], s["no"], s["hn"], s["act"], seed=1), construct("mlp", s["nf"], s["no"], s["hn"], s["act"], seed=2)
        _DQ[key] = (ContinuousClippedDoubleQNet(q1, q2), q1, q2)
    return _DQ[key]


def _dq_outputs(dq, xs):
    import jax.numpy as jnp

    x = jnp.asarray(xs)
    out = {}
    out["eager"] = {"q1": np.asarray(dq.q1(x)), "q2": np.asarray(dq.q2(x)), "min": np.asarray(dq(x)), "mean": np.asarray(dq.mean(x))}
    out["jit"] = {"q1": np.asarray(jit_call(dq.q1, x)), "q2": np.asarray(jit_call(dq.q2, x)), "min": np.asarray(jit_call(dq, x)),
                  "mean": np.asarray(jit_call(dq, x, method="mean"))}
    return out


def check_dq(args, exp, perturbed=False):
    s = args["s"]
    cls = "ContinuousClippedDoubleQNet"
    bad = []
    try:
        dq, q1, q2 = dq_for(s)
        if dq.q1 is not q1 or dq.q2 is not q2:
            bad.append((f"{cls}:members", "q1 / q2 are not the networks handed to the constructor"))
        xs = mat(args["xs"])
        k = _key("dq", s, args["sds"], args["xs"])
        if k not in _BASE or not perturbed:
            set_params("mlp", dq.q1, args["P1"])
            set_params("mlp", dq.q2, args["P2"])
            _BASE[k] = _dq_outputs(dq, xs)
        base = _BASE[k]
        for m in ("eager", "jit"):
            bad += [(k.replace("MLP:", f"{cls}:"), w) for k, w in compare_outs("MLP", m, base[m], exp["outs"], None)]
        if not perturbed:
            import jax.numpy as jnp

            kw = np.asarray(dq(x=jnp.asarray(xs)))
            if not same_bits(kw, base["eager"]["min"]):
                bad.append((f"{cls}:kwargs", f"dq(x=...) = {kw.ravel()[:4]} differs from dq(x) = {base['eager']['min'].ravel()[:4]}"))
            one = np.asarray(dq(jnp.asarray(xs[0])))
            if one.shape != (s["no"],) or not same_bits(one, base["eager"]["min"][0]):
                bad.append((f"{cls}:forward_1d", f"dq(row 0) = {one} (shape {one.shape}), row 0 of the batched result {base['eager']['min'][0]}"))
        if perturbed:
            set_params("mlp", dq.q1, args["P1b"])
            set_params("mlp", dq.q2, args["P2b"])
            real = _dq_outputs(dq, mat(args["xs2"]))
            pert = args["pert"]
            for m in ("eager", "jit"):
                bad += [(k.replace("MLP:", f"{cls}:"), w) for k, w in compare_outs("MLP", f"perturbed:{m}", real[m], exp["outs2"], None)]
                for n, flags in exp["same"].items():
                    for b, keep in enumerate(flags):
                        if keep and not same_bits(real[m][n][b], base[m][n][b]):
                            bad.append((f"{cls}:critic_independence:{n}", f"perturbing {pert['grp'] or 'the input'} of critic {pert['c']} changed {n}[{b}] from "
                                        f"{base[m][n][b]} to {real[m][n][b]} ({m})"))
    except ShapeProblem as e:
        bad.append((f"{cls}:structure:parameters", str(e)))
    except Exception as e:
        bad.append((f"{cls}:exception", f"raised {type(e).__name__}: {str(e)[:160]}"))
    return bad


# ------------------------------------------------------------------ part "sale"
SD, AD, ZD, HD = 2, 1, 2, 2
_SALE = {}


def _bundle_cls():
    from flax import nnx

    global _Bundle
    try:
        return _Bundle
    except NameError:
        pass

    class _Bundle(nnx.Module):
        def __init__(self, emb, actor, policy, c1, c2, dq):
            self.emb, self.actor, self.policy, self.c1, self.c2, self.dq = emb, actor, policy, c1, c2, dq

    return _Bundle


def sale_bundle():
    from flax import nnx
    from rl_blox.blox.double_qnet import ContinuousClippedDoubleQNet
    from rl_blox.blox.embedding.sale import SALE, ActorSALE, CriticSALE, DeterministicSALEPolicy

    if "b" not in _SALE:
        f = construct("mlp", SD, ZD, [2], "relu", 1)
        g = construct("mlp", ZD + AD, ZD, [2], "relu", 2)
        emb = SALE(f, g)
        pnet = construct("mlp", HD + ZD, AD, [2], "relu", 3)
        actor = ActorSALE(pnet, SD, HD, nnx.Rngs(4))
        policy = DeterministicSALEPolicy(emb, actor)
        c1 = CriticSALE(construct("mlp", HD + 2 * ZD, 1, [2], "relu", 5), SD, AD, HD, nnx.Rngs(6))
        c2 = CriticSALE(construct("mlp", HD + 2 * ZD, 1, [2], "relu", 7), SD, AD, HD, nnx.Rngs(8))
        _SALE["b"] = _bundle_cls()(emb, actor, policy, c1, c2, ContinuousClippedDoubleQNet(c1, c2))
    return _SALE["b"]


def sale_set(B, N):
    set_params("mlp", B.emb._state_embedding, N["f"])
    set_params("mlp", B.emb.state_action_embedding, N["g"])
    _set_linear(B.actor.l0, N["l0"])
    set_params("mlp", B.actor.policy_net, N["pnet"])
    _set_linear(B.c1.q0, N["q0a"])
    set_params("mlp", B.c1.q_net, N["qneta"])
    _set_linear(B.c2.q0, N["q0b"])
    set_params("mlp", B.c2.q_net, N["qnetb"])


def _sale_all(B, st, a, zarg, zsaarg, order):
    """every output of the model through the real modules; order: names of the pair SALE.__call__ returns"""
    import jax.numpy as jnp

    pair = B.emb(st, a)
    got = dict(zip(order, pair))
    zs, zsa = got["zs"], got["zsa"]
    sa = jnp.concatenate((st, a), axis=-1)
    return {"zs": zs, "zsa": zsa, "zs_method": B.emb.state_embedding(st), "pi": B.policy(st), "act_d": B.actor(st, zarg),
            "q1": B.c1(sa, zsa, zs), "q2": B.c2(sa, zsa, zs), "qmin": B.dq(sa, zsa, zs), "q_d": B.c1(sa, zsaarg, zarg)}


def sale_outputs(B, inp, order, one_d=True):
    import jax.numpy as jnp
    from flax import nnx

    st, a, zarg, zsaarg = (jnp.asarray(mat(inp[k])) for k in ("st", "a", "zarg", "zsaarg"))
    order = tuple(order)
    if ("jit", order) not in _JIT:
        _JIT[("jit", order)] = nnx.jit(lambda b, s, a_, z, zz: _sale_all(b, s, a_, z, zz, order))
    return {"eager": {k: np.asarray(v) for k, v in _sale_all(B, st, a, zarg, zsaarg, order).items()},
            "jit": {k: np.asarray(v) for k, v in _JIT[("jit", order)](B, st, a, zarg, zsaarg).items()},
            "eager_1d": {k: np.asarray(v) for k, v in _sale_all(B, st[0], a[0], zarg[0], zsaarg[0], order).items()} if one_d else None}


SALE_CLS = {"zs": "SALE", "zsa": "SALE", "pi": "DeterministicSALEPolicy", "act_d": "ActorSALE", "q1": "CriticSALE", "q2": "CriticSALE",
            "qmin": "ContinuousClippedDoubleQNet", "q_d": "CriticSALE"}


def _sale_values(real, outs, ex, tag):
    bad = []
    for n, rows in outs.items():
        cls = SALE_CLS[n]
        for m in ("eager", "jit"):
            a = real[m][n]
            if a.shape != (len(rows), len(rows[0])) or a.dtype != F32:
                bad.append((f"{cls}:{n}:shape", f"{n} has shape {a.shape} / dtype {a.dtype}, model {(len(rows), len(rows[0]))} float32 ({m})"))
                continue
            for b, row in enumerate(rows):
                if not ex[n][b]:
                    if not np.all(np.isfinite(a[b])):
                        bad.append((f"{cls}:{n}:non_finite", f"{n}[{b}] = {a[b]} ({m})"))
                    continue
                if not all(exact.eq(a[b][k], x) for k, x in enumerate(row)):
                    bad.append((f"{cls}:{n}:{tag}", f"{n}[{b}] = {a[b].tolist()}, model {[qf(x) for x in row]} ({m})"))
        if real["eager_1d"] is None:
            continue
        a = real["eager_1d"][n]
        if a.shape != (len(rows[0]),):
            bad.append((f"{cls}:{n}:shape_1d", f"{n} of un-batched inputs has shape {a.shape}, model {(len(rows[0]),)}"))
        elif ex[n][0] and not all(exact.eq(a[k], x) for k, x in enumerate(rows[0])):
            bad.append((f"{cls}:{n}:{tag}_1d", f"{n} of the un-batched row 0 = {a.tolist()}, model {[qf(x) for x in rows[0]]}"))
    for m in ("eager", "jit"):
        if not same_bits(real[m]["zs_method"], real[m]["zs"]):
            bad.append(("SALE:state_embedding:differs_from_call", f"state_embedding(state) = {real[m]['zs_method'].ravel()[:4]}, zs returned by __call__ = {real[m]['zs'].ravel()[:4]} ({m})"))
    return bad


def check_sale(args, exp, perturbed=False):
    bad = []
    try:
        B = sale_bundle()
        k = _key("sale", args["sd"], args["inp"], args["returns"])
        if k not in _BASE or not perturbed:
            sale_set(B, args["N"])
            _BASE[k] = sale_outputs(B, args["inp"], args["returns"])
        base = _BASE[k]
        bad += _sale_values(base, exp["outs"], exp["exact"], "value")
        if perturbed:
            sale_set(B, args["N2"])
            real = sale_outputs(B, args["inp2"], args["returns"], one_d=False)
            bad += _sale_values(real, exp["outs2"], exp["exact2"], "perturbed_value")
            pert = args["pert"]
            pk = pert["kind"] + (":" + pert["grp"] if pert["grp"] else "")
            for m in ("eager", "jit"):
                for n, flags in exp["same"].items():
                    for b, keep in enumerate(flags):
                        if keep and real[m][n].shape == base[m][n].shape and not same_bits(real[m][n][b], base[m][n][b]):
                            bad.append((f"{SALE_CLS[n]}:dependency:{pk}:{n}", f"perturbation {pk} (row {pert['r']}, component {pert['i']}) changed {n}[{b}] from "
                                        f"{base[m][n][b]} to {real[m][n][b]} ({m}); in the model {n} does not depend on it"))
    except ShapeProblem as e:
        bad.append(("SALE:structure:parameters", str(e)))
    except Exception as e:
        bad.append(("SALE:exception", f"raised {type(e).__name__}: {str(e)[:200]}"))
    return bad


# ------------------------------------------------------------------ part "act"
def _status_of(fn):
    try:
        return "ok", fn()
    except AssertionError as e:
        return "AssertionError", str(e)[:100]
    except AttributeError as e:
        return "AttributeError", str(e)[:100]
    except TypeError as e:
        return "TypeError", str(e)[:100]
    except Exception as e:
        return "error:" + type(e).__name__, str(e)[:100]


_ACT = {}


def check_activation(args, exp):
    name = args["name"]
    bad = []
    for kind in ("mlp", "gauss_sep"):
        cls = CLS[kind]
        if (kind, name) not in _ACT:
            _ACT[(kind, name)] = _status_of(lambda: construct(kind, 1, 1, [2], name))
        st, net = _ACT[(kind, name)]
        if exp["status"] == "AttributeError":
            if st != "AttributeError":
                bad.append((f"{cls}:activation_lookup:unknown_name", f"{cls}(activation={name!r}) -> {st}, model AttributeError (no such function in flax.nnx)"))
            continue
        if st != "ok":
            bad.append((f"{cls}:activation_lookup:rejected", f"{cls}(activation={name!r}) -> {st}: {net} (model: accepted)"))
            continue
        P = dict(args["P"])
        if kind == "gauss_sep":
            P["head"] = [P["head"][0], {"W": [[[0, 1]], [[0, 1]]], "b": [[0, 1]]}]
        try:
            set_params(kind, net, P)
        except ShapeProblem as e:
            bad.append((f"{cls}:structure:parameters", str(e)))
            continue
        x = vec([args["x"]])
        # MLP.__call__ is nnx.jit itself (one compilation per name: the batch); GaussianMLP un-batched, batched, and under nnx.jit
        for shape, xin in ((("2d", x[None, :]),) if kind == "mlp" else (("1d", x), ("2d", x[None, :]))):
            for m in ("eager",) if kind == "mlp" or shape == "1d" else ("eager", "jit"):
                st2, out = _status_of(lambda: run_net(kind, net, xin, m))
                if exp["status"] == "TypeError":
                    if st2 != "TypeError":
                        bad.append((f"{cls}:activation_lookup:non_function", f"{cls}(activation={name!r}) call -> {st2}, model TypeError"))
                    continue
                if st2 != "ok":
                    bad.append((f"{cls}:activation:{name}:raised", f"forward pass with activation {name!r} -> {st2}: {out}"))
                    continue
                v = np.asarray(out["mean" if kind == "gauss_sep" else "out"]).ravel()
                if v.shape != (1,) or not within(v[0], exp["lo"], exp["hi"]):
                    bad.append((f"{cls}:activation:{name}", f"w * {name}({qf(args['x'])}) + b = {v} ({shape}, {m}), model [{qf(exp['lo'])}, {qf(exp['hi'])}]"))
    return bad


# ------------------------------------------------------------------ part "cfg"
def check_construct(args, exp):
    c = args["c"]
    cls = CLS[c["cls"]]
    st, net = _status_of(lambda: construct(c["cls"], c["nf"], c["no"], c["hn"], c["act"]))
    got = st if st in ("ok", "AssertionError", "AttributeError") else "error"
    if got != exp["status"]:
        return [(f"{cls}:constructor:{exp['status']}", f"{cls}(n_features={c['nf']}, n_outputs={c['no']}, hidden_nodes={c['hn']}, activation={c['act']!r}) -> "
                 f"{st}{'' if st == 'ok' else ': ' + str(net)}, model {exp['status']}")]
    if got == "ok":
        return structure_problems(c["cls"], net, exp["struct"])
    return []


def check_call(args, exp):
    import jax.numpy as jnp

    c = args["c"]
    cls = CLS[c["cls"]]
    k = _key("cfg", c)
    if k not in _ACT:
        _ACT[k] = _status_of(lambda: construct(c["cls"], c["nf"], c["no"], c["hn"], c["act"]))
    st, net = _ACT[k]
    if st != "ok":
        return [(f"{cls}:constructor:ok", f"{cls}{(c['nf'], c['no'], c['hn'], c['act'])} -> {st} (model: built)")]
    bad = []
    x = jnp.zeros(tuple(args["shape"]), dtype=jnp.float32)
    for m in ("eager", "jit") if list(args["shape"]) in ([3, 2], [3, 3], [2]) else ("eager",):
        st2, out = _status_of(lambda: net(x) if m == "eager" else jit_call(net, x))
        got = st2 if st2 in ("ok", "TypeError") else "error"
        if got != exp["status"]:
            bad.append((f"{cls}:call:{exp['status']}", f"{cls}{(c['nf'], c['no'], c['hn'], c['act'])} on an input of shape {tuple(args['shape'])} -> {st2}"
                        f"{'' if st2 == 'ok' else ': ' + str(out)}, model {exp['status']} ({m})"))
            continue
        if got == "ok":
            outs = out if isinstance(out, tuple) else (out,)
            shapes = [list(o.shape) for o in outs]
            if shapes != [list(sx) for sx in exp["shapes"]] or any(o.dtype != jnp.float32 for o in outs):
                bad.append((f"{cls}:call:shape", f"input shape {tuple(args['shape'])} -> output shapes {shapes}, model {exp['shapes']} ({m})"))
    return bad


# ------------------------------------------------------------------ part "norm"
def check_norm(args, exp):
    import jax
    import jax.numpy as jnp
    from rl_blox.blox.function_approximator.norm import avg_l1_norm

    xs = mat(args["xs"])
    bad = []
    if "norm" not in _JIT:
        _JIT["norm"] = jax.jit(avg_l1_norm)
    cases = [("2d", xs, exp["out"])] + ([("1d", xs[0], exp["out"][0])] if len(xs) == 1 else [])
    for shape, x, want in cases:
        for m, fn in (("eager", avg_l1_norm), ("jit", _JIT["norm"])):
            try:
                y = np.asarray(fn(jnp.asarray(x)))
            except Exception as e:
                bad.append(("avg_l1_norm:exception", f"avg_l1_norm(shape {x.shape}) raised {type(e).__name__}: {str(e)[:100]}"))
                continue
            w = mat(want) if shape == "2d" else vec(want)
            if y.shape != w.shape or y.dtype != F32:
                bad.append(("avg_l1_norm:shape", f"result has shape {y.shape}, model {w.shape}"))
            elif not np.array_equal(y, w):
                bad.append((f"avg_l1_norm:value_{shape}", f"avg_l1_norm({x.tolist()}) = {y.tolist()}, model {w.tolist()} ({m})"))
    return bad


# ------------------------------------------------------------------ part "tab"
@contextlib.contextmanager
def interpose(module, **names):
    old = {k: getattr(module, k) for k in names}
    try:
        for k, v in names.items():
            setattr(module, k, v)
        yield old
    finally:
        for k, v in old.items():
            setattr(module, k, v)


class StubRandom:
    """stands in for `jax.random` inside value_policy: the roll and the random action are the model's choices"""

    def __init__(self, roll, choice):
        self.roll, self.choice_value, self.calls = roll, choice, []

    def split(self, key, *a, **k):
        self.calls.append(("split", key))
        return ("carry", "subkey")

    def uniform(self, key, *a, **k):
        self.calls.append(("uniform", key))
        return self.roll

    def choice(self, key, options, *a, **k):
        self.calls.append(("choice", key, [int(v) for v in np.asarray(options)]))
        return self.choice_value


def _table(t):
    import jax.numpy as jnp

    return jnp.asarray(mat(t))


def check_greedy(args, exp):
    from rl_blox.blox import value_policy as vp

    st, a = _status_of(lambda: vp.greedy_policy(_table(args["table"]), args["obs"]))
    if st != "ok":
        return [("value_policy.greedy_policy:exception", f"greedy_policy(table, {args['obs']}) -> {st}: {a}")]
    if np.asarray(a).shape != () or int(a) != exp["action"]:
        key = "first_maximiser" if exp["in_range"] else "observation_out_of_range"
        return [(f"value_policy.greedy_policy:{key}", f"greedy_policy({[[qf(v) for v in r] for r in args['table']]}, {args['obs']}) = {np.asarray(a)}, model {exp['action']}")]
    return []


def check_eps_greedy(args, exp):
    from rl_blox.blox import value_policy as vp

    stub = StubRandom(qf(args["roll"]), args["choice"])
    with interpose(vp, random=stub):
        st, a = _status_of(lambda: vp.epsilon_greedy_policy(_table(args["table"]), args["obs"], qf(args["eps"]), "key"))
    what = f"epsilon_greedy_policy(epsilon={qf(args['eps'])}) with roll {qf(args['roll'])}"
    if st != "ok":
        return [("value_policy.epsilon_greedy_policy:exception", f"{what} -> {st}: {a}")]
    bad = []
    if int(a) != exp["action"]:
        bad.append(("value_policy.epsilon_greedy_policy:branch", f"{what} returned {int(a)}, model {exp['action']} ({'random action' if exp['explore'] else 'greedy action'})"))
    names = [c[0] for c in stub.calls]
    if names != exp["calls"]:
        bad.append(("value_policy.epsilon_greedy_policy:rng_calls", f"{what} used the generator as {names}, model {exp['calls']}"))
    else:
        if stub.calls[0][1] != "key" or stub.calls[1][1] != "subkey":
            bad.append(("value_policy.epsilon_greedy_policy:key_use", f"split({stub.calls[0][1]!r}) / uniform({stub.calls[1][1]!r}); model: split(key), uniform(subkey)"))
        if exp["explore"] and stub.calls[2][2] != list(range(exp["n"])):
            bad.append(("value_policy.epsilon_greedy_policy:choice_domain", f"random action drawn from {stub.calls[2][2]}, model 0..{exp['n'] - 1}"))
    return bad


def check_q_greedy(args, exp):
    import jax.numpy as jnp
    from rl_blox.blox import q_policy as qp

    s = args["s"]
    try:
        net = net_for(s, slot=9)
        set_params("mlp", net, args["P"])
        xs = mat(args["xs"])
        obs = jnp.asarray(xs if args["batched"] else xs[0])
        a = qp.greedy_policy(net, obs)
    except Exception as e:
        return [("q_policy.greedy_policy:exception", f"raised {type(e).__name__}: {str(e)[:120]}")]
    if np.asarray(a).shape != () or int(a) != exp["action"]:
        return [("q_policy.greedy_policy:" + ("flat_index" if args["batched"] else "first_maximiser"),
                 f"greedy_policy(q_net, {xs.tolist()}) = {np.asarray(a)}, model {exp['action']} (q = {[[qf(v) for v in r] for r in exp['q']]})")]
    return []


def check_make_table(args, exp):
    import gymnasium as gym
    from rl_blox.blox import value_policy as vp

    class _Env:
        pass

    env = _Env()
    env.observation_space = gym.spaces.Discrete(args["obs"][0]) if args["obs_kind"] == "discrete" else gym.spaces.Tuple(tuple(gym.spaces.Discrete(n) for n in args["obs"]))
    env.action_space = gym.spaces.Discrete(args["n_actions"])
    st, t = _status_of(lambda: vp.make_q_table(env))
    if st != "ok":
        return [("value_policy.make_q_table:exception", f"make_q_table -> {st}: {t}")]
    t = np.asarray(t)
    if list(t.shape) != exp["shape"] or t.dtype != F32 or np.any(t != 0.0):
        return [("value_policy.make_q_table:shape", f"make_q_table({args['obs_kind']} {args['obs']}, {args['n_actions']} actions) has shape {t.shape} / dtype {t.dtype} / "
                 f"{int(np.count_nonzero(t))} non-zero entries, model zeros of shape {exp['shape']}")]
    return []


CHECKS = {
    "Forward": check_forward, "Perturb": check_perturb,
    "DoubleQ": lambda a, e: check_dq(a, e, False), "DoubleQPerturb": lambda a, e: check_dq(a, e, True),
    "Sale": lambda a, e: check_sale(a, e, False), "SalePerturb": lambda a, e: check_sale(a, e, True),
    "Activation": check_activation, "Construct": check_construct, "Call": check_call, "AvgL1Norm": check_norm,
    "Greedy": check_greedy, "EpsGreedy": check_eps_greedy, "QGreedy": check_q_greedy, "MakeTable": check_make_table,
}


def check(rec):
    return CHECKS[rec["op"]](rec["args"], rec["exp"])
