"""python -m harness.extras.x05_worker <routine> <tier> <seed> <labels,comma> <out.json>

Twin runs for X05 item 6: the routine is run through its ordinary adapter (harness/algos*.py, unchanged) on the
scenarios of the sweep, but the adapter's `recording_logger(rec)` is replaced by a function returning None, so the
routine receives `logger=None`.  Same process set-up as harness/sweep_worker.py (variant 0).
"""
import json
import os
import random
import sys


def main():
    name, tier, seed, labels, out = sys.argv[1], sys.argv[2], int(sys.argv[3]), sys.argv[4].split(","), sys.argv[5]
    import importlib
    import pkgutil

    import numpy as np

    import flax.nnx  # noqa: F401
    import gymnasium  # noqa: F401
    import jax  # noqa: F401
    import optax  # noqa: F401

    # The adapters' policy probes take component digests inside an ordered host callback of the jitted sampler.  A run WITH a
    # logger materialises every update before the next action is sampled (record_stat converts the losses to floats); without
    # a logger the parameter updates may still be in flight when the sampler's callback asks for them, and the CPU client
    # dead-locks (observed deterministically for sac, scenario B).  Synchronous dispatch changes no value, only the timing.
    jax.config.update("jax_cpu_enable_async_dispatch", False)
    import rl_blox.algorithm as _alg

    for m in pkgutil.iter_modules(_alg.__path__):
        importlib.import_module("rl_blox.algorithm." + m.name)
    from harness import algos, probes

    # adapters look `recording_logger` up in harness.probes at call time, or imported it by name at module level
    def no_logger(rec):
        return None

    probes.recording_logger = no_logger
    for modname in ("harness.algos", "harness.algos_misc", "harness.algos_onpolicy", "harness.algos_offpolicy2", "harness.algos_tabular"):
        mod = sys.modules.get(modname)
        if mod is not None and hasattr(mod, "recording_logger"):
            setattr(mod, "recording_logger", no_logger)

    np.random.seed(1)
    random.seed(1)
    traces = []
    for sc in algos.scenarios(tier, seed, name):
        if sc["label"] not in labels:
            continue
        sc = dict(sc)
        tr = algos.run(name, sc)
        tr["id"] = f"{name}:{sc['label']}"
        traces.append(tr)
    with open(out + ".tmp", "w") as f:
        json.dump(traces, f)
    os.replace(out + ".tmp", out)


if __name__ == "__main__":
    main()
