"""X06: recording of pseudo-random-key operations of real runs, without touching /repo.

What is interposed (module attributes looked up at call time by the eager Python code of the training routines):

  jax.random.key / PRNGKey           -> event `root`    (kind key / PRNGKey, seed, digest of the key)
  jax.random.split                   -> event `split`   (parent digest, child digests in order)
  jax.random.fold_in                 -> event `fold`    (parent digest, data, child digest)
  jax.random.<sampler>               -> event `consume` (digest, sampler name)
  numpy.random.default_rng           -> event `root`    (kind numpy, seed)
  flax.nnx.Rngs                      -> event `root`    (kind nnx, seed)
  jax.jit / flax.nnx.jit             -> functions OF rl_blox that are jitted (module level decorators as well as closures made at
                                        call time) are wrapped: a call with concrete key arguments is ONE use of each key - event
                                        `consume` (site jit:<function>) or, when the call hands keys back, event `split` (the
                                        returned keys are the children).  Has to be installed BEFORE rl_blox is imported
                                        (harness/extras/x06_worker.py does), since decorators run at import time.

Only concrete keys are recorded: inside a traced function the arguments are tracers and nothing is recorded (the trace of a
jitted function happens once and says nothing about the run).  Calls made by jax / flax internally are not seen (they use
jax._src.random) or are skipped (immediate caller inside site-packages: the fold_in of an nnx.Rngs stream).

A site is `<module>.<function>:<operation>` of the nearest calling frame inside rl_blox (or `harness:<function>:<operation>` when
the harness itself made the call) - independent of line numbers.
"""
from __future__ import annotations

import functools
import os
import sys

SAMPLERS = ("normal", "uniform", "categorical", "randint", "choice", "permutation", "bernoulli", "truncated_normal", "multivariate_normal",
            "gumbel", "bits", "beta", "gamma", "exponential", "laplace", "logistic", "poisson", "shuffle", "dirichlet", "cauchy",
            "t", "rademacher", "ball", "orthogonal", "maxwell", "pareto", "weibull_min", "binomial", "chisquare", "double_sided_maxwell",
            "f", "generalized_normal", "geometric", "loggamma", "lognormal", "multinomial", "rayleigh", "triangular", "wald")

_HERE = os.path.abspath(__file__)
_STATE = {"rec": None, "installed": False, "real": {}}


class KeyRecorder:
    """Event list of one recorded run."""

    def __init__(self):
        self.events = []
        self.known = set()  # digests of every key seen so far (legacy uint32 keys are recognised by digest only)
        self.enabled = True

    def emit(self, **e):
        if self.enabled:
            self.events.append(e)


def current():
    return _STATE["rec"]


class recording:
    """with recording() as rec: ... - events of everything that runs inside."""

    def __enter__(self):
        self.prev = _STATE["rec"]
        _STATE["rec"] = KeyRecorder()
        return _STATE["rec"]

    def __exit__(self, *a):
        _STATE["rec"] = self.prev


# ------------------------------------------------------------------ keys -> digests
def _is_tracer(x):
    import jax

    return isinstance(x, jax.core.Tracer)


def _typed_key(x):
    import jax

    try:
        return isinstance(x, jax.Array) and jax.dtypes.issubdtype(x.dtype, jax.dtypes.prng_key)
    except Exception:  # noqa: BLE001
        return False


def digests(k):
    """-> list of hex digests of a concrete key / key array (typed or legacy uint32[..., 2]); None if not concrete / not a key."""
    import jax
    import numpy as np

    if _is_tracer(k):
        return None
    try:
        if _typed_key(k):
            data = np.asarray(_STATE["real"].get("key_data", jax.random.key_data)(k))
        else:
            data = np.asarray(k)
            if data.dtype != np.uint32 or data.ndim < 1 or data.shape[-1] != 2:
                return None
    except Exception:  # noqa: BLE001
        return None
    data = data.reshape(-1, data.shape[-1])
    return ["".join(f"{int(w):08x}" for w in row) for row in data]


def _site(op, through_lib=False):
    """-> (site, origin).  The site is `<module>.<function>:<op>` of the nearest calling frame inside rl_blox (origin "code");
    a function of an adapter (harness/algos*.py) that the routine calls back - an interposed name, a policy callback - is
    looked through, so the use is attributed to the routine's function that handed the key over.  Calls made by the harness on
    its own (network construction, environments, buffers) have origin "harness"; calls a library makes for its own purposes
    (immediate caller inside site-packages, e.g. the fold_in of an nnx.Rngs stream) are skipped (site None).
    through_lib: look through library frames (constructors that go through a metaclass of the library)."""
    f = sys._getframe(2)
    first = not through_lib
    harness_site = None
    while f is not None:
        fn = f.f_code.co_filename
        if fn == _HERE or fn.endswith("functools.py") or fn.endswith("contextlib.py"):
            f = f.f_back
            continue
        if "/rl_blox/" in fn:
            mod = os.path.splitext(os.path.basename(fn))[0]
            return f"{mod}.{f.f_code.co_name}:{op}", "code"
        if "/harness/" in fn:
            base = os.path.basename(fn)
            if not base.startswith("algos"):
                return harness_site or f"harness.{f.f_code.co_name}:{op}", "harness"
            if harness_site is None:
                harness_site = f"harness.{f.f_code.co_name}:{op}"
        elif first and "site-packages" in fn:
            return None, "lib"
        first = False
        f = f.f_back
    return harness_site or f"?:{op}", "harness"


def _seed_value(seed):
    import numpy as np

    try:
        if isinstance(seed, (bool, np.bool_)):
            return int(seed)
        if isinstance(seed, (int, np.integer)):
            return int(seed)
        a = np.asarray(seed)
        if a.shape == () and np.issubdtype(a.dtype, np.integer):
            return int(a)
    except Exception:  # noqa: BLE001
        pass
    return -1


# ------------------------------------------------------------------ jax.random
def _wrap_root(name, real):
    @functools.wraps(real)
    def root(seed, *a, **k):
        out = real(seed, *a, **k)
        rec = _STATE["rec"]
        if rec is not None and rec.enabled and not _is_tracer(seed):
            site, origin = _site(name)
            d = digests(out)
            if d:
                rec.known.update(d)
            if site is not None and d:
                rec.emit(op="root", kind=name, seed=_seed_value(seed), k=d[0], site=site, origin=origin)
        return out

    return root


def _wrap_split(real):
    @functools.wraps(real)
    def split(key, num=2):
        out = real(key, num)
        rec = _STATE["rec"]
        if rec is not None and rec.enabled:
            p = digests(key)
            if p is not None and len(p) == 1:
                c = digests(out) or []
                site, origin = _site("split")
                rec.known.update(p)
                rec.known.update(c)
                if site is not None:
                    rec.emit(op="split", k=p[0], children=c, site=site, origin=origin)
            elif p is not None and len(p) > 1:  # a key array split element-wise
                c = digests(out) or []
                site, origin = _site("split")
                rec.known.update(c)
                n = len(c) // len(p)
                if site is not None:
                    for i, pk in enumerate(p):
                        rec.emit(op="split", k=pk, children=c[i * n:(i + 1) * n], site=site, origin=origin)
        return out

    return split


def _wrap_fold(real):
    @functools.wraps(real)
    def fold_in(key, data):
        out = real(key, data)
        rec = _STATE["rec"]
        if rec is not None and rec.enabled:
            p, c = digests(key), digests(out)
            if p is not None and c and len(p) == 1 and not _is_tracer(data):
                site, origin = _site("fold_in")
                rec.known.update(p)
                rec.known.update(c)
                if site is not None:
                    rec.emit(op="fold", k=p[0], data=_seed_value(data), child=c[0], site=site, origin=origin)
        return out

    return fold_in


def _wrap_sampler(name, real):
    @functools.wraps(real)
    def sampler(key, *a, **k):
        rec = _STATE["rec"]
        if rec is not None and rec.enabled:
            p = digests(key)
            if p is not None:
                site, origin = _site(name)
                rec.known.update(p)
                if site is not None:
                    for pk in p:
                        rec.emit(op="consume", k=pk, site=site, origin=origin)
        return real(key, *a, **k)

    return sampler


# ------------------------------------------------------------------ jit boundary
def _fn_module_name(fun):
    f = fun
    for _ in range(6):
        if isinstance(f, functools.partial):
            f = f.func
        elif hasattr(f, "__wrapped__") and not hasattr(f, "__code__"):
            f = f.__wrapped__
        else:
            break
    return getattr(f, "__module__", "") or "", getattr(f, "__name__", type(f).__name__)


def _keys_in(tree, rec):
    """digests of the concrete keys among the leaves of a pytree of arguments / results"""
    import jax
    import numpy as np

    out = []
    try:
        leaves = jax.tree_util.tree_leaves(tree)
    except Exception:  # noqa: BLE001
        return out
    for x in leaves:
        if not isinstance(x, jax.Array) or _is_tracer(x):
            continue
        if _typed_key(x):
            out += digests(x) or []
        elif x.dtype == np.uint32 and x.ndim >= 1 and x.shape[-1] == 2 and x.size <= 4096:
            d = digests(x) or []
            if d and all(y in rec.known for y in d):
                out += d
    return out


class _JitProxy:
    """A jitted function of rl_blox: behaves as the wrapped object, reports the keys that cross the boundary."""

    def __init__(self, jitted, name):
        self.__dict__["_x06_jitted"] = jitted
        self.__dict__["_x06_name"] = name
        for a in ("__name__", "__qualname__", "__doc__", "__module__", "__wrapped__"):
            try:
                self.__dict__[a] = getattr(jitted, a)
            except AttributeError:
                pass

    def __getattr__(self, item):
        return getattr(self.__dict__["_x06_jitted"], item)

    def __get__(self, obj, objtype=None):
        if obj is None:
            return self
        return functools.partial(self, obj)

    def __call__(self, *args, **kwargs):
        rec = _STATE["rec"]
        jitted = self.__dict__["_x06_jitted"]
        if rec is None or not rec.enabled:
            return jitted(*args, **kwargs)
        ins = _keys_in((args, kwargs), rec)
        out = jitted(*args, **kwargs)
        if ins:
            outs = [d for d in _keys_in(out, rec) if d not in ins]
            site, origin = _site("jit:" + self.__dict__["_x06_name"])
            rec.known.update(outs)
            if site is not None:
                if outs:
                    # the call hands keys back: it stands for a split of (the first of) its key arguments
                    rec.emit(op="split", k=ins[0], children=outs, site=site, origin=origin)
                    for d in ins[1:]:
                        rec.emit(op="consume", k=d, site=site, origin=origin)
                else:
                    for d in ins:
                        rec.emit(op="consume", k=d, site=site, origin=origin)
        return out


_MISSING = object()


def _wrap_jit(real):
    def jit(fun=_MISSING, *a, **k):
        if fun is _MISSING:
            dec = real(*a, **k)

            def deco(f):
                return _maybe_proxy(dec(f), f)

            return deco
        return _maybe_proxy(real(fun, *a, **k), fun)

    jit.__wrapped__ = real
    jit.__name__ = getattr(real, "__name__", "jit")
    jit.__doc__ = getattr(real, "__doc__", None)
    return jit


def _maybe_proxy(jitted, fun):
    mod, name = _fn_module_name(fun)
    if mod.startswith("rl_blox"):
        return _JitProxy(jitted, name)
    return jitted


# ------------------------------------------------------------------ install
def install():
    """Idempotent.  Must run before `import rl_blox...` for the jit boundary to be seen."""
    if _STATE["installed"]:
        return
    import flax.nnx as nnx
    import jax
    import jax.random as jr
    import numpy as np

    real = _STATE["real"]
    real["key_data"] = jr.key_data
    for name in ("key", "PRNGKey"):
        real[name] = getattr(jr, name)
        setattr(jr, name, _wrap_root(name, real[name]))
    real["split"] = jr.split
    jr.split = _wrap_split(real["split"])
    real["fold_in"] = jr.fold_in
    jr.fold_in = _wrap_fold(real["fold_in"])
    for name in SAMPLERS:
        if hasattr(jr, name):
            real[name] = getattr(jr, name)
            setattr(jr, name, _wrap_sampler(name, real[name]))

    real_rng = np.random.default_rng
    real["default_rng"] = real_rng

    @functools.wraps(real_rng)
    def default_rng(seed=None, *a, **k):
        rec = _STATE["rec"]
        if rec is not None and rec.enabled:
            site, origin = _site("default_rng")
            if site is not None:
                rec.emit(op="root", kind="numpy", seed=_seed_value(seed) if seed is not None else -1, k="", site=site, origin=origin)
        return real_rng(seed, *a, **k)

    np.random.default_rng = default_rng

    real_rngs = nnx.Rngs
    real["Rngs"] = real_rngs

    class Rngs(real_rngs):  # instances are instances of flax's own class
        def __init__(self, default=None, **rngs):
            rec = _STATE["rec"]
            if rec is not None and rec.enabled:
                site, origin = _site("Rngs", through_lib=True)
                if site is not None:
                    rec.emit(op="root", kind="nnx", seed=_seed_value(default) if default is not None else -1, k="", site=site, origin=origin)
                rec.enabled = False  # the stream's own jax.random.key(seed) is part of this root
                try:
                    super().__init__(default, **rngs)
                finally:
                    rec.enabled = True
            else:
                super().__init__(default, **rngs)

    Rngs.__name__, Rngs.__qualname__ = real_rngs.__name__, real_rngs.__qualname__
    nnx.Rngs = Rngs

    real_cp = nnx.cached_partial
    real["cached_partial"] = real_cp

    @functools.wraps(real_cp)
    def cached_partial(f, *a, **k):
        # nnx.cached_partial unpacks the jitted function it is given: re-attach the observer to what it returns
        if isinstance(f, _JitProxy):
            return _JitProxy(real_cp(f.__dict__["_x06_jitted"], *a, **k), f.__dict__["_x06_name"])
        return real_cp(f, *a, **k)

    nnx.cached_partial = cached_partial

    real["jax.jit"] = jax.jit
    jax.jit = _wrap_jit(real["jax.jit"])
    real["nnx.jit"] = nnx.jit
    nnx.jit = _wrap_jit(real["nnx.jit"])
    _STATE["installed"] = True


def uninstall():
    if not _STATE["installed"]:
        return
    import flax.nnx as nnx
    import jax
    import jax.random as jr
    import numpy as np

    real = _STATE["real"]
    for name in ("key", "PRNGKey", "split", "fold_in") + SAMPLERS:
        if name in real:
            setattr(jr, name, real[name])
    np.random.default_rng = real["default_rng"]
    nnx.Rngs = real["Rngs"]
    nnx.cached_partial = real["cached_partial"]
    jax.jit = real["jax.jit"]
    nnx.jit = real["nnx.jit"]
    _STATE["installed"] = False
