"""X05 - the logger protocol of the training routines: how every `train_*` routine of rl_blox drives the LoggerBase it
is given (start_new_episode / stop_episode bracketing, the argument of stop_episode, the per-episode "return" statistic,
the `step=` / `episode=` arguments, record_epoch only after an update, and logger=None changing nothing else).

Specification: spec/LogProtocol.tla - an OBSERVER (Observe(cfg, s, call): abstract state + violated clauses) and a
PROGRAM model of the routines' loops, both configured by ONE record per routine (harness/extras/x05_cfg.py, derived by
reading the code); TLC model-checks every distinct configuration and refutes named deviations.
spec/LogProtocolTrace.tla replays the traces of the training-routine sweep (harness/sweep.py, every enabled routine x
every scenario) through the same observer, one TLC run, one VERDICT line per trace; twin runs with logger=None
(harness/extras/x05_worker.py, through the unchanged adapters) are compared in lock step.

TLC gives every verdict; Python records, projects (float64 digests of dyadic values -> integers * 1/4, version ids ->
`changed` lists, protocol content of an event -> digest) and reads verdicts.
"""
from __future__ import annotations

import copy
import fcntl
import hashlib
import json
import os
import shutil
import subprocess
import sys
import time
import uuid
from concurrent.futures import ThreadPoolExecutor

from .. import tlc
from . import x05_cfg

LEVEL = "model_checking"
TITLE = "Logger protocol of the training routines: episode bracketing, stop_episode argument, return statistic, step arguments, record_epoch after updates, logger=None"
MANIFEST = dict(
    category="model_checking",
    text="TLC model-checks spec/LogProtocol.tla: a program-counter model of the training loops (one configuration record per routine family, derived from the code) issues reset / step / start_new_episode / stop_episode / record_stat / record_epoch calls with the arguments computed from the routine's own counters; an observer that only sees the calls reconstructs episodes, step counts, reward sums and component updates and names every violated clause. Invariants: episodes are bracketed as the routine's configuration says (never two starts, no stop while closed or mid-episode, no step outside an episode, ticks per finished episode on vector environments), stop_episode receives the episode's step count and the stops account for all steps, the return statistic equals the episode's reward sum (or what gymnasium's RecordEpisodeStatistics supplies) and is recorded exactly once per finished episode where the routine computes it, step / episode arguments equal the routine's counters (per class: G, G-1, back-dated batch, vector-call count, finished lengths, loop index) and are monotone per key, record_epoch follows an update of that component. The same observer validates the recorded executions of ALL training routines of the sweep (spec/LogProtocolTrace.tla), and every routine of the quick list is run a second time with logger=None and compared event by event - the right level because these are ordering / counter / hand-over properties of sequential loops that an explicit state machine plus exact trace validation decides.",
    note="bounds: design model <= 6 environment steps (vector: 4 calls x 2 sub-environments), episodes <= 3 steps, 2 reward values, start 0/2, episode limit 0/2, warm-up 1; traces: every enabled routine x every sweep scenario (quick 85, thorough ~200 traces), twins: scenario A (thorough: A, B) of every routine that takes a logger; rewards are dyadic so reward sums are compared exactly; trusted: TLC, the recorders in harness/probes.py / envs.py, content digests of components, gymnasium 1.3.0's RecordEpisodeStatistics as modelled",
    technique="TLA+ design model + TLC (7 invariants, >= 6 named deviation canaries, all configurations in one run); trace validation (LogProtocolTrace) of real runs of train_dqn / nature_dqn / ddqn / ddqn_per / ddpg / td3 / td3_lap / sac / td7 / mrq / pets / cmaes / reinforce / ac / a2c / ppo / uts / smt / active_mt (+ tabular routines and generate_rollout without logger) with recording LoggerBase subclass; lock-step comparison with logger=None twins",
)

ROOT = os.path.dirname(os.path.dirname(os.path.dirname(os.path.abspath(__file__))))
CACHE = os.path.join(ROOT, ".cache", "x05")
WORKERS = int(os.environ.get("VERIF_TLC_WORKERS", "8"))
S = tlc.Subst

INVS = ["EpisodeBracketing", "StopArgument", "ReturnStatistic", "StepArguments", "EpochAfterUpdate", "RunEndsAccounted", "CountersAgree"]
ACTIONS = ["Prologue", "Body", "VecBody", "BodyOff", "Finish", "EnvReset", "EnvStep", "LogStart", "LogStop", "LogStat", "LogEpoch", "Sample", "Learn"]
# deviation -> (configurations it is run on, invariant that must refute it)
DEVIATIONS = [
    ("stop_global_step", ["ddpg"], "StopArgument"),        # stop_episode(step) instead of the episode length
    ("no_restart", ["td3"], "EpisodeBracketing"),          # start_new_episode missing after the reset
    ("stale_return", ["sac"], "ReturnStatistic"),          # "return" recorded with the previous episode's value
    ("step_not_advanced", ["ppo"], "StepArguments"),       # the step argument is not advanced
    ("epoch_every_step", ["td3"], "EpochAfterUpdate"),     # record_epoch for a component that was not updated
    ("return_after_stop", ["ddpg"], "ReturnStatistic"),    # the statistic recorded after the episode was closed
    ("tick_missing", ["a2c"], "EpisodeBracketing"),        # vector routine: no start_new_episode for a finished episode
]

# situations the design model must reach (reported as "violated" by TLC): (invariant, configurations)
WITNESSES = [("WitnessBackdatedBatch", ["td7_ckpt"]), ("WitnessStopsAtLimit", ["sac"]), ("WitnessDanglingStart", ["reinforce"]),
             ("WitnessWrapperDropsStep", ["ppo"]), ("WitnessOpenAtEnd", ["td3_lap"])]

EV_FIELDS = dict(op="", env=0, r4=0, ended=False, n=0, key="", v4=-1, ival=-1, step=-1, episode=-1, comp="", fresh=False, changed=[], eplimit=0, proj="")
LOG_EVENTS = ("log_start", "log_stop", "log_stat", "log_epoch")


# ------------------------------------------------------------------ projection
_DIG = {}


def _digest_table():
    """float64 digest -> 4 * value for every multiple of 1/4 in range (device D2: rewards are dyadic, sums are exact)."""
    if not _DIG:
        import numpy as np

        from ..envs import adigest

        for n in range(-2000, 80001):
            _DIG[adigest(np.asarray(n / 4.0, dtype=np.float64))] = n
    return _DIG


def tla_cfg(routine):
    c = x05_cfg.log_cfg(routine)
    out = {k: v for k, v in c.items() if k not in ("stats", "epochs", "stat_keys", "epoch_keys")}
    out["stats"] = [[k, c["stats"][k]] for k in sorted(c["stats"])]
    out["epochs"] = [[k, c["epochs"][k]] for k in sorted(c["epochs"])]
    out["name"] = routine
    return out


def _proj(e, changed):
    f = {k: v for k, v in e.items() if k not in ("ver", "vd", "same", "rel")}
    f["changed"] = [c for c in changed if not c.startswith("live:")]
    return hashlib.sha1(json.dumps(f, sort_keys=True, default=str).encode()).hexdigest()[:10]


def _env_proj(e):
    return hashlib.sha1(json.dumps([e["ev"], e.get("env", 0), e.get("obs"), e.get("r4", 0), e.get("term", False), e.get("trunc", False)]).encode()).hexdigest()[:10]


def project_events(events, twin_mode="full"):
    """-> uniform records for TLC."""
    dig = _digest_table()
    prev, acc, out = None, set(), []
    for e in events:
        ver = e.get("ver")
        changed = []
        if ver is not None:
            if prev is not None:
                changed = sorted(k for k in ver if k in prev and prev[k] != ver[k])
        n = dict(EV_FIELDS)
        n["op"] = e["ev"]
        n["changed"] = changed
        n["env"] = int(e.get("env", 0))
        if e["ev"] == "step":
            n["r4"] = int(e["r4"])
            n["ended"] = bool(e["term"] or e["trunc"])
        elif e["ev"] == "log_stop":
            n["n"] = int(e["n"])
        elif e["ev"] == "log_stat":
            v4 = dig.get(e["val"], -1)
            n.update(key=e["key"], step=int(e["step"]), episode=int(e["episode"]), v4=v4 if v4 >= 0 else -1, ival=v4 // 4 if v4 >= 0 and v4 % 4 == 0 else -1)
        elif e["ev"] == "log_epoch":
            key = e["key"]
            comp = key if ver is not None and key in ver else ("live:" + key if ver is not None and ("live:" + key) in ver else "")
            # the first record of a component the logger itself started to watch has no earlier version to compare with
            fresh = bool(comp) and (prev is None or comp not in prev)
            n.update(key=key, step=int(e["step"]), comp=comp, fresh=fresh)
        elif e["ev"] == "inner_call":
            n["eplimit"] = int(e.get("eplimit", 0))
        # protocol content of a non-logger event, with the component changes seen since the previous non-logger event: a
        # change is observed at the first event after it, which is a logger event only in the run that has a logger
        acc.update(changed)
        if e["ev"] not in LOG_EVENTS:
            if twin_mode == "full":
                n["proj"] = _proj(e, sorted(acc))
            elif e["ev"] in ("reset", "step"):
                n["proj"] = _env_proj(e)
            acc = set()
        if ver is not None:
            prev = ver
        out.append(n)
    return out


def normalise(trace, twin=None):
    cfg = trace["cfg"]
    mode = x05_cfg.log_cfg(cfg["routine"])["twin"]
    tw = [] if twin is None else project_events(twin["events"], mode)
    return {"id": trace["id"], "error": bool(trace.get("error")),
            "cfg": {"nenvs": int(cfg.get("nenvs", 1)), "start": int(cfg.get("start", 0)), "eplimit": int(cfg.get("eplimit", 0)), "log": tla_cfg(cfg["routine"])},
            "events": project_events(trace["events"], mode),
            # events without protocol content in this mode are skipped on both sides; a logger event in the twin is content
            "twin": [x["proj"] if x["proj"] else "logger:" + x["op"] for x in tw if x["proj"] or x["op"] in LOG_EVENTS]}


# ------------------------------------------------------------------ TLC runs
DUMMY = dict(MaxSteps=1, MaxEpLen=1, Rewards={1}, Start=0, EpLimit=0, Warm=0, Block=1, DEV="none")


def _tmp(name):
    d = os.path.join(tlc.OUT, "tmp")
    os.makedirs(d, exist_ok=True)
    return os.path.join(d, f"{name}-{os.getpid()}-{uuid.uuid4().hex[:8]}.json")


def validate(norm, tag="x05trace", timeout=900):
    """-> {trace id: dict(executed, episodes, starts, stops, returns, twin, viol=[(pos, clause), ...])}, TlcResult"""
    path, cpath = _tmp(tag), _tmp(tag + "cfg")
    with open(path, "w") as f:
        json.dump(norm, f)
    with open(cpath, "w") as f:
        json.dump([tla_cfg("ddpg")], f)
    try:
        r = tlc.run("LogProtocolTrace", tlc.cfg_text(init="TInit", next="TNext", constants=DUMMY, constraints=["Verdict"]), workers=1,
                    env={"TRACE_FILE": path, "CFG_FILE": cpath}, tag=tag, timeout=timeout)
    finally:
        os.remove(path)
        os.remove(cpath)
    out = {}
    for line in r.stdout.splitlines():
        if line.startswith('<<"VERDICT", "'):
            d = json.loads(json.loads(line[len('<<"VERDICT", '):-2]))
            d["viol"] = sorted((int(a), b) for a, b in d["viol"])
            out[d.pop("id")] = d
    missing = [t["id"] for t in norm if t["id"] not in out]
    if missing:
        raise tlc.MachineryError(f"LogProtocolTrace gave no verdict for traces {missing}: {r.stdout[-2500:]}")
    return out, r


def design_cfgs():
    """distinct configurations (by content) -> name of the first routine that has it"""
    seen, out = {}, []
    for name in x05_cfg.BY_ROUTINE:
        c = tla_cfg(name)
        key = json.dumps({k: v for k, v in c.items() if k != "name"}, sort_keys=True)
        if key not in seen:
            seen[key] = name
            out.append(c)
    return out


def _design_run(cfgs, consts, invariants, workers, coverage=False, tag="x05design"):
    cpath = _tmp(tag)
    with open(cpath, "w") as f:
        json.dump(cfgs, f)
    try:
        return tlc.run("LogProtocol", tlc.cfg_text(constants=consts, invariants=invariants), workers=workers, coverage=coverage,
                       env={"CFG_FILE": cpath}, tag=tag, timeout=900)
    finally:
        os.remove(cpath)


def design_constants(tier):
    base = dict(MaxSteps=5, MaxEpLen=3, Rewards={1, 5}, Start=0, EpLimit=0, Warm=1, Block=2, DEV="none")
    runs = [("start 0, no episode limit", base), ("continued run (start 2), episode limit 2", dict(base, Start=2, EpLimit=2, MaxSteps=5))]
    if tier == "thorough":
        runs += [("longer runs, warm-up 2", dict(base, MaxSteps=6, Warm=2, Block=3)), ("one-step episodes, limit 3", dict(base, MaxEpLen=1, EpLimit=3, Start=1, MaxSteps=6))]
    return runs


# ------------------------------------------------------------------ twin recordings (logger=None)
def _twin_key(tier, seed, labels):
    from .. import sweep

    h = hashlib.sha256(sweep.cache_key(tier, seed, "x05twin" + ",".join(labels)).encode())
    for f in ("x05_worker.py",):
        h.update(open(os.path.join(ROOT, "harness", "extras", f), "rb").read())
    return h.hexdigest()[:24]


def _twin_worker(name, tier, seed, labels, outdir, timeout=300, attempts=3):
    from .. import sweep

    out = os.path.join(outdir, f"{name}.json")
    env = dict(os.environ)
    env.update(PYTHONHASHSEED="0", PYTHONPATH=sweep.repo_root() + os.pathsep + ROOT, JAX_PLATFORMS="cpu", TF_CPP_MIN_LOG_LEVEL="3")
    env["XLA_FLAGS"] = env.get("XLA_FLAGS", "") + " --xla_cpu_multi_thread_eigen=false"
    env.setdefault("OMP_NUM_THREADS", "2")
    last = None
    for k in range(attempts):  # a jitted policy probe was seen to hang under heavy load (see sweep._run_worker); runs are deterministic
        try:
            p = subprocess.run([sys.executable, "-m", "harness.extras.x05_worker", name, tier, str(seed), ",".join(labels), out], env=env, cwd=ROOT,
                               capture_output=True, text=True, timeout=timeout * (k + 1))
        except subprocess.TimeoutExpired as e:
            last = e
            continue
        if p.returncode != 0 or not os.path.exists(out):
            raise tlc.MachineryError(f"X05 twin worker {name} failed: {p.stderr[-1500:]}")
        return out
    raise tlc.MachineryError(f"X05 twin worker {name} timed out {attempts} times: {last}")


def record_twins(tier, seed, names, labels, procs=8):
    """-> {trace id: trace of the run with logger=None}.  Cached like the sweep (key: repository + harness content)."""
    d = os.path.join(CACHE, _twin_key(tier, seed, labels))
    os.makedirs(d, exist_ok=True)
    lock = open(os.path.join(d, ".lock"), "w")
    fcntl.flock(lock, fcntl.LOCK_EX)
    try:
        todo = [n for n in names if not os.path.exists(os.path.join(d, f"{n}.json"))]
        if todo:
            with ThreadPoolExecutor(max_workers=procs) as ex:
                for f in [ex.submit(_twin_worker, n, tier, seed, labels, d) for n in todo]:
                    f.result()
        out = {}
        for n in names:
            with open(os.path.join(d, f"{n}.json")) as f:
                for t in json.load(f):
                    out[t["id"]] = t
        return out
    finally:
        fcntl.flock(lock, fcntl.LOCK_UN)
        lock.close()
        try:
            ds = sorted((os.path.getmtime(os.path.join(CACHE, x)), x) for x in os.listdir(CACHE))
            for _, x in ds[:-6]:
                shutil.rmtree(os.path.join(CACHE, x), ignore_errors=True)
        except OSError:
            pass


# ------------------------------------------------------------------ binding canaries
def _idx(t, pred, nth=0):
    hits = [i for i, e in enumerate(t["events"]) if pred(e)]
    return hits[min(nth, len(hits) - 1)] if hits else None


def _c_stop_n(t):  # stop_episode got one step more than the episode had
    i = _idx(t, lambda e: e["op"] == "log_stop", 2)
    t["events"][i]["n"] += 1


def _c_drop_start(t):  # one start_new_episode call dropped
    i = _idx(t, lambda e: e["op"] == "log_start", 2)
    del t["events"][i]


def _c_return(t):  # the return statistic of one episode replaced by that of its predecessor
    hits = [i for i, e in enumerate(t["events"]) if e["op"] == "log_stat" and e["key"] == "return"]
    t["events"][hits[2]]["v4"] = t["events"][hits[1]]["v4"]


def _c_step(t):  # a step argument one behind
    i = _idx(t, lambda e: e["op"] == "log_stat" and e["key"] == "q loss", 3)
    t["events"][i]["step"] -= 1


def _c_epoch(t):  # an epoch record repeated without an update in between
    i = _idx(t, lambda e: e["op"] == "log_epoch" and e["key"] == "policy", 2)
    t["events"].insert(i + 1, dict(t["events"][i], changed=[]))


def _c_twin(t):  # the run with the logger took a different action at one step
    i = _idx(t, lambda e: e["op"] == "step", 4)
    t["events"][i]["proj"] = "0" * 10


def _c_tick(t):  # vector routine: the tick of one finished episode dropped
    i = _idx(t, lambda e: e["op"] == "log_start", 3)
    del t["events"][i]


CORRUPTIONS = [("td3", "stop_n", _c_stop_n, "StopArg"), ("ddpg", "drop_start", _c_drop_start, "StepOutsideEpisode"), ("sac", "return", _c_return, "ReturnValue"),
               ("td7", "step", _c_step, "StepArg"), ("td3", "epoch", _c_epoch, "EpochWithoutUpdate"), ("ddpg", "twin", _c_twin, "TwinDiverges"),
               ("a2c", "tick", _c_tick, "TickMissing"), ("dqn", "return", _c_return, "ReturnValue")]


def corruptions(norm):
    by = {}
    for t in norm:
        if not t["error"] and t["id"].endswith(":A"):
            by.setdefault(t["cfg"]["log"]["name"], t)
    out = []
    for rname, name, fn, clause in CORRUPTIONS:
        if rname not in by or (name == "twin" and not by[rname]["twin"]):
            continue
        b = copy.deepcopy(by[rname])
        b["id"], b["base"] = f"canary:{rname}:{name}", by[rname]["id"]
        try:
            fn(b)
        except Exception:
            continue
        out.append((b, clause))
    return out


# ------------------------------------------------------------------ run
TWIN_LABELS = {"quick": ["A"], "thorough": ["A", "B"]}


def _load(rep):
    """sweep traces of this tier / seed + twins, normalised"""
    from .. import sweep

    recs, _ = sweep.record(rep.tier, rep.seed)
    traces = [t for (n, v), ts in sorted(recs.items()) for t in ts]
    os.environ["VERIF_SWEEP_TIER"] = "quick"
    quick_names = sweep.routine_names()
    os.environ["VERIF_SWEEP_TIER"] = rep.tier
    with_logger = [n for n in quick_names if x05_cfg.BY_ROUTINE[n]["mode"] == "on"]
    twins = record_twins(rep.tier, rep.seed, with_logger, TWIN_LABELS[rep.tier])
    return traces, twins


def run(rep):
    t0 = time.time()
    tlc.sany("LogProtocol")
    tlc.sany("LogProtocolTrace")
    cfgs = design_cfgs()
    by_name = {c["name"]: c for c in cfgs}
    w = max(1, min(4, WORKERS))
    with ThreadPoolExecutor(max_workers=4) as ex:
        loaded = ex.submit(_load, rep)
        # -- design model: every distinct configuration, all invariants
        designs = [(name, ex.submit(_design_run, cfgs, consts, INVS, w, True)) for name, consts in design_constants(rep.tier)]
        base = design_constants("quick")[1][1]
        devs = [(dev, inv, ex.submit(_design_run, [tla_cfg(n) for n in names], dict(base, DEV=dev), [inv], 1, False, "x05dev")) for dev, names, inv in DEVIATIONS]
        wits = [(inv, ex.submit(_design_run, [tla_cfg(n) for n in names], base, [inv], 1, False, "x05wit")) for inv, names in WITNESSES]
        for name, f in designs:
            r = f.result()
            rep.add_tlc(r, f"LogProtocol design model, {len(cfgs)} configurations: {name}")
            if not r.ok:
                rep.violation(f"spec:LogProtocol:{r.violated}", f"design-level violation of {r.violated} ({name})", r.error_trace[:3000])
            else:
                tlc.require_covered(r, ACTIONS)
        for dev, inv, f in devs:
            r = f.result()
            if r.violated != inv:
                raise tlc.MachineryError(f"canary: deviation {dev} not refuted by invariant {inv} (TLC says {r.violated})")
        for inv, f in wits:
            if f.result().violated != inv:
                raise tlc.MachineryError(f"vacuity: the design model never reaches the situation {inv}")
        traces, twins = loaded.result()
    t_loaded = time.time()
    # -- trace validation: real runs + corrupted copies in one TLC run
    norm = [normalise(t, twins.get(t["id"])) for t in traces]
    corr = corruptions(norm)
    out, r = validate(norm + [c for c, _ in corr])
    rep.add_tlc(r, "LogProtocolTrace batched trace validation")
    n_events = n_log = 0
    per = {}
    for t, nt in zip(traces, norm):
        v = out[t["id"]]
        rname = t["cfg"]["routine"]
        n_events += len(t["events"])
        logev = sum(1 for e in nt["events"] if e["op"] in LOG_EVENTS)
        n_log += logev
        pr = per.setdefault(rname, dict(traces=0, logger_calls=0, steps=0, episodes=0, starts=0, stops=0, returns=0, twin_events=0))
        pr["traces"] += 1
        pr["logger_calls"] += logev
        for k2 in ("steps", "episodes", "starts", "stops", "returns", "twin_events"):
            pr[k2] += v[{"steps": "executed", "twin_events": "twin"}.get(k2, k2)]
        for pos, clause in v["viol"]:
            e = nt["events"][pos - 1] if pos <= len(nt["events"]) else {"op": "end of trace"}
            short = {k2: e[k2] for k2 in e if k2 != "proj" and e[k2] != EV_FIELDS.get(k2)}
            rep.violation(f"{rname}:{clause}", f"{t['id']} event {pos}: clause {clause} fails at {short}"[:700],
                          {"kind": "x05", "routine": rname, "scenario": t["scenario"], "position": pos, "clause": clause, "tier": rep.tier, "seed": rep.seed})
    # a corruption only counts when the trace it was derived from is accepted
    counted = 0
    for c, clause in corr:
        if out[c["base"]]["viol"]:
            continue
        counted += 1
        got = {cl for _, cl in out[c["id"]]["viol"]}
        if clause not in got:
            raise tlc.MachineryError(f"binding canary {c['id']}: corrupted trace not rejected by clause {clause} (got {sorted(got)})")
    if counted < 4 and not rep.violations:
        raise tlc.MachineryError(f"binding canaries: only {counted} could be judged")
    if not rep.violations:
        # non-vacuity: logger calls of every kind were judged, returns were compared, twins were consumed
        kinds = {op: sum(1 for nt in norm for e in nt["events"] if e["op"] == op) for op in LOG_EVENTS}
        if min(kinds.values()) == 0 or sum(p2["returns"] for p2 in per.values()) < 20 or sum(p2["twin_events"] for p2 in per.values()) < 500:
            raise tlc.MachineryError(f"vacuous run: logger events {kinds}, per routine {per}")
    rep.traces = len(traces)
    rep.evaluations = n_events
    rep.distinct = n_log
    rep.rule = ("one case = one logger call (start_new_episode / stop_episode / record_stat / record_epoch) of a real training run, judged by the observer of LogProtocol "
                "against the environment calls, reward sums and component versions recorded around it; runs: every enabled training routine on every scenario of the sweep "
                "(termination and truncation, one-step episodes, start counts > 0, episode limits, runs ending mid-episode); non-trivial: >= 20 return statistics compared "
                "exactly, every kind of logger call occurs, every twin (logger=None) run is consumed event by event")
    rep.exhaustive = False
    rep.extra["per_routine"] = per
    rep.extra["twin_traces"] = sorted(twins)
    rep.extra["binding_canaries"] = [c["id"] + " -> " + cl for c, cl in corr]
    rep.extra["spec_canaries"] = [f"{d} on {n} refuted by {i}" for d, n, i in DEVIATIONS]
    rep.extra["design_configurations"] = [c["name"] for c in cfgs]
    rep.extra["routine_oddities_modelled_as_configuration"] = [" | ".join(o) for o in x05_cfg.ODDITIES]
    rep.extra["wall_split_s"] = {"recording_or_cache_and_design": round(t_loaded - t0, 1), "trace_validation": round(time.time() - t_loaded, 1)}
    for rname in ("sac", "td7_ckpt", "ppo"):
        for t, nt in zip(traces, norm):
            if t["cfg"]["routine"] == rname:
                i = _idx(nt, lambda e: e["op"] == "log_stat" and e["key"] == "return", 1)
                if i is not None:
                    rep.sample({"trace": t["id"], "position": i + 1, **{k2: v2 for k2, v2 in nt["events"][i].items() if v2 != EV_FIELDS.get(k2)}})
                break
    rep.assumptions += [
        "component updates are observed through content digests taken at every event: an update that leaves the content bit-identical is invisible (hard copies of unchanged sources are modelled; a gradient step with an all-zero gradient would look like 'no update')",
        "return statistics are projected from their float64 digest to 4*value (table of all multiples of 1/4 in [-500, 20000]); rewards of the scripted environments are dyadic, so sums are exact",
        "per-routine configuration (harness/extras/x05_cfg.py) is derived from the code; behaviour that looks wrong is modelled as that routine's configuration and listed under routine_oddities_modelled_as_configuration",
        "gymnasium 1.3.0 RecordEpisodeStatistics (vector) does not count the call after an episode end; in SAME_STEP mode (train_ppo) this drops the first step of every later episode - modelled as is (wrapper=same_step)",
        "the tabular routines and generate_rollout are run without logger by their adapters (they need info['episode'] / have no logger parameter): for them only 'no logger call occurs' is stated",
    ]


def replay(path, rep):
    with open(path) as f:
        doc = json.load(f)
    r = doc.get("replay") or {}
    if not isinstance(r, dict) or "scenario" not in r:
        print("design-level finding, nothing to replay against the code:", doc.get("what"))
        return 1
    from .. import algos

    t = algos.run(r["routine"], r["scenario"])
    t["id"] = f"{r['routine']}:{r['scenario'].get('label', '')}"
    twin = None
    if r.get("clause") == "TwinDiverges":  # the same scenario once more, through the adapter, with logger=None (separate process)
        d = os.path.join(tlc.OUT, "tmp", f"x05replay-{os.getpid()}")
        os.makedirs(d, exist_ok=True)
        try:
            with open(_twin_worker(r["routine"], r.get("tier", "quick"), int(r.get("seed", 0)), [r["scenario"].get("label", "A")], d)) as f:
                twin = next((x for x in json.load(f) if x["id"] == t["id"]), None)
        finally:
            shutil.rmtree(d, ignore_errors=True)
    out, _ = validate([normalise(t, twin)], tag="x05replay")
    v = out[t["id"]]
    bad = sorted({c for _, c in v["viol"]})
    print(t["id"], "executed", v["executed"], "starts", v["starts"], "stops", v["stops"], "failing clauses:", bad, "error:", t.get("error"))
    if r.get("clause") in bad:
        print(f"EXTRA-DEVIATION spec={rep.pid} replay={path}")
        return 1
    return 0
