"""X06: per-routine configuration of the key-discipline model (spec/KeyDiscipline.tla), derived by READING the routines
(/repo/rl_blox at the snapshot this was written against), not by fitting traces.

Sites are `<module>.<function>:<operation>` (harness/extras/x06_record.py) - independent of line numbers; the line numbers
below are documentation only.

  seed_rule   "exact"       every generator / key of the run is created from the routine's `seed` argument
              "plus_steps"  a scheduler: the inner calls are documented to receive `seed + global_step`
  loops       sites of the split that advances the carried key of a training loop (`key, sub = jax.random.split(key)`): the
              key split there must be a child of the key split there before (or the fresh root of a new call)
  allow       named deviations: [name, clauses, sites a, sites b] - what the unchanged code does between a site of group a and a
              site of group b although the discipline forbids it (first matching entry names it).  Reported under its name,
              never failed; every OTHER violated clause is a deviation.
  min_ops     non-vacuity: minimal numbers of recorded operations in scenario A
"""
from __future__ import annotations


def _cfg(loops, seed_rule="exact", allow=(), min_splits=1, min_consumed=1, variants_of=None):
    return dict(loops=list(loops), seed_rule=seed_rule, allow=[list(a) for a in allow], min_splits=min_splits, min_consumed=min_consumed, adapter=variants_of)


REUSE = ["SplitTwice", "ConsumeTwice", "SplitAndConsume"]


def dev(name, clauses, a, b):
    """a named deviation: the clauses it covers and the two groups of sites between which it occurs"""
    return [name, [clauses] if isinstance(clauses, str) else list(clauses), [a] if isinstance(a, str) else list(a), [b] if isinstance(b, str) else list(b)]


# value_policy.py:72-75  key, subkey = random.split(key); roll = random.uniform(subkey); if roll < epsilon: random.choice(subkey, ..)
EPS_GREEDY = dev("SubkeyDecidesAndChooses", "ConsumeTwice", "value_policy.epsilon_greedy_policy:uniform", "value_policy.epsilon_greedy_policy:choice")

# probabilistic_ensemble.py:429-432  key, shuffle_key = jax.random.split(key, 2); jax.random.permutation(key, ...): the carried key
# is consumed (shuffle_key is never used) and split again by the next epoch
ENSEMBLE_SHUFFLE = dev("ShuffleUsesCarriedKey", "SplitAndConsume", "probabilistic_ensemble.train_ensemble:permutation", "probabilistic_ensemble.train_ensemble:split")

# pets.py:530 key = jax.random.key(seed) (training chain) and pets.py:567 PETSMPCState(key=jax.random.key(seed)) (planner chain):
# both chains advance by `key, sub = split(key)`, so the i-th training key equals the i-th planner key; pets.py:571-576 the
# compile call hands the planner's root key to the jitted optimiser before mpc_action splits it
PETS = [
    dev("SameRootForTrainingAndPlanning", "RootTwice", "pets.train_pets:key", "pets.train_pets:key"),
    dev("CompileCallConsumesPlannerRoot", "SplitAndConsume", "pets.train_pets:jit:_pets_optimize", ["pets.mpc_action:split", "pets.train_pets:split"]),
    dev("SameRootForTrainingAndPlanning", "SplitTwice", "pets.train_pets:split", "pets.mpc_action:split"),
    # train_key_i == opt_key_i: the key given to update_dynamics_model (split by train_ensemble) is the key a planning call consumed
    dev("SameRootForTrainingAndPlanning", "SplitAndConsume", "probabilistic_ensemble.train_ensemble:split", "pets.mpc_action:jit:_pets_optimize"),
    ENSEMBLE_SHUFFLE,
]
# the same with the planner run eagerly (documented fall-back of train_pets: the compile call raises, nothing is drawn), two CEM
# iterations: pets.py:133-145 hands the SAME key to every iteration, _pets_opt_iter splits it locally (161, 167) and the advanced
# key is dropped.  With identical training and planner chains every key of the planner's tree (opt_key and what _pets_optimize
# derives from it) is also a key of the training tree (train_key and what train_ensemble derives from it).
_ITER = ["pets._pets_opt_iter:split", "pets._pets_opt_iter:jit:cem_sample", "pets._pets_opt_iter:jit:ts_inf"]
_PLAN = ["pets.mpc_action:split", "pets._pets_optimize:split", "pets._pets_optimize:randint"] + _ITER
_TRAIN = ["pets.train_pets:split", "probabilistic_ensemble.train_ensemble:split", "probabilistic_ensemble.train_ensemble:permutation", "probabilistic_ensemble.bootstrap:choice"]
PETS_EAGER = [
    dev("SameRootForTrainingAndPlanning", "RootTwice", "pets.train_pets:key", "pets.train_pets:key"),
    dev("IterKeyReusedEveryIteration", REUSE + ["LoopKeyRewound"], _ITER, _ITER),
    ENSEMBLE_SHUFFLE,
    dev("SameRootForTrainingAndPlanning", REUSE, _TRAIN, _PLAN),
]

# uniform_task_sampling.py:58 key = jax.random.key(seed) (task choice, 66-67) and 76 train_st(seed=seed + global_step): the first inner
# call (global_step = 0) roots its own chain at the same key (train_sac: PRNGKey(seed), sac.py:476)
_SAC = ["sac.train_sac:split", "sac.train_sac:jit:_sample_action", "sac.train_sac:jit:train_step_with_loss", "sac.train_sac:jit:sac_update_actor", "sac.update:jit:_update_entropy_coefficient"]
UTS = [
    dev("SchedulerRootCollision", "RootTwice", "uniform_task_sampling.train_uts:key", "sac.train_sac:PRNGKey"),
    dev("SchedulerRootCollision", REUSE, ["uniform_task_sampling.train_uts:split", "uniform_task_sampling.train_uts:choice"], _SAC),
]

BY_ROUTINE = {
    # dqn.py:130-145 (nature_dqn.py:119-142, ddqn.py:120-146, per.py:129-153): key(seed), default_rng(seed), ONE split, uniform(subkey, (total_timesteps,))
    "dqn": _cfg(["dqn.train_dqn:split"]),
    "nature_dqn": _cfg(["nature_dqn.train_nature_dqn:split"]),
    "ddqn": _cfg(["ddqn.train_ddqn:split"]),
    "ddqn_per": _cfg(["per.train_ddqn_per:split"]),
    # ddpg.py:375-376, 411 key, action_key = split(key) per policy step
    "ddpg": _cfg(["ddpg.train_ddpg:split"], min_splits=10, min_consumed=10),
    # td3.py:383-384, 424, 446 (td3_lap.py:199-200, 240, 261): acting and target smoothing
    "td3": _cfg(["td3.train_td3:split"], min_splits=20, min_consumed=20),
    "td3_lap": _cfg(["td3_lap.train_td3_lap:split"], min_splits=20, min_consumed=20),
    # sac.py:475-476 PRNGKey(seed); 518, 538, 555, 567 four splits per step after warm-up
    "sac": _cfg(["sac.train_sac:split"], min_splits=40, min_consumed=40),
    # td7.py:677-678, 734, 786
    "td7": _cfg(["td7.train_td7:split"], min_splits=20, min_consumed=20),
    "td7_ckpt": _cfg(["td7.train_td7:split"], min_splits=20, min_consumed=20),
    # mrq.py:538-539, 621, 680
    "mrq": _cfg(["mrq.train_mrq:split"], min_splits=20, min_consumed=20),
    "pets": _cfg(["pets.train_pets:split", "pets.mpc_action:split"], allow=PETS, min_splits=20, min_consumed=20),
    "pets_eager": _cfg(["pets.train_pets:split", "pets.mpc_action:split"], allow=PETS_EAGER, min_splits=20, min_consumed=20, variants_of="pets"),
    # cmaes.py:653 key(seed) -> CMAESState.key; 246 state.key, sampling_key = split(state.key) per generation
    "cmaes": _cfg(["cmaes.sample_population:split"]),
    # reinforce.py:512-516 key, skey = split(key) per iteration; sample_trajectories 622 key, subkey = split(key) per step
    "reinforce": _cfg(["reinforce.train_reinforce:split"], min_splits=10, min_consumed=10),
    "reinforce_gauss": _cfg(["reinforce.train_reinforce:split"], min_splits=10, min_consumed=10),
    "actor_critic": _cfg(["actor_critic.train_ac:split"], min_splits=10, min_consumed=10),
    # a2c.py:191, 208 key, col_key = split(key); collect_trajectories 76 rng, subkey = split(rng) per vector step
    "a2c": _cfg(["a2c.train_a2c:split"], min_splits=5, min_consumed=5),
    # ppo.py:333, 345 key, subkey = split(key); collect_trajectories 83 subkeys = split(key, batch_size)
    "ppo": _cfg(["ppo.train_ppo:split"], min_splits=4, min_consumed=4),
    # tabular: q_learning.py:62, 72 split(key, 3); sarsa.py:70, 81, 89; double_q_learning.py:72, 77 split(key, 4); monte_carlo.py:60, 79;
    # dynaq.py:181, 204, 224 and planning 72
    "q_learning": _cfg(["q_learning.train_q_learning:split"], allow=[EPS_GREEDY], min_splits=20, min_consumed=20),
    "sarsa": _cfg(["sarsa.train_sarsa:split"], allow=[EPS_GREEDY], min_splits=20, min_consumed=20),
    "double_q_learning": _cfg(["double_q_learning.train_double_q_learning:split"], allow=[EPS_GREEDY], min_splits=20, min_consumed=20),
    "monte_carlo": _cfg(["monte_carlo.train_monte_carlo:split"], allow=[EPS_GREEDY], min_splits=20, min_consumed=20),
    "dynaq": _cfg(["dynaq.train_dynaq:split"], allow=[EPS_GREEDY], min_splits=20, min_consumed=20),
    # experiment_helper.py:11, 24
    "rollout": _cfg(["experiment_helper.generate_rollout:split"]),
    # schedulers: active_mt.py:200, smt.py:247 / 386, uniform_task_sampling.py:76 pass seed + global_step to the single-task routine
    "active_mt": _cfg(["ddpg.train_ddpg:split"], seed_rule="plus_steps", min_splits=10, min_consumed=10),
    "smt": _cfg(["ddpg.train_ddpg:split"], seed_rule="plus_steps", min_splits=10, min_consumed=10),
    "uts": _cfg(["sac.train_sac:split", "uniform_task_sampling.train_uts:split"], seed_rule="plus_steps", allow=UTS, min_splits=10, min_consumed=10),
}

QUICK = ["dqn", "nature_dqn", "ddqn", "ddqn_per", "ddpg", "td3", "td3_lap", "sac", "td7", "mrq", "pets", "pets_eager", "cmaes", "reinforce", "actor_critic",
         "a2c", "ppo", "q_learning", "sarsa", "double_q_learning", "monte_carlo", "dynaq", "rollout"]
THOROUGH = QUICK + ["td7_ckpt", "reinforce_gauss", "active_mt", "smt", "uts"]

# worker processes: routines grouped so that the groups take about the same time
GROUPS = {
    "quick": [["dqn", "nature_dqn", "ddqn", "ddqn_per", "td3_lap", "rollout"], ["sac", "ddpg", "cmaes"], ["td7", "td3", "ppo"], ["mrq", "a2c"], ["pets", "pets_eager"],
              ["reinforce", "actor_critic", "q_learning"], ["sarsa", "double_q_learning", "monte_carlo", "dynaq"]],
    "thorough": [["dqn", "nature_dqn", "ddqn", "ddqn_per", "td3_lap", "rollout"], ["sac", "ddpg", "cmaes"], ["td7", "td3", "ppo"], ["mrq", "a2c"], ["pets", "pets_eager"],
                 ["reinforce", "actor_critic", "q_learning", "reinforce_gauss"], ["sarsa", "double_q_learning", "monte_carlo", "dynaq", "td7_ckpt"], ["active_mt"], ["smt"], ["uts"]],
}

# what the unchanged code does although the discipline forbids it (reported, not failed): (routine(s), call site, what is reused)
ODDITIES = [
    ("q_learning / sarsa / double_q_learning / monte_carlo / dynaq", "rl_blox/blox/value_policy.py epsilon_greedy_policy (72-75)",
     "SubkeyDecidesAndChooses: `subkey` is consumed by random.uniform (explore?) and again by random.choice (which action) - the exploring action is a function of the roll that decided to explore"),
    ("pets (every caller of train_ensemble with n_epochs >= 2)", "rl_blox/blox/probabilistic_ensemble.py train_ensemble (429-432)",
     "ShuffleUsesCarriedKey: `key, shuffle_key = split(key)` followed by `permutation(key, ...)`: the carried key is consumed and split again in the next epoch; shuffle_key is never used"),
    ("pets", "rl_blox/algorithm/pets.py train_pets (530, 567)",
     "SameRootForTrainingAndPlanning: the training key and PETSMPCState.key are both jax.random.key(seed) and both advance by `key, sub = split(key)`: the i-th train_key (bootstrap + shuffling of the model fit) is the i-th opt_key (CEM noise of a planning call)"),
    ("pets", "rl_blox/algorithm/pets.py train_pets (571-576)",
     "CompileCallConsumesPlannerRoot: the warm-up call mpc_optimize_fn(..., mpc_state.key, zeros) draws from the planner's root key, which mpc_action then splits"),
    ("pets (n_opt_iter >= 2)", "rl_blox/algorithm/pets.py _pets_optimize (133-145) / _pets_opt_iter (161, 167)",
     "IterKeyReusedEveryIteration: every CEM iteration receives the same key, splits it locally and drops the advanced key: all iterations of one planning call draw identical noise and identical particle keys"),
    ("uts (thorough tier)", "rl_blox/algorithm/uniform_task_sampling.py train_uts (58, 66-67, 76) with rl_blox/algorithm/sac.py train_sac (476)",
     "SchedulerRootCollision: the scheduler's own key is jax.random.key(seed) and the first inner call receives seed + global_step = seed: train_sac roots its chain at the same key (PRNGKey(seed)); once that call acts with its policy it splits the key the scheduler has split for the task choice"),
    ("active_mt / smt / uts (thorough tier)", "active_mt.py:200, smt.py:247 / 386, uniform_task_sampling.py:76",
     "InnerCallsSeededWithSeedPlusStep (configuration seed_rule=plus_steps, not a clause): inner calls are seeded with seed + global_step, so two runs whose seeds differ by less than the run length share the keys, numpy generators and action-space seeds of some inner calls (run(seed=0) at global_step 4 = run(seed=1) at global_step 3); the docstrings only say `seed`"),
]


def key_cfg(routine):
    if routine not in BY_ROUTINE:
        raise KeyError(f"X06 has no key-discipline configuration for routine {routine}")
    return dict(BY_ROUTINE[routine])
