"""X03 recording side: run the real on-policy routines on scripted environments and record the iteration structure.

Nothing is judged here.  Module-level names of rl_blox are interposed (harness.algos.interpose), the optimisers are
recording subclasses of nnx.Optimizer, and the routines run under ``jax.disable_jit()`` so that every loss evaluation
and every optimiser step inside update_ppo / train_policy_* / train_value_function is a Python-level call with concrete
arrays: the observation rows a loss function receives are decoded to tags [episode, t, env], parameter contents are
digested to version ids (first appearance order, harness.envs.Recorder.versions).

Events (see spec/OnPolicyTrace.tla): reset, step (ScriptEnv), collect_begin, ds_start, ds_add, collect_end,
update_begin, loss, opt, update_end, end | error.

Run as a worker:  python -m harness.extras.x03_record <tier> <seed> <out.json>
"""
from __future__ import annotations

import contextlib
import json
import os
import sys

import numpy as np

SCRIPT_A = [(3, "term"), (1, "trunc"), (2, "trunc"), (4, "term"), (1, "term")]
SCRIPT_B = [(2, "trunc"), (3, "term"), (1, "term")]
SCRIPT_L = [(50, "term")]
SCRIPT_T = [(2, "trunc"), (3, "term"), (4, "term")]  # no one-step episode: a one-row batch makes mse_value_loss raise (shape () vs (1,))


def scenarios(tier, seed):
    s = seed % 1000 + 1
    scs = [
        dict(id="ppo:A", algo="ppo", script=SCRIPT_A, nenvs=2, nsteps=3, epochs=2, iterations=3, seed=s, logger=True),
        dict(id="a2c:A", algo="a2c", script=SCRIPT_A, nenvs=2, nsteps=3, pgs=1, vgs=2, budget=18, seed=s, autoreset="NEXT_STEP"),
        dict(id="reinforce:A", algo="reinforce", script=SCRIPT_A, minsamples=4, tae=False, pgs=1, vgs=2, budget=12, seed=s),
        dict(id="reinforce:T", algo="reinforce", script=SCRIPT_T, minsamples=5, tae=True, pgs=2, vgs=1, budget=6, seed=0),
        dict(id="actor_critic:B", algo="actor_critic", script=SCRIPT_B, minsamples=4, tae=False, pgs=1, vgs=2, budget=9, seed=s),
    ]
    if tier == "thorough":
        scs += [
            dict(id="ppo:one_env", algo="ppo", script=SCRIPT_B, nenvs=1, nsteps=4, epochs=3, iterations=2, seed=0, logger=False),
            dict(id="ppo:E1", algo="ppo", script=SCRIPT_L, nenvs=2, nsteps=2, epochs=1, iterations=4, seed=s + 3, logger=True),
            dict(id="a2c:same_step", algo="a2c", script=SCRIPT_B, nenvs=2, nsteps=2, pgs=2, vgs=1, budget=12, seed=0, autoreset="SAME_STEP"),
            dict(id="a2c:L", algo="a2c", script=SCRIPT_L, nenvs=2, nsteps=4, pgs=1, vgs=1, budget=13, seed=s + 1, autoreset="NEXT_STEP"),
            dict(id="reinforce:nobaseline", algo="reinforce", script=SCRIPT_A, minsamples=3, tae=False, pgs=1, vgs=0, budget=8, seed=s, baseline=False),
            dict(id="reinforce_gauss:B", algo="reinforce_gauss", script=SCRIPT_B, minsamples=4, tae=False, pgs=1, vgs=1, budget=10, seed=s + 2),
            dict(id="reinforce:exact", algo="reinforce", script=SCRIPT_B, minsamples=3, tae=False, pgs=1, vgs=1, budget=6, seed=s),
            dict(id="actor_critic:T", algo="actor_critic", script=SCRIPT_T, minsamples=9, tae=True, pgs=1, vgs=1, budget=7, seed=s + 5),
            dict(id="ppo:three_envs", algo="ppo", script=SCRIPT_A, nenvs=3, nsteps=2, epochs=2, iterations=2, seed=s + 9, logger=True),
            dict(id="a2c:three_envs", algo="a2c", script=SCRIPT_A, nenvs=3, nsteps=2, pgs=3, vgs=1, budget=13, seed=s + 9, autoreset="NEXT_STEP"),
            dict(id="actor_critic:L", algo="actor_critic", script=[(7, "trunc"), (2, "term")], minsamples=3, tae=False, pgs=2, vgs=2, budget=10, seed=0),
        ]
    return scs


def phase(name, kinds, epochs):
    return dict(name=name, kinds=list(kinds), epochs=int(epochs), mb=0, shuffle=False)


def model_cfg(sc):
    """What the routine's documented parameters say about this run (configuration record of OnPolicy.tla)."""
    base = dict(algo="", layout="", nenvs=1, nsteps=0, minsamples=0, tae=False, stop="budget", iterations=0, budget=0, phases=[], autoreset_row=False)
    a = sc["algo"]
    if a == "ppo":
        # train_ppo: `iterations` "Number of training iterations", `epochs` "Number of training epochs per iteration";
        # collect_trajectories: batch_size vector steps of num_envs environments; update_ppo: FullBatch
        base.update(algo="ppo", layout="envmajor", nenvs=sc["nenvs"], nsteps=sc["nsteps"], stop="iterations", iterations=sc["iterations"],
                    phases=[phase("ppo", ["policy", "value"], sc["epochs"])])
    elif a == "a2c":
        base.update(algo="a2c", layout="timemajor", nenvs=sc["nenvs"], nsteps=sc["nsteps"], budget=sc["budget"],
                    phases=[phase("policy", ["policy"], sc["pgs"]), phase("value", ["value"], sc["vgs"])], autoreset_row=sc["autoreset"] == "NEXT_STEP")
    else:
        ph = [phase("policy", ["policy"], sc["pgs"])]
        if sc.get("baseline", True):
            ph.append(phase("value", ["value"], sc["vgs"]))
        base.update(algo="pg", layout="episodes", minsamples=sc["minsamples"], tae=bool(sc["tae"]), budget=sc["budget"], phases=ph)
    return base


# ------------------------------------------------------------------ recording helpers
class Log:
    """Event sink on top of harness.envs.Recorder (ScriptEnv reports reset / step into it)."""

    def __init__(self):
        from ..envs import Recorder

        self.rec = Recorder()
        self.mods = {}

    def watch(self, policy, value):
        """Every event carries `ver` = version ids of the parameter CONTENT of the live policy / value function
        (Recorder.snapshot; the helper _nets also watches optimiser state, which is not wanted here)."""
        from ..digests import param_digest

        self.mods = {"policy": policy, "value": value}
        self.rec.watch.clear()
        self.rec.watch["policy"] = lambda: param_digest(policy)
        self.rec.watch["value"] = (lambda: param_digest(value)) if value is not None else (lambda: "none")

    def vid(self, name, module):
        """Version id of a module's parameter content (same numbering as Recorder.snapshot: order of first appearance)."""
        from ..digests import param_digest

        ids = self.rec.versions.setdefault(name, {})
        d = param_digest(module) if module is not None else "none"
        if d not in ids:
            ids[d] = len(ids)
        return ids[d]

    def emit(self, ev, versions=True, **f):
        if versions:
            self.rec.emit(ev, **f)
        else:  # inside a differentiated function the live modules may hold tracers
            w, self.rec.watch = self.rec.watch, {}
            try:
                self.rec.emit(ev, **f)
            finally:
                self.rec.watch = w

    def given(self, policy, value=None):
        """Version ids of the network objects a call was GIVEN (not of the live ones)."""
        d = dict(pv=self.vid("policy", policy))
        if value is not None:
            d["vv"] = self.vid("value", value)
        return d


def tags(obs):
    from ..envs import decode_obs

    a = np.asarray(obs)
    if a.ndim == 1:
        a = a.reshape(1, -1)
    a = a.reshape(-1, a.shape[-1])
    return [decode_obs(r) for r in a]


def recording_optimizer(log, kind, module, lr=0.01):
    import optax
    from flax import nnx

    class RecordingOptimizer(nnx.Optimizer):
        def update(self, model, grads, **kw):
            before = log.vid(kind, model)
            out = super().update(model, grads, **kw)
            log.emit("opt", kind=kind, before=before, after=log.vid(kind, model))
            return out

    return RecordingOptimizer(module, optax.adam(lr), wrt=nnx.Param)


def steps_of(opt):
    return int(np.asarray(opt.step.value)) if opt is not None else 0


def update_wrapper(log, real, kind, n_of, rows_of, opts, ne_of=None):
    """Wrap an update routine (update_ppo, train_policy_*, train_value_function)."""

    def wrapped(*a, **k):
        p0, v0 = steps_of(opts[0]), steps_of(opts[1])
        log.emit("update_begin", kind=kind, n=int(n_of(a, k)), ne=int(ne_of(a, k)) if ne_of else 0, rows=tags(rows_of(a, k)))
        out = real(*a, **k)
        log.emit("update_end", kind=kind, dp=steps_of(opts[0]) - p0, dv=steps_of(opts[1]) - v0)
        return out

    return wrapped


def loss_wrapper(log, real, kind, rows_of):
    def wrapped(*a, **k):
        log.emit("loss", versions=False, kind=kind, rows=tags(rows_of(a, k)))
        return real(*a, **k)

    return wrapped


def _arg(a, k, i, name):
    return k[name] if name in k else a[i]


def _finish(log, sc, err):
    if err:
        log.emit("error", msg=str(err)[:300])
    else:
        log.emit("end")
    return {"id": sc["id"], "cfg": model_cfg(sc), "events": log.rec.events, "scenario": {k: v for k, v in sc.items() if k != "script"}}


# ------------------------------------------------------------------ PPO
def run_ppo(sc):
    import jax
    from rl_blox.algorithm import ppo as m

    from ..algos import guarded, interpose
    from ..algos_onpolicy import _nets, _vector_env
    from ..probes import recording_logger

    log = Log()
    envs, subs = _vector_env(log.rec, sc, "SAME_STEP", sc["nenvs"], discrete_actions=3)
    policy, _, vf, _ = _nets(log.rec, sc, True, 3)
    log.watch(policy, vf)
    popt, vopt = recording_optimizer(log, "policy", policy), recording_optimizer(log, "value", vf)
    logger = recording_logger(log.rec) if sc.get("logger") else None
    real_collect = m.collect_trajectories

    def collect(*a, **k):
        log.emit("collect_begin", n=int(_arg(a, k, 4, "batch_size")), tae=False, **log.given(_arg(a, k, 1, "actor"), _arg(a, k, 2, "critic")))
        out = real_collect(*a, **k)
        log.emit("collect_end", rows=tags(out.observation), eps=[])
        return out

    names = dict(
        collect_trajectories=collect,
        update_ppo=update_wrapper(log, m.update_ppo, "ppo", lambda a, k: _arg(a, k, 9, "epochs"), lambda a, k: _arg(a, k, 4, "observation"), (popt, vopt),
                                  ne_of=lambda a, k: _arg(a, k, 10, "n_envs")),
        ppo_loss=loss_wrapper(log, m.ppo_loss, "ppo", lambda a, k: _arg(a, k, 3, "observations")),
    )
    with interpose(m, **names), jax.disable_jit():
        res, err = guarded(lambda: m.train_ppo(envs, policy, vf, popt, vopt, iterations=sc["iterations"], epochs=sc["epochs"], batch_size=sc["nsteps"],
                                               seed=sc["seed"], logger=logger, progress_bar=False))
    return _finish(log, sc, err)


# ------------------------------------------------------------------ A2C
def run_a2c(sc):
    import gymnasium as gym
    import jax
    from rl_blox.algorithm import a2c as m
    from rl_blox.algorithm import reinforce as mr

    from ..algos import guarded, interpose
    from ..algos_onpolicy import _nets, _vector_env
    from ..probes import recording_logger

    log = Log()
    venv, subs = _vector_env(log.rec, sc, sc["autoreset"], sc["nenvs"], discrete_actions=3)
    envs = gym.wrappers.vector.RecordEpisodeStatistics(venv)
    policy, _, vf, _ = _nets(log.rec, sc, True, 3)
    log.watch(policy, vf)
    popt, vopt = recording_optimizer(log, "policy", policy), recording_optimizer(log, "value", vf)
    real_collect = m.collect_trajectories

    def collect(*a, **k):
        log.emit("collect_begin", n=int(_arg(a, k, 4, "steps_per_update")), tae=False, **log.given(_arg(a, k, 1, "policy")))
        out = real_collect(*a, **k)
        buf = out[0]
        kept = np.asarray(buf.buffer["obs"])[: len(buf)]  # (T, N, obs): serialised row-major, i.e. as the array is stored
        log.emit("collect_end", rows=tags(kept), eps=[])
        return out

    names = dict(
        collect_trajectories=collect,
        train_policy_a2c=update_wrapper(log, m.train_policy_a2c, "policy", lambda a, k: _arg(a, k, 2, "policy_gradient_steps"),
                                        lambda a, k: _arg(a, k, 3, "observations"), (popt, None)),
        train_value_function=update_wrapper(log, m.train_value_function, "value", lambda a, k: _arg(a, k, 2, "value_gradient_steps"),
                                            lambda a, k: _arg(a, k, 3, "observations"), (None, vopt)),
        a2c_policy_gradient=loss_wrapper(log, m.a2c_policy_gradient, "policy", lambda a, k: _arg(a, k, 1, "observations")),
    )
    value_loss = loss_wrapper(log, mr.mse_value_loss, "value", lambda a, k: _arg(a, k, 0, "observations"))
    with interpose(m, **names), interpose(mr, mse_value_loss=value_loss), jax.disable_jit():
        res, err = guarded(lambda: m.train_a2c(envs, policy, popt, vf, vopt, seed=sc["seed"], policy_gradient_steps=sc["pgs"], value_gradient_steps=sc["vgs"],
                                               total_timesteps=sc["budget"], gamma=0.5, gae_lambda=0.5, steps_per_update=sc["nsteps"], log_frequency=None,
                                               logger=recording_logger(log.rec), progress_bar=False))
    return _finish(log, sc, err)


# ------------------------------------------------------------------ REINFORCE / actor-critic
def recording_dataset(log, base):
    class RecordingEpisodeDataset(base):
        def start_episode(self):
            out = super().start_episode()
            log.emit("ds_start")
            return out

        def add_sample(self, observation, action, next_observation, reward):
            out = super().add_sample(observation, action, next_observation, reward)
            log.emit("ds_add", obs=tags(observation)[0])
            return out

    RecordingEpisodeDataset.__name__ = RecordingEpisodeDataset.__qualname__ = "EpisodeDataset"
    return RecordingEpisodeDataset


def run_pg(sc):
    import jax
    from rl_blox.algorithm import actor_critic as mac
    from rl_blox.algorithm import reinforce as mr

    from ..algos import guarded, interpose
    from ..algos_onpolicy import _nets
    from ..envs import ScriptEnv
    from ..probes import recording_logger

    log = Log()
    discrete = sc["algo"] != "reinforce_gauss"
    if discrete:
        env = ScriptEnv(log.rec, sc["script"], discrete_actions=3)
        na = 3
    else:
        env = ScriptEnv(log.rec, sc["script"], low=(-1.0, -0.5), high=(2.0, 0.25))
        na = 2
    policy, _, vf, _ = _nets(log.rec, sc, discrete, na)
    baseline = sc.get("baseline", True)
    log.watch(policy, vf if baseline else None)
    popt = recording_optimizer(log, "policy", policy)
    vopt = recording_optimizer(log, "value", vf) if baseline else None
    ac = sc["algo"] == "actor_critic"
    m = mac if ac else mr
    real_sample = m.sample_trajectories

    def sample_trajectories(*a, **k):
        log.emit("collect_begin", n=int(_arg(a, k, 5, "total_steps")), tae=bool(_arg(a, k, 4, "train_after_episode")), **log.given(_arg(a, k, 1, "policy")))
        ds = real_sample(*a, **k)
        eps = [[tags(o)[0] for (o, _, _, _) in e] for e in ds.episodes]
        log.emit("collect_end", rows=[t for e in eps for t in e], eps=eps)
        return ds

    names = dict(sample_trajectories=sample_trajectories,
                 train_value_function=update_wrapper(log, m.train_value_function, "value", lambda a, k: _arg(a, k, 2, "value_gradient_steps"),
                                                     lambda a, k: _arg(a, k, 3, "observations"), (None, vopt)))
    if ac:
        names.update(
            train_policy_actor_critic=update_wrapper(log, m.train_policy_actor_critic, "policy", lambda a, k: _arg(a, k, 2, "policy_gradient_steps"),
                                                     lambda a, k: _arg(a, k, 4, "observations"), (popt, None)),
            actor_critic_policy_gradient=loss_wrapper(log, m.actor_critic_policy_gradient, "policy", lambda a, k: _arg(a, k, 2, "observations")))
    else:
        names.update(
            train_policy_reinforce=update_wrapper(log, m.train_policy_reinforce, "policy", lambda a, k: _arg(a, k, 2, "policy_gradient_steps"),
                                                  lambda a, k: _arg(a, k, 4, "observations"), (popt, None)),
            reinforce_gradient=loss_wrapper(log, m.reinforce_gradient, "policy", lambda a, k: _arg(a, k, 2, "observations")))
    shared = dict(EpisodeDataset=recording_dataset(log, mr.EpisodeDataset), mse_value_loss=loss_wrapper(log, mr.mse_value_loss, "value", lambda a, k: _arg(a, k, 0, "observations")))
    if not ac:
        names.update(shared)
        shared = {}
    kwargs = dict(seed=sc["seed"], policy_gradient_steps=sc["pgs"], total_timesteps=sc["budget"], gamma=0.5, steps_per_update=sc["minsamples"],
                  train_after_episode=bool(sc["tae"]), logger=recording_logger(log.rec), progress_bar=False)
    if baseline:
        kwargs["value_gradient_steps"] = sc["vgs"]
    train = m.train_ac if ac else m.train_reinforce
    with interpose(m, **names), (interpose(mr, **shared) if shared else contextlib.nullcontext()), jax.disable_jit():
        if baseline:
            res, err = guarded(lambda: train(env, policy, popt, vf, vopt, **kwargs))
        else:
            res, err = guarded(lambda: train(env, policy, popt, **kwargs))
    return _finish(log, sc, err)


def run(sc):
    if sc["algo"] == "ppo":
        return run_ppo(sc)
    if sc["algo"] == "a2c":
        return run_a2c(sc)
    return run_pg(sc)


def main(argv):
    tier, seed, out = argv[1], int(argv[2]), argv[3]
    only = set(argv[4].split(",")) if len(argv) > 4 and argv[4] else None
    os.environ.setdefault("JAX_PLATFORMS", "cpu")
    traces = []
    import time

    for sc in scenarios(tier, seed):
        if only and sc["id"] not in only:
            continue
        t0 = time.time()
        tr = run(sc)
        tr["wall_s"] = round(time.time() - t0, 2)
        traces.append(tr)
    with open(out + ".tmp", "w") as f:
        json.dump(traces, f, default=str)
    os.replace(out + ".tmp", out)
    return 0


if __name__ == "__main__":
    sys.exit(main(sys.argv))
