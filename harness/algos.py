"""Adapters: run each rl_blox training routine on a scripted, recording
environment with recording buffer / logger / policy probes and return the
event trace for spec/LoopTrace.tla.

Every adapter is `run_<name>(sc) -> trace` with sc a scenario dict:
  script       [(length, "term"|"trunc"|"both"), ...]   episode script (cycled; "both": the last step returns both flags)
  budget       total_timesteps
  start        global_step at entry (where the routine has such a parameter)
  eplimit      total_episodes (0 = none)
  warm         learning_starts
  batch        batch_size
  cap          replay-buffer capacity
  seed         seed
  low, high    action bounds (continuous)
  expl_noise   exploration noise level (routines with such a parameter; 0 in one scenario)
  gsteps       gradient steps per environment step (routines with such a parameter)
and trace = {"id", "cfg", "events", "final": {component: digest}, "returned": ...}.
The registry ROUTINES maps a name to (function, default scenario overrides).
"""
from __future__ import annotations

import contextlib
import os

import numpy as np

from .envs import Recorder, RunAway, ScriptEnv, decode_obs, qrow_fields

ROUTINES = {}


def routine(name, **defaults):
    def deco(fn):
        ROUTINES[name] = (fn, defaults)
        return fn

    return deco


@contextlib.contextmanager
def interpose(module, **names):
    """Temporarily replace module-level names (looked up at call time by the routine)."""
    old = {k: getattr(module, k) for k in names}
    try:
        for k, v in names.items():
            setattr(module, k, v)
        yield old
    finally:
        for k, v in old.items():
            setattr(module, k, v)


def base_cfg(name, sc, **over):
    cfg = dict(routine=name, nenvs=1, budget=sc["budget"], start=sc.get("start", 0), eplimit=sc.get("eplimit", 0))
    cfg.update(over)
    return cfg


def prefill(buf, base_cls, sc, action):
    """Scenario P: experience of an earlier run, written through the base class (not recorded)."""
    for i in range(int(sc.get("prefill", 0))):
        base_cls.add_sample(buf, observation=np.asarray([900 + i, 0, 0], dtype=np.float32), action=action, reward=0.25,
                            next_observation=np.asarray([900 + i, 1, 0], dtype=np.float32), termination=False)


def buffer_rows(buf):
    """Decoded contents of a (uniform / LAP / PER) ring buffer: one record per valid slot."""
    from .probes import _act

    rows = []
    b = buf.buffer
    if not all(k in b for k in ("observation", "action", "reward", "next_observation", "termination")):
        return None
    for i in range(int(buf.current_len)):
        rows.append({"obs": decode_obs(b["observation"][i]), "act": str(_act(b["action"][i])), "r4": int(round(float(b["reward"][i]) * 4)),
                     "next": decode_obs(b["next_observation"][i]), "term": bool(b["termination"][i])})
    return rows


def result_aliases(res):
    """Pairs of fields of a routine's result tuple that are the same module object or share nnx.Variable objects
    (e.g. a returned target that is the online network)."""
    from flax import nnx

    fields = getattr(res, "_fields", None)
    if not fields:
        return []
    mods = []
    for f in fields:
        v = getattr(res, f)
        if isinstance(v, nnx.Module) and not isinstance(v, nnx.Optimizer):
            try:
                ids = {id(x) for _, x in nnx.iter_graph(v) if isinstance(x, nnx.Variable)}
            except Exception:
                ids = set()
            mods.append((f, v, ids))
    out = []
    for i in range(len(mods)):
        for j in range(i + 1, len(mods)):
            a, b = mods[i], mods[j]
            if a[1] is b[1] or (a[2] and b[2] and a[2] <= b[2]) or (a[2] and b[2] and b[2] <= a[2]):
                out.append(f"{a[0]}={b[0]}")
    return out


def finish(rec, name, sc, cfg, returned=None, final=None, error=None, buffer=None, result=None):
    if result is not None and error is None:
        # components handed back to the caller for continued training must be distinct objects
        rec.emit("result", aliased=result_aliases(result))
    if buffer is not None and error is None:
        rows = buffer_rows(buffer)
        if rows is not None:
            # what the routine keeps at the end must be the most recent kept transitions (C01: "each transition it keeps")
            rec.emit("final_buffer", rows=rows, n=int(buffer.buffer_size))
    if returned is not None:
        rec.emit("ret", n=int(returned))
    tr = {"id": f"{name}:{sc.get('label', '')}", "cfg": cfg, "events": rec.events, "final": final or {}, "scenario": sc}
    if error:
        tr["error"] = error
    return tr


def guarded(fn):
    """Call the routine; a RunAway abort or an exception of the routine is recorded, not raised."""
    try:
        return fn(), None
    except RunAway as e:
        return None, f"RunAway: {e}"
    except Exception as e:  # the routine under test raised
        import traceback

        tb = traceback.extract_tb(e.__traceback__)
        site = next((f"{t.filename.split('/')[-1]}:{t.lineno}" for t in reversed(tb) if "/rl_blox/" in t.filename), "?")
        return None, f"{type(e).__name__} at {site}: {str(e)[:200]}"


def final_digests(**mods):
    from .digests import module_digest

    return {k: module_digest(v) for k, v in mods.items() if v is not None}


# ------------------------------------------------------------------ DQN family
def _dqn_common(name, sc, mod, train, extra_kwargs, uses_target, per=False, has_limit=True, has_warm=True):
    import jax
    import optax
    from flax import nnx
    from rl_blox.blox.function_approximator.mlp import MLP
    from rl_blox.blox import replay_buffer as rb

    from .probes import recording_buffer, recording_logger

    rec = Recorder()
    env = ScriptEnv(rec, sc["script"], discrete_actions=3)
    q_net = MLP(3, 3, [8], "relu", nnx.Rngs(sc["seed"]))
    opt = nnx.Optimizer(q_net, optax.adam(0.01), wrt=nnx.Param)
    base = rb.PrioritizedReplayBuffer if per else rb.ReplayBuffer
    buf = recording_buffer(base, rec, sc["cap"], discrete_actions=True)
    prefill(buf, base, sc, 1)
    logger = recording_logger(rec)
    rec.watch_module("q", q_net)
    kwargs = dict(batch_size=sc["batch"], total_timesteps=sc["budget"], gamma=0.5, seed=sc["seed"], logger=logger, global_step=sc.get("start", 0), progress_bar=False)
    tgt = None
    if uses_target:
        tgt = nnx.clone(q_net)
        rec.watch_module("q_target", tgt)
        rec.watch_law("q_target", tgt, q_net, 1.0)
        # scenario B: an update frequency that does not divide the target frequency (2 vs 3)
        uf = sc.get("update_frequency", 2 if sc.get("label") in ("B", "E") else 1)
        kwargs.update(q_target_net=tgt, update_frequency=uf, target_update_frequency=sc.get("target_update_frequency", 3))
    if has_limit and sc.get("eplimit"):
        kwargs["total_episodes"] = sc["eplimit"]
    if has_warm:
        kwargs["learning_starts"] = sc["warm"]
    kwargs.update(extra_kwargs)
    real_greedy = mod.greedy_policy
    # executed actions (C13 ExecutedActionGreedy): every step event carries the action values of the LIVE online network at
    # the observation the environment returned last, evaluated when the environment receives the action (same eager
    # evaluation as the greedy probe below)
    env.exec_probe = lambda obs: qrow_fields(np.asarray(q_net(np.asarray([obs], dtype=np.float32)))[0])

    def greedy(q, obs):
        a = real_greedy(q, obs)
        qv = np.asarray(q(np.asarray([obs], dtype=np.float32)))[0]
        from .digests import module_digest

        # "current estimate": the network evaluated must be (content-equal to) the routine's live online network
        cur = (q is q_net) or module_digest(q) == module_digest(q_net)
        rec.emit("policy", obs=decode_obs(obs), chosen=int(a), argmax=[int(i) for i in np.flatnonzero(qv == qv.max())], current=bool(cur))
        return a

    eps = sc.get("epsilon")  # None: the routine's own schedule; else constant schedule
    names = dict(greedy_policy=greedy)
    if eps is not None and hasattr(mod, "linear_schedule"):
        import jax.numpy as jnp

        names["linear_schedule"] = lambda total, *a, **k: jnp.ones(int(total)) * eps
    sw = sc.get("eps_switch", -1)
    if sw >= 0 and hasattr(mod, "linear_schedule"):
        import jax.numpy as jnp

        # scheduled exploration: probability 1 before step index sw, 0 from it on
        names["linear_schedule"] = lambda total, *a, **k: (jnp.arange(int(total)) < sw).astype(jnp.float32)
    # update structure: DQN trains at every step with step > batch_size; the others additionally need
    # step >= learning_starts, train when step % update_frequency == 0 and hard-copy the target when
    # step % target_update_frequency == 0 (the copy needs no batch)
    first = max(sc["batch"] + 1, sc["warm"] if has_warm else 0)
    if uses_target:
        _rules = [dict(comps=["q"], counter="step", mod=kwargs["update_frequency"], rem=0, after=first),
                  dict(comps=["q_target"], counter="step", mod=kwargs["target_update_frequency"], rem=0, after=first, needs_sample=False)]
    else:
        _rules = [dict(comps=["q"], counter="always", after=first)]
    with interpose(mod, **names):
        res, err = guarded(lambda: train(q_net, env, buf, opt, **kwargs))
    # documented warm-up: DQN trains once the buffer holds more than one batch; the others document learning_starts
    # documented warm-up: Nature-DQN / DDQN / PER document "learning starts after learning_starts random steps";
    # DQN has no such parameter (it trains once more than one batch is stored - not judged)
    cfg = base_cfg(name, sc, warmlearn=sc["warm"] if has_warm else -1, warmact=sc["warm"] if has_warm else -1, explore_only_in_warmup=False,
                   policy_probe=True, ret_applicable=True, trained=["q"], targets=["q_target"] if uses_target else [], eplimit=sc.get("eplimit", 0) if has_limit else 0,
                   epsilon4=-1 if eps is None else int(eps * 4), eps_switch=sw if hasattr(mod, "linear_schedule") else -1, rules=_rules, pairs=[["q_target", "q"]] if uses_target else [],
                   hard_pairs=[["q_target", "q"]] if uses_target else [])
    ret = None if res is None else getattr(res, "global_step", None)
    return finish(rec, name, sc, cfg, returned=ret, final=final_digests(q=q_net, q_target=tgt), error=err, buffer=buf, result=res)


@routine("dqn", warmlearn_doc=-1)
def run_dqn(sc):
    from rl_blox.algorithm import dqn

    return _dqn_common("dqn", sc, dqn, dqn.train_dqn, {}, uses_target=False, has_limit=False, has_warm=False)


@routine("nature_dqn")
def run_nature_dqn(sc):
    from rl_blox.algorithm import nature_dqn as m

    return _dqn_common("nature_dqn", sc, m, m.train_nature_dqn, {}, uses_target=True)


@routine("ddqn")
def run_ddqn(sc):
    from rl_blox.algorithm import ddqn as m

    return _dqn_common("ddqn", sc, m, m.train_ddqn, {}, uses_target=True)


@routine("ddqn_per")
def run_ddqn_per(sc):
    from rl_blox.algorithm import per as m

    return _dqn_common("ddqn_per", sc, m, m.train_ddqn_per, {}, uses_target=True, per=True)


# ------------------------------------------------------------------ continuous control
_PROBE = {"fn": None}
# Scenario parameters are pairwise different (and different from gamma = 1/2, tau = 1/4), so that a parameter handed to the
# wrong place shows: exploration noise 3/8 (0 in one scenario: `expl_noise`), target policy noise 1/8, noise clip 5/8.
EXPL_NOISE, TARGET_POLICY_NOISE, NOISE_CLIP = 0.375, 0.125, 0.625


def expl_noise(sc):
    return float(sc.get("expl_noise", EXPL_NOISE))


def live_action_probe(get_policy, base_call):
    """Execution probe of a ScriptEnv (envs.ScriptEnv.exec_probe) for routines that act with a deterministic policy plus
    exploration noise: fields `has_pol`, `pol` of the step event = the action of the LIVE policy object (get_policy(); None = not built yet) at the observation
    the environment returned last (float32 ordinals), evaluated when the environment receives the action.  `base_call` is
    the un-probed __call__ of the policy's class (no `policy` event is emitted); the evaluation is jitted like the
    routine's sampler (an eager evaluation differs from compiled code in the last bit)."""
    from flax import nnx

    from .exact import ord32

    ev = nnx.jit(lambda p, o: base_call(p, o))

    def probe(obs):
        import jax.numpy as jnp

        p = get_policy()
        try:
            if p is None:
                return {"has_pol": False}
            a = np.asarray(ev(p, jnp.asarray(np.asarray(obs, dtype=np.float32))), dtype=np.float32).reshape(-1)
        except Exception as e:  # the policy cannot be evaluated: nothing to judge (never a verdict)
            return {"has_pol": False, "pol_note": f"unreadable:{type(e).__name__}"}
        if not bool(np.all(np.isfinite(a))):
            return {"has_pol": False, "pol_note": "non-finite"}
        return {"has_pol": True, "pol": [ord32(x) for x in a]}

    return probe


def _probed_tanh_policy():
    from rl_blox.blox.function_approximator.policy_head import DeterministicTanhPolicy

    class ProbedTanhPolicy(DeterministicTanhPolicy):
        def __call__(self, observation):
            if _PROBE["fn"] is not None:
                _PROBE["fn"](observation)
            return super().__call__(observation)

    return ProbedTanhPolicy


def _box_env(rec, sc):
    return ScriptEnv(rec, sc["script"], low=sc.get("low", (-1.0, -0.5)), high=sc.get("high", (2.0, 0.25)),
                     act_dtype=np.float64 if sc.get("act_dtype") == "float64" else np.float32)


def _ddpg_like(name, sc, train, double_q, extra, lap=False):
    import optax
    from flax import nnx
    from rl_blox.blox import replay_buffer as rb
    from rl_blox.blox.double_qnet import ContinuousClippedDoubleQNet
    from rl_blox.blox.function_approximator.mlp import MLP

    from .probes import obs_probe, recording_buffer, recording_logger

    rec = Recorder()
    env = _box_env(rec, sc)
    na = env.action_space.shape[0]
    policy = _probed_tanh_policy()(MLP(3, na, [8], "relu", nnx.Rngs(sc["seed"])), env.action_space)
    popt = nnx.Optimizer(policy, optax.adam(0.01), wrt=nnx.Param)
    if double_q:
        q = ContinuousClippedDoubleQNet(MLP(3 + na, 1, [8], "relu", nnx.Rngs(sc["seed"] + 1)), MLP(3 + na, 1, [8], "relu", nnx.Rngs(sc["seed"] + 2)))
    else:
        q = MLP(3 + na, 1, [8], "relu", nnx.Rngs(sc["seed"] + 1))
    qopt = nnx.Optimizer(q, optax.adam(0.01), wrt=nnx.Param)
    ptgt, qtgt = nnx.clone(policy), nnx.clone(q)
    buf = recording_buffer(rb.LAP if lap else rb.ReplayBuffer, rec, sc["cap"])
    # scenario P: the buffer handed in already holds experience of an earlier run (written through the base class,
    # not recorded) while the step count starts at 0 - the documented warm-up counts steps, not stored rows
    prefill(buf, rb.LAP if lap else rb.ReplayBuffer, sc, np.zeros(na, dtype=np.float32))
    logger = recording_logger(rec)
    # scenario T: a continued run that hands in only ONE of the two optional targets (each is documented on its own as
    # "only has to be set if we want to continue training from an old state"); the given target differs from the live
    # network (every float leaf moved by 1/8), is watched and must follow the target rules; the other one is the
    # routine's own copy and not observable
    given = sc.get("given_targets", "both")
    tnames = [t for t in ("policy_target", "q_target") if given in ("both", t.split("_")[0])]
    if given != "both":
        import jax
        import jax.numpy as jnp

        for t in (ptgt, qtgt):
            st = nnx.state(t)
            nnx.update(t, jax.tree.map(lambda l: l + 0.125 if jnp.issubdtype(jnp.asarray(l).dtype, jnp.floating) else l, st))
    for k, v in dict(policy=policy, q=q, policy_target=ptgt, q_target=qtgt).items():
        if k in ("policy", "q") or k in tnames:
            rec.watch_module(k, v)
    if "policy_target" in tnames:
        rec.watch_law("policy_target", ptgt, policy, 0.25)
    if "q_target" in tnames:
        rec.watch_law("q_target", qtgt, q, 0.25)
    _PROBE["fn"] = obs_probe(rec)
    from rl_blox.blox.function_approximator.policy_head import DeterministicTanhPolicy

    env.exec_probe = live_action_probe(lambda: policy, DeterministicTanhPolicy.__call__)
    # every single target update follows tau = 1/4, also with several gradient steps per environment step (`gsteps`)
    kwargs = dict(seed=sc["seed"], total_timesteps=sc["budget"], gamma=0.5, tau=0.25, batch_size=sc["batch"], learning_starts=sc["warm"],
                  gradient_steps=int(sc.get("gsteps", 1)),
                  replay_buffer=buf, policy_target=ptgt if "policy_target" in tnames else None, q_target=qtgt if "q_target" in tnames else None,
                  logger=logger, global_step=sc.get("start", 0), progress_bar=False)
    if sc.get("eplimit") and name != "td3_lap":
        kwargs["total_episodes"] = sc["eplimit"]
    kwargs.update(extra)
    pd = extra.get("policy_delay", 1)
    if name == "ddpg":
        _rules = [dict(comps=["q", "policy", "policy_target", "q_target"], counter="always", after=sc["warm"])]
    else:  # TD3 / TD3+LAP: critic every gradient step, actor and both targets iff step % policy_delay == 0
        _rules = [dict(comps=["q"], counter="always", after=sc["warm"]),
                  dict(comps=["policy", "policy_target", "q_target"], counter="step", mod=pd, rem=0, after=sc["warm"])]
    for r_ in _rules:
        r_["comps"] = [c for c in r_["comps"] if c in ("policy", "q") or c in tnames]
    try:
        res, err = guarded(lambda: train(env, policy, popt, q, qopt, **kwargs))
    finally:
        import jax

        jax.effects_barrier()
        _PROBE["fn"] = None
    cfg = base_cfg(name, sc, warmlearn=sc["warm"], warmact=sc["warm"], explore_only_in_warmup=True, policy_probe=True, ret_applicable=True,
                   trained=["policy", "q"], targets=list(tnames), pairs=[[t, t.split("_")[0]] for t in tnames], ulpk=2, eplimit=sc.get("eplimit", 0) if name != "td3_lap" else 0,
                   rules=_rules, expl_noise8=int(round(8 * kwargs["exploration_noise"])), gsteps=kwargs["gradient_steps"])
    ret = None
    if res is not None:
        ret = getattr(res, "global_step", None)
        if ret is None:
            ret = getattr(res, "steps_trained", None)
    fin = dict(policy=policy, q=q)
    fin.update({t: m_ for t, m_ in (("policy_target", ptgt), ("q_target", qtgt)) if t in tnames})
    return finish(rec, name, sc, cfg, returned=ret, final=final_digests(**fin), error=err, buffer=buf, result=res)


@routine("ddpg")
def run_ddpg(sc):
    from rl_blox.algorithm import ddpg

    return _ddpg_like("ddpg", sc, ddpg.train_ddpg, False, dict(exploration_noise=expl_noise(sc)))


@routine("td3")
def run_td3(sc):
    from rl_blox.algorithm import td3

    return _ddpg_like("td3", sc, td3.train_td3, True, dict(policy_delay=sc.get("policy_delay", 2), exploration_noise=expl_noise(sc), noise_clip=NOISE_CLIP))


@routine("td3_lap")
def run_td3_lap(sc):
    from rl_blox.algorithm import td3_lap

    return _ddpg_like("td3_lap", sc, td3_lap.train_td3_lap, True,
                      dict(policy_delay=sc.get("policy_delay", 2), exploration_noise=expl_noise(sc), target_policy_noise=TARGET_POLICY_NOISE, noise_clip=NOISE_CLIP), lap=True)


# ------------------------------------------------------------------ scenarios
VALUE_BASED = {"dqn", "nature_dqn", "ddqn", "ddqn_per", "q_learning", "sarsa", "double_q_learning", "monte_carlo", "dynaq"}
PREFILLED = {"ddpg", "td3", "td3_lap", "sac", "td7", "dqn", "nature_dqn", "ddqn", "ddqn_per"}
TABULAR = {"q_learning", "sarsa", "double_q_learning", "monte_carlo", "dynaq"}
PARTIAL_TARGETS = {"ddpg", "td3", "td3_lap"}  # routines with two independently optional target arguments


def scenarios(tier, seed, routine=None):
    """Episode scripts incl. one-step episodes, truncation and termination, an episode boundary exactly at the
    warm-up boundary, capacities smaller than the run (wrap-around), start counts > 0, episode limits."""
    base = dict(seed=seed % 1000 + 1, batch=2, cap=7)
    scs = [
        # step kinds are complete in every scenario: continue, terminated, truncated and BOTH flags at once (scenario A:
        # once in the warm-up and once after it; B: a one-step episode; C: the episode that exhausts the episode limit)
        dict(base, label="A", script=[(3, "term"), (1, "trunc"), (2, "both"), (4, "term"), (1, "term")], budget=26, start=0, eplimit=0, warm=6),
        # scenario B runs with the boundary seed 0 (a falsy seed must still be a seed); more than one gradient step per
        # environment step where the routine has such a parameter (every single update follows the configured rule)
        dict(base, label="B", script=[(2, "trunc"), (3, "term"), (1, "both")], budget=17, start=3, eplimit=0, warm=5, seed=0, gsteps=2,
             # a different action box of the same shape and dtype than in scenario A (what one run derives from its
             # action space must not serve the next run in the process), active covariance update for CMA-ES
             low=(-0.5, 0.25), high=(0.75, 1.5), cma_active=True),
        # scenario C: the action space is declared with dtype float64 (continuous routines); exploration noise level 0
        # (the environment receives exactly the live policy's action after the warm-up)
        dict(base, label="C", script=[(4, "both"), (2, "trunc"), (3, "term")], budget=30, start=0, eplimit=4, warm=4, act_dtype="float64", expl_noise=0.0),
    ]
    if routine in VALUE_BASED:
        # exploration discipline (C13): epsilon interposed to 0 (always greedy after warm-up) and to 1 (never greedy)
        scs += [
            dict(base, label="E0", script=[(3, "term"), (2, "trunc"), (4, "term")], budget=18, start=0, eplimit=0, warm=3, epsilon=0.0),
            dict(base, label="E1", script=[(3, "term"), (2, "trunc")], budget=12, start=0, eplimit=0, warm=2, epsilon=1.0),
        ]
        if routine in TABULAR:
            # epsilon 0 on an environment with SELF-TRANSITIONS (every state is held for two steps) and negative rewards:
            # the update lowers the value of the action just tried, so the maximiser of the row the agent is still in
            # changes between two consecutive actions (C13 ExecutedActionGreedy: act on the CURRENT estimate)
            scs.append(dict(base, label="E0S", script=[(4, "term"), (2, "trunc"), (3, "term")], budget=18, start=0, eplimit=0, warm=3, epsilon=0.0,
                            stay=2, reward_scale=-1.0))
        if routine in ("dqn", "nature_dqn", "ddqn", "ddqn_per"):
            # scheduled exploration: epsilon 1 up to step 7, then 0
            scs.append(dict(base, label="ES", script=[(3, "term"), (2, "trunc"), (4, "term")], budget=16, start=0, eplimit=0, warm=3, eps_switch=7))
            # the same schedule on a run that is continued from step 4: the schedule is indexed by the global step
            scs.append(dict(base, label="ESR", script=[(3, "term"), (2, "trunc"), (4, "term")], budget=16, start=4, eplimit=0, warm=3, eps_switch=9))
    if routine in PREFILLED:
        # a buffer that already holds 6 rows is handed to a run that starts at step 0 with a warm-up of 5 steps
        scs.append(dict(base, label="P", script=[(3, "term"), (2, "trunc"), (4, "term")], budget=16, start=0, eplimit=0, warm=5, prefill=6))
    if routine == "active_mt":
        # many short episodes: the task selector leaves its initial rounds (3 baseline + 2 x 3 counted rounds) and makes
        # more than ten choices that depend on the D-UCB hyper-parameters of this call
        scs.append(dict(base, label="M", script=[(1, "term"), (2, "trunc"), (1, "both"), (1, "term")], budget=30, start=0, eplimit=0, warm=4))
    if routine in PARTIAL_TARGETS:
        scs.append(dict(base, label="T", script=[(3, "term"), (2, "trunc"), (4, "term")], budget=15, start=4, eplimit=0, warm=3,
                        given_targets="q" if routine != "td3_lap" else "policy"))
        if tier == "thorough":
            scs.append(dict(base, label="U", script=[(2, "trunc"), (5, "term")], budget=14, start=6, eplimit=0, warm=2,
                            given_targets="policy" if routine != "td3_lap" else "q", gsteps=2))
    if tier == "thorough":
        scs += [
            dict(base, label="D", script=[(1, "both"), (1, "trunc"), (5, "term")], budget=24, start=2, eplimit=5, warm=7, cap=50, gsteps=3),
            dict(base, label="E", script=[(6, "trunc"), (2, "both")], budget=21, start=0, eplimit=0, warm=8, seed=seed % 1000 + 7, expl_noise=0.0),
            # one long episode: the budget ends mid-episode and no episode ever ends
            dict(base, label="L", script=[(50, "term")], budget=13, start=0, eplimit=0, warm=4),
        ]
    return scs


def run(name, sc):
    fn, defaults = ROUTINES[name]
    s = dict(defaults)
    s.update(sc)
    os.environ.setdefault("JAX_PLATFORMS", "cpu")
    return fn(s)


# adapters of further routine families live in their own modules and register themselves
for _m in ("algos_offpolicy2", "algos_onpolicy", "algos_tabular", "algos_misc"):
    try:
        __import__(f"harness.{_m}")
    except ModuleNotFoundError as _e:
        if _m not in str(_e):
            raise
