"""Evidence writer (schema: /root/.vp/EVIDENCE.schema.json)."""
import json
import os

ROOT = os.path.dirname(os.path.dirname(os.path.abspath(__file__)))


def write(pid, *, tier, seed, level, coverage, wall_s, violations=0, assumptions=()):
    os.makedirs(os.path.join(ROOT, "evidence"), exist_ok=True)
    doc = {
        "property_id": pid,
        "tier": tier,
        "seed": int(seed),
        "level": level,
        "coverage": coverage,
        "assumptions": list(assumptions),
        "wall_s": round(float(wall_s), 2),
        "violations": int(violations),
    }
    path = os.path.join(ROOT, "evidence", f"{pid}.json")
    if pid.upper().startswith("X"):
        # specification growth beyond the listed properties: kept apart from the per-property evidence
        os.makedirs(os.path.join(ROOT, "evidence_extras"), exist_ok=True)
        path = os.path.join(ROOT, "evidence_extras", f"{pid}.json")
    if os.environ.get("VERIF_REPO_ROOT", "/repo") != "/repo":
        # development runs against a scratch copy of the repository (mutation experiments) must not overwrite the evidence
        os.makedirs(os.path.join(ROOT, "out", "scratch-evidence"), exist_ok=True)
        path = os.path.join(ROOT, "out", "scratch-evidence", f"{pid}.json")
    tmp = path + f".tmp{os.getpid()}"
    with open(tmp, "w") as f:
        json.dump(doc, f, indent=1, default=str)
    os.replace(tmp, path)
    return path
