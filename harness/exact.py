"""D2: exact rationals <-> floats.  JSON form of a rational is [num, den]."""
from fractions import Fraction

import numpy as np


def q(x) -> Fraction:
    """JSON [n, d] (or int) -> Fraction."""
    if isinstance(x, (list, tuple)):
        return Fraction(int(x[0]), int(x[1]))
    return Fraction(x)


def f(x) -> float:
    return float(q(x))


def is_exact32(x: Fraction) -> bool:
    """Representable exactly in float32?"""
    return Fraction(float(np.float32(float(x)))) == x


def of_float(v) -> Fraction:
    return Fraction(float(v))


def eq(v, x, ulps=0) -> bool:
    """Does float value v equal rational x (exactly, or within `ulps` float32 ulp)?"""
    if not np.isfinite(float(v)):
        return False  # NaN / inf never equals a rational: a verdict, not a harness failure
    fx = Fraction(float(v))
    if fx == q(x):
        return True
    if ulps:
        t = np.float32(float(q(x)))
        return abs(float(v) - float(t)) <= ulps * float(np.spacing(np.abs(t) if t != 0 else np.float32(1e-30)))
    return False


def ord32(v) -> int:
    """D4: order-preserving map float32 -> int (signed 32-bit range)."""
    b = int(np.float32(v).view(np.int32))
    return b if b >= 0 else -(b & 0x7FFFFFFF)
