"""Adapters for the second off-policy family: SAC, TD7 (without / with checkpoints) and MR.Q.

Reading of the three loops (line numbers of /repo/rl_blox/algorithm at the snapshot this was written against):

sac.py   train_sac    514-606  explore iff step < learning_starts, else policy.sample(obs) (un-batched, 520);
                               add_sample(termination=termination) 527; one gradient iteration per step >= learning_starts:
                               critic always (539), actor + entropy coefficient iff step % policy_delay == 0 (552,
                               policy_delay inner repetitions), q_target iff step % target_network_delay == 0 (577).
                               -> segment "add", counter "step".
td7.py   train_td7    730-837  same acting structure through DeterministicSALEPolicy(fixed_embedding, actor) created
                               INSIDE the routine (710); epoch = iteration counter (785); _train_step 871-969: embedding
                               and critic every iteration, actor iff epoch % policy_delay == 0 (947), actor_target,
                               critic_target, fixed_embedding_target, fixed_embedding iff epoch % target_delay == 0 (955-959).
                               With use_checkpoints the iterations of an assessment period are batched at episode ends
                               (755-784) and the checkpoint copies are written outside any iteration (768).
                               -> segment "sample", counter "iter".
mrq.py   train_mrq    617-729  epoch += 1 per step >= learning_starts (638); when epoch % target_delay == 0 the TARGETS ARE
                               COPIED FIRST (640-643), then reset_max_priority, an encoder batch is sampled and the encoder
                               trained (650-656); critic and policy every step (676-699).  Two sample events in a due step
                               and the target copy precedes them, so the per-iteration segment does not fit: segment "add",
                               counter "step" (epoch = step - learning_starts + 1 for every start value).

The jitted policy probes report to the recorder of the run that is CURRENT when the callback fires (not to the one
that was current at trace time): the probing classes are created once per process, so traces compiled for one run
are re-used by later runs in the same process (GaussianTanhPolicy.sample is jitted at class level).
"""
from __future__ import annotations

import os

import numpy as np

from .algos import NOISE_CLIP, TARGET_POLICY_NOISE, base_cfg, expl_noise, final_digests, finish, guarded, interpose, live_action_probe, prefill, routine
from .envs import Recorder, ScriptEnv, decode_obs

_CUR = {"rec": None, "created": None}
_CLS = {}
_BIG = 1 << 20  # modulus larger than any iteration count: "due exactly at iteration rem"


# ------------------------------------------------------------------ probes
def _host(o):
    r = _CUR["rec"]
    if r is not None:
        r.emit("policy", obs=decode_obs(np.asarray(o)))


def _probe(observation):
    """Inside jitted code: report the observation an acting policy is conditioned on (un-batched calls only)."""
    import jax

    if getattr(observation, "ndim", 1) == 1:
        jax.debug.callback(_host, observation, ordered=True)


def _probed(kind):
    if kind in _CLS:
        return _CLS[kind]
    if kind == "gaussian_tanh":
        from rl_blox.blox.function_approximator.policy_head import GaussianTanhPolicy

        class ProbedGaussianTanhPolicy(GaussianTanhPolicy):
            def __call__(self, observation):
                _probe(observation)
                return super().__call__(observation)

        _CLS[kind] = ProbedGaussianTanhPolicy
    elif kind == "sale":
        from rl_blox.blox.embedding.sale import DeterministicSALEPolicy

        class ProbedSALEPolicy(DeterministicSALEPolicy):
            def __init__(self, embedding, actor):
                super().__init__(embedding, actor)
                cb = _CUR["created"]
                if cb is not None:
                    cb(embedding, actor)
                cb = _CUR.get("created_policy")
                if cb is not None:
                    cb(self)

            def __call__(self, observation):
                _probe(observation)
                return super().__call__(observation)

        _CLS[kind] = ProbedSALEPolicy
    elif kind == "with_encoder":
        from rl_blox.blox.embedding.model_based_encoder import DeterministicPolicyWithEncoder

        class ProbedPolicyWithEncoder(DeterministicPolicyWithEncoder):
            def __call__(self, observation):
                _probe(observation)
                return super().__call__(observation)

        _CLS[kind] = ProbedPolicyWithEncoder
    return _CLS[kind]


# ------------------------------------------------------------------ cheap component digests
class _Watches:
    """Content digests over the nnx.Variable OBJECTS of a module, collected once.

    harness.digests.module_digest flattens the module graph on every call (nnx.state), which dominated the run time
    (7 watches x 400 events).  rl_blox updates modules in place (nnx.jit / Optimizer.update / nnx.update keep the
    Variable objects and replace their values), so the Variables can be collected once and only their values hashed.
    `lost()` re-collects at the end of the run and reports every module whose Variable objects are no longer the ones
    that were watched - then the trace is marked as a harness error instead of silently missing changes."""

    def __init__(self, rec):
        self.rec, self.items = rec, {}

    @staticmethod
    def _collect(module):
        from flax import nnx

        return [(repr(p), v) for p, v in nnx.iter_graph(module) if isinstance(v, nnx.Variable)]

    def add(self, name, module):
        import hashlib

        vs = self._collect(module)
        self.items[name] = (module, vs)
        if os.environ.get("VERIF_SLOW_WATCH"):  # reference digests (cross-check of this class: identical `changed` sequences)
            self.rec.watch_module(name, module)
            return

        def digest(vs=vs):
            h = hashlib.sha1()
            for p, v in vs:
                a = np.asarray(v.value)
                h.update(p.encode() + a.dtype.str.encode() + repr(a.shape).encode() + a.tobytes())
            return h.hexdigest()[:16]

        self.rec.watch_fn(name, digest)

    def lost(self):
        out = []
        for name, (module, vs) in self.items.items():
            now = self._collect(module)
            if len(now) != len(vs) or any(a[0] != b[0] or a[1] is not b[1] for a, b in zip(vs, now)):
                out.append(name)
        return out


def _close(w, err):
    bad = w.lost()
    if bad:
        return f"HARNESS: watched Variable objects were replaced in {bad}; " + (err or "")
    return err


def _box_env(rec, sc):
    # asymmetric, per-dimension different bounds
    return ScriptEnv(rec, sc["script"], low=sc.get("low", (-1.0, -0.5)), high=sc.get("high", (2.0, 0.25)),
                     act_dtype=np.float64 if sc.get("act_dtype") == "float64" else np.float32)  # coordinator: scenario C declares float64 actions


def _run(rec, call):
    """Run the routine with the probes bound to rec; flush ordered callbacks before the trace is closed."""
    import jax

    _CUR["rec"] = rec
    try:
        return guarded(call)
    finally:
        jax.effects_barrier()
        _CUR["rec"] = None
        _CUR["created"] = None
        _CUR["created_policy"] = None


def _limit(sc, kwargs):
    if sc.get("eplimit"):
        kwargs["total_episodes"] = sc["eplimit"]


# ------------------------------------------------------------------ SAC
@routine("sac")
def run_sac(sc):
    import optax
    from flax import nnx
    from rl_blox.algorithm import sac
    from rl_blox.blox import replay_buffer as rb
    from rl_blox.blox.double_qnet import ContinuousClippedDoubleQNet
    from rl_blox.blox.function_approximator.gaussian_mlp import GaussianMLP
    from rl_blox.blox.function_approximator.mlp import MLP

    from .probes import recording_buffer, recording_logger

    rec = Recorder()
    env = _box_env(rec, sc)
    na, seed, warm = env.action_space.shape[0], sc["seed"], sc["warm"]
    policy = _probed("gaussian_tanh")(GaussianMLP(False, 3, na, [8], "swish", nnx.Rngs(seed)), env.action_space)
    popt = nnx.Optimizer(policy, optax.adam(0.01), wrt=nnx.Param)
    q = ContinuousClippedDoubleQNet(MLP(3 + na, 1, [8], "relu", nnx.Rngs(seed + 1)), MLP(3 + na, 1, [8], "relu", nnx.Rngs(seed + 2)))
    qopt = nnx.Optimizer(q, optax.adam(0.01), wrt=nnx.Param)
    qtgt = nnx.clone(q)
    ent = sac.EntropyControl(env, 0.2, True, 0.01)
    buf = recording_buffer(rb.ReplayBuffer, rec, sc["cap"])
    prefill(buf, rb.ReplayBuffer, sc, np.zeros(na, dtype=np.float32))
    logger = recording_logger(rec)
    # names = the keys the routine hands to logger.record_epoch, so that the logger does not watch them twice
    w = _Watches(rec)
    for k, v in dict(policy=policy, q=q, q_target=qtgt, alpha=ent._alpha).items():
        w.add(k, v)
    rec.watch_law("q_target", qtgt, q, 0.25)  # coordinator: Polyak law at the call site (LoopTrace TargetLawInRun)
    pd, tnd = sc.get("policy_delay", 2), sc.get("target_network_delay", 3)
    kwargs = dict(seed=seed, total_timesteps=sc["budget"], gamma=0.5, tau=0.25, batch_size=sc["batch"], learning_starts=warm,
                  policy_delay=pd, target_network_delay=tnd, autotune=True, replay_buffer=buf, q_target=qtgt, entropy_control=ent,
                  logger=logger, global_step=sc.get("start", 0), progress_bar=False)
    _limit(sc, kwargs)
    res, err = _run(rec, lambda: sac.train_sac(env, policy, popt, q, qopt, **kwargs))
    rules = [dict(comps=["q"], counter="always", after=warm),
             dict(comps=["policy", "alpha"], counter="step", mod=pd, rem=0, after=warm),
             dict(comps=["q_target"], counter="step", mod=tnd, rem=0, after=warm)]
    # ulpk=2: the mean is tanh-scaled into the box; the sampler itself has no clip (policy_head.py GaussianTanhPolicy.sample)
    # coordinator: C10 names DDPG / TD3 / TD3+LAP / TD7 / MR.Q / PETS only - SAC's unclipped Gaussian sample is outside its scope
    cfg = base_cfg("sac", sc, warmlearn=warm, warmact=warm, explore_only_in_warmup=True, policy_probe=True, ret_applicable=True, ulpk=2, check_bounds=False,
                   trained=["policy", "q", "alpha"], targets=["q_target"], segment="add", rules=rules)
    ret = None if res is None else res.global_step
    return finish(rec, "sac", sc, cfg, returned=ret, final=final_digests(policy=policy, q=q, q_target=qtgt, alpha=ent._alpha), error=_close(w, err), buffer=buf, result=res)


# ------------------------------------------------------------------ TD7
_SALE_ROLES = [("fixed_embedding", None), ("fixed_embedding_target", None), ("fixed_embedding_checkpoint", "actor_checkpoint")]


def _td7(name, sc, use_checkpoints):
    import optax
    from flax import nnx
    from rl_blox.algorithm import td7
    from rl_blox.blox import replay_buffer as rb
    from rl_blox.blox.double_qnet import ContinuousClippedDoubleQNet
    from rl_blox.blox.embedding.sale import SALE, ActorSALE, CriticSALE
    from rl_blox.blox.function_approximator.mlp import MLP
    from rl_blox.blox.function_approximator.policy_head import DeterministicTanhPolicy

    from .probes import recording_buffer, recording_logger

    rec = Recorder()
    env = _box_env(rec, sc)
    na, seed, warm, start = env.action_space.shape[0], sc["seed"], sc["warm"], sc.get("start", 0)
    nz, nh = 4, 4  # embedding dimensions, first-layer encoding nodes
    rngs = nnx.Rngs(seed)
    embedding = SALE(MLP(3, nz, [4], "elu", rngs), MLP(nz + na, nz, [4], "elu", rngs))
    eopt = nnx.Optimizer(embedding, optax.adam(0.01), wrt=nnx.Param)
    actor = ActorSALE(DeterministicTanhPolicy(MLP(nh + nz, na, [8], "relu", rngs), env.action_space), 3, nh, rngs)
    aopt = nnx.Optimizer(actor, optax.adam(0.01), wrt=nnx.Param)
    critic = ContinuousClippedDoubleQNet(CriticSALE(MLP(nh + 2 * nz, 1, [8], "elu", rngs), 3, na, nh, rngs),
                                         CriticSALE(MLP(nh + 2 * nz, 1, [8], "elu", rngs), 3, na, nh, rngs))
    copt = nnx.Optimizer(critic, optax.adam(0.01), wrt=nnx.Param)
    atgt, ctgt = nnx.clone(actor), nnx.clone(critic)
    buf = recording_buffer(rb.LAP, rec, sc["cap"])
    prefill(buf, rb.LAP, sc, np.zeros(na, dtype=np.float32))
    logger = recording_logger(rec)
    # watch names = record_epoch keys of train_td7 (td7.py 769-772, 913-967)
    mods = dict(embedding=embedding, q=critic, policy=actor, policy_target=atgt, q_target=ctgt)
    w = _Watches(rec)
    for k, v in mods.items():
        w.add(k, v)
    rec.watch_law("policy_target", atgt, actor, 1.0)  # coordinator: TD7's targets are hard copies
    rec.watch_law("q_target", ctgt, critic, 1.0)
    made = []

    def created(emb, act):  # the SALE policies the routine builds: acting, target, checkpoint (td7.py 710-720)
        i = len(made)
        made.append((emb, act))
        en, an = _SALE_ROLES[i] if i < len(_SALE_ROLES) else (f"sale_embedding_{i}", f"sale_actor_{i}")
        mods[en] = emb
        w.add(en, emb)
        if an is not None:
            mods[an] = act
            w.add(an, act)

    _CUR["created"] = created
    # the acting policy is the FIRST SALE policy the routine builds (td7.py 710): its live action at the observation the
    # environment returned last is logged with every step (C10 ExplorationNoiseScale)
    sale = []
    _CUR["created_policy"] = sale.append
    from rl_blox.blox.embedding.sale import DeterministicSALEPolicy

    env.exec_probe = live_action_probe(lambda: sale[0] if sale else None, DeterministicSALEPolicy.__call__)
    pd, td = sc.get("policy_delay", 2), sc.get("target_delay", 3)
    kwargs = dict(seed=seed, total_timesteps=sc["budget"], gamma=0.5, target_delay=td, policy_delay=pd, exploration_noise=expl_noise(sc),
                  target_policy_noise=TARGET_POLICY_NOISE, noise_clip=NOISE_CLIP, use_checkpoints=use_checkpoints, max_episodes_when_checkpointing=sc.get("ckpt_episodes", 2),
                  steps_before_checkpointing=sc.get("ckpt_after", 4), reset_weight=0.9, batch_size=sc["batch"], learning_starts=warm, replay_buffer=buf,
                  actor_target=atgt, critic_target=ctgt, logger=logger, global_step=start, progress_bar=False)
    _limit(sc, kwargs)
    with interpose(td7, DeterministicSALEPolicy=_probed("sale")):
        res, err = _run(rec, lambda: td7.train_td7(env, embedding, eopt, actor, aopt, critic, copt, **kwargs))
    targets = ["policy_target", "q_target", "fixed_embedding", "fixed_embedding_target"]
    if use_checkpoints:
        targets += ["actor_checkpoint", "fixed_embedding_checkpoint"]  # copied at episode ends, outside iterations: not in rules
    rules = []
    if start <= warm:  # epoch (td7.py 693, 785) == number of the gradient iteration
        # fixed_embedding_target <- fixed_embedding at the FIRST due iteration copies the initial embedding onto its own clone
        # (td7.py 707-708): a copy without visible effect; it is due (= must be seen changing) from the second due iteration on.
        later = [k for k in range(2 * td, sc["budget"] + 2, td)]
        rules = [dict(comps=["embedding", "q"], counter="always", after=warm),
                 dict(comps=["policy"], counter="iter", mod=pd, rem=0, after=warm),
                 dict(comps=["policy_target", "q_target", "fixed_embedding"], counter="iter", mod=td, rem=0, after=warm)]
        rules += [dict(comps=["fixed_embedding_target"], counter="iter", mod=_BIG, rem=k, after=warm) for k in later]
    cfg = base_cfg(name, sc, warmlearn=warm, warmact=warm, explore_only_in_warmup=True, policy_probe=True, ret_applicable=True, ulpk=0,
                   trained=["embedding", "q", "policy"], targets=targets, segment="sample", rules=rules, expl_noise8=int(round(8 * kwargs["exploration_noise"])),
                   # coordinator: TD7's evaluation checkpoint is (fixed embedding, actor), copied together
                   copy_groups=[[["actor_checkpoint", "policy"], ["fixed_embedding_checkpoint", "fixed_embedding"]]] if use_checkpoints else [])
    ret = None if res is None else res.global_step
    return finish(rec, name, sc, cfg, returned=ret, final=final_digests(**mods), error=_close(w, err), buffer=buf, result=res)


@routine("td7")
def run_td7(sc):
    return _td7("td7", sc, False)


@routine("td7_ckpt")
def run_td7_ckpt(sc):
    return _td7("td7_ckpt", sc, True)


# ------------------------------------------------------------------ MR.Q
@routine("mrq")
def run_mrq(sc):
    import optax
    from flax import nnx
    from rl_blox.algorithm import mrq
    from rl_blox.blox import replay_buffer as rb
    from rl_blox.blox.double_qnet import ContinuousClippedDoubleQNet
    from rl_blox.blox.embedding.model_based_encoder import ModelBasedEncoder
    from rl_blox.blox.function_approximator.layer_norm_mlp import LayerNormMLP
    from rl_blox.blox.function_approximator.policy_head import DeterministicTanhPolicy
    from rl_blox.blox.preprocessing import make_two_hot_bins

    from .probes import recording_buffer, recording_logger

    rec = Recorder()
    env = _box_env(rec, sc)
    na, seed, warm = env.action_space.shape[0], sc["seed"], sc["warm"]
    nb, zs, za, zsa = 5, 4, 2, 4
    eh, qh = sc.get("encoder_horizon", 2), sc.get("q_horizon", 2)
    rngs = nnx.Rngs(seed)
    encoder = ModelBasedEncoder(n_state_features=3, n_action_features=na, n_bins=nb, zs_dim=zs, za_dim=za, zsa_dim=zsa, hidden_nodes=[4],
                                activation="elu", encoder_activation_in_last_layer=False, rngs=rngs)
    pwe = _probed("with_encoder")(encoder, DeterministicTanhPolicy(LayerNormMLP(zs, na, [4], "relu", rngs=rngs), env.action_space))
    eopt = nnx.Optimizer(pwe.encoder, optax.adamw(learning_rate=0.01, weight_decay=1e-4), wrt=nnx.Param)
    popt = nnx.Optimizer(pwe.policy, optax.adamw(learning_rate=0.01, weight_decay=1e-4), wrt=nnx.Param)
    q = ContinuousClippedDoubleQNet(LayerNormMLP(zsa, 1, [4], "elu", rngs=rngs), LayerNormMLP(zsa, 1, [4], "elu", rngs=rngs))
    qopt = nnx.Optimizer(q, optax.chain(optax.clip_by_global_norm(20.0), optax.adamw(learning_rate=0.01, weight_decay=1e-4)), wrt=nnx.Param)
    bins = make_two_hot_bins(n_bin_edges=nb)
    ptgt, qtgt = nnx.clone(pwe), nnx.clone(q)
    buf = recording_buffer(rb.SubtrajectoryReplayBufferPER, rec, sc["cap"], horizon=max(eh, qh))
    logger = recording_logger(rec)
    # whole modules under the record_epoch keys of train_mrq (mrq.py 671-674, 710-711) + the two halves of the online module
    mods = dict(policy_with_encoder=pwe, encoder=pwe.encoder, policy=pwe.policy, q=q, policy_with_encoder_target=ptgt, encoder_target=ptgt.encoder, q_target=qtgt)
    w = _Watches(rec)
    for k, v in mods.items():
        w.add(k, v)
    td = sc.get("target_delay", 3)  # coordinator: 3, so that an epoch counter that is off by 2 shows
    from rl_blox.blox.embedding.model_based_encoder import DeterministicPolicyWithEncoder

    env.exec_probe = live_action_probe(lambda: pwe, DeterministicPolicyWithEncoder.__call__)
    kwargs = dict(seed=seed, total_timesteps=sc["budget"], gamma=0.5, target_delay=td, batch_size=sc["batch"], exploration_noise=expl_noise(sc),
                  target_policy_noise=TARGET_POLICY_NOISE, noise_clip=NOISE_CLIP, learning_starts=warm, encoder_horizon=eh, q_horizon=qh, replay_buffer=buf,
                  policy_with_encoder_target=ptgt, q_target=qtgt, logger=logger, global_step=sc.get("start", 0), progress_bar=False)
    _limit(sc, kwargs)
    res, err = _run(rec, lambda: mrq.train_mrq(env, pwe, eopt, popt, q, qopt, bins, **kwargs))
    # epoch of the iteration run after step s is s - learning_starts + 1 (mrq.py 567, 638) for every start value
    due = dict(counter="step", mod=td, rem=(warm - 1) % td, after=warm)
    rules = [dict(comps=["q", "policy", "policy_with_encoder"], counter="always", after=warm),
             dict(comps=["encoder", "policy_with_encoder_target", "q_target"], **due)]
    # encoder_target (half of policy_with_encoder_target) is watched but not ruled: its first due copy meets an untrained encoder
    cfg = base_cfg("mrq", sc, warmlearn=warm, warmact=warm, explore_only_in_warmup=True, policy_probe=True, ret_applicable=True, ulpk=0,
                   trained=["policy_with_encoder", "encoder", "policy", "q"], targets=["policy_with_encoder_target", "encoder_target", "q_target"],
                   segment="add", rules=rules, expl_noise8=int(round(8 * kwargs["exploration_noise"])))
    ret = None if res is None else res.global_step
    return finish(rec, "mrq", sc, cfg, returned=ret, final=final_digests(**mods), error=_close(w, err), result=res)
