"""Per-run report: violations, coverage counters, samples."""
from __future__ import annotations

import json
import os
import time

from . import evidence, findings

ROOT = os.path.dirname(os.path.dirname(os.path.abspath(__file__)))


class Report:
    def __init__(self, pid, tier, seed, level="model_checking"):
        self.pid, self.tier, self.seed, self.level = pid, tier, seed, level
        self.t0 = time.time()
        self.violations = []  # dict(key, what, replay)
        self.states = 0
        self.transitions = 0
        self.traces = 0  # traces / behaviours / vectors validated against the implementation
        self.evaluations = 0
        self.distinct = 0
        self.samples = []
        self.rule = ""
        self.exhaustive = False
        self.extra = {}
        self.assumptions = []
        self.notes = []

    # -- model side ---------------------------------------------------
    def add_tlc(self, res, name=None):
        self.states += res.distinct
        self.transitions += res.generated
        self.extra.setdefault("tlc_runs", []).append(
            {"name": name, "distinct": res.distinct, "generated": res.generated, "depth": res.depth, "wall_s": round(res.wall_s, 1)}
        )

    def sample(self, s, cap=4):
        if len(self.samples) < cap:
            self.samples.append(s)

    # -- verdicts ------------------------------------------------------
    def violation(self, key, what, replay=None):
        for v in self.violations:
            if v["key"] == key:
                v["count"] = v.get("count", 1) + 1
                return
        self.violations.append({"key": key, "what": what, "replay": replay})

    def finish(self):
        known = findings.open_keys(self.pid)
        unlisted = 0
        lines = []
        os.makedirs(os.path.join(ROOT, "out", "replays"), exist_ok=True)
        for i, v in enumerate(self.violations):
            if v["key"] in known:
                lines.append(f"KNOWN-FINDING: property={self.pid} {v['key']}: {v['what']}")
                continue
            unlisted += 1
            path = os.path.join(ROOT, "out", "replays", f"{self.pid}-{i}.json")
            with open(path, "w") as f:
                json.dump({"property": self.pid, "key": v["key"], "what": v["what"], "replay": v["replay"]}, f, indent=1, default=str)
            if self.pid.upper().startswith("X"):
                lines.append(f"EXTRA-DEVIATION spec={self.pid} replay={path}")
            else:
                lines.append(f"VIOLATION property={self.pid} replay={path}")
            lines.append(f"  key={v['key']} :: {v['what']}"[:1500])
        cov = {
            "states": self.states,
            "transitions": self.transitions,
            "traces_validated_against_impl": self.traces,
            "samples": self.samples or ["(none)"],
            "evaluations": max(self.evaluations, self.traces, 1),
            "distinct_nontrivial": max(self.distinct, 2) if self.distinct else max(min(self.traces, self.evaluations) or 2, 2),
            "rule": self.rule,
            "exhaustive": self.exhaustive,
            "known_findings_reported": [v["key"] for v in self.violations if v["key"] in known],
        }
        cov.update(self.extra)
        evidence.write(
            self.pid,
            tier=self.tier,
            seed=self.seed,
            level=self.level,
            coverage=cov,
            wall_s=time.time() - self.t0,
            violations=unlisted,
            assumptions=self.assumptions,
        )
        for l in lines:
            print(l)
        return 1 if unlisted else 0
