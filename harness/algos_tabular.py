"""Adapters for the tabular routines: Q-learning, SARSA, double Q-learning,
Monte-Carlo, Dyna-Q.

Environment: ScriptEnv(discrete_actions=3, discrete_obs=16); observations are
ints `(5*ep + t) % 16` (tag [value, 0, 0]).  The routines keep no replay
buffer: what they keep for learning is the transition (or episode record)
handed to the module-level update function, which every train function looks
up at call time.  These functions are interposed by wrappers that

* emit `add` (obs, act, r4, next, term - taken from the ARGUMENTS the routine
  passes) BEFORE calling the real function, then call it, remember the table
  it returns as the routine's current table and emit `learn` (own kind, so
  that the change of the watched table is attributed to the learner call and
  not to the following protocol event);
* the acting function `epsilon_greedy_policy` (plain Python in
  rl_blox/blox/value_policy.py:46-77: `if roll < epsilon: random.choice(...)
  else: greedy_policy(...)`) is interposed in the routine's module; while the
  real one runs, `value_policy.greedy_policy` and `value_policy.random` are
  observed, so that the branch taken is known:
    - greedy branch  -> `policy` (obs, chosen, argmax of the row of the table
      passed, current = table passed is bit-identical to the table most
      recently returned by the learner / the initial table);
    - random branch  -> `explore` (act) - like action_space.sample() of the
      deep routines, so EpsilonZeroAlwaysGreedy / EpsilonOneNeverGreedy /
      ExploredActionPassed / ChosenActionPassed apply unchanged;
    - branch not observable (another implementation) -> `policy` with
      chosen = -1 unless epsilon = 0.
* Q-learning's bootstrap `greedy_policy(q_table, next_observation)`
  (q_learning.py:80) is a greedy evaluation on one observation: `policy`
  event (CondFaithful: at the successor; GreedyIsMaximiser;
  GreedyOnCurrentEstimate).  With scenario epsilon = 1 it is emitted as kind
  `boot` instead, because EpsilonOneNeverGreedy fires on every `policy` event
  and the bootstrap legitimately uses the values.
* SARSA: the ACTING draw at the top of an iteration (sarsa.py:81), whose
  result goes to env.step, is the pending `policy` / `explore` choice
  (CondFaithful, GreedyIsMaximiser, GreedyOnCurrentEstimate, Chosen/
  ExploredActionPassed).  The draw at the successor (sarsa.py:91-93) whose
  result is handed to the learner as `next_action` is emitted as the own kind
  `next_choice` (obs, act, branch, chosen, argmax, current, at_successor =
  conditioned on the observation the environment returned last), which the
  trace spec ignores.  The listed properties do not require the loop to
  execute the stored A' (coordinator decision); for information `add` carries
  `next_act` / `next_act_is_choice` and the acting draw carries `pending` /
  `match` (the routine re-draws, so match is often False).
* Monte-Carlo: `update(q_table, n_visits, rewards, observations, actions,
  gamma)` gets the episode record; one `add` per row.  The record keeps no
  successor and no termination flag: `next` of row k is the observation of row
  k+1 of the record (term False - the episode continued); the LAST row has
  neither: `chk_next=False`, `chk_term=False` on that `add` event.  Steps of
  an unfinished last episode are never learnt from (by design).
* Dyna-Q: `q_learning_update(obs, act, reward, next_obs, gamma, lr, q_table)`
  takes no termination flag (the learner API has none; C14 models this as a
  named assumption): cfg check_term=False, no `term` is implied
  (`term_src="none"`).  Calls from inside `planning` are `plan` events (emitted
  after the call, fields obs, act, r4, next), `counter_update` -> `model_add`
  (fields + same_as_add), `model_update` -> `model` event; the model is a
  watched component.  The experience record Dyna-Q keeps for learning is the
  `Counter` (transition counts + reward lists per (o, a, o')) that
  `model_update` / planning learn from: before every real `model_update` the
  WHOLE record it is handed is projected (`_project_counter`: every (o, a, o')
  whose count is non-zero or whose reward list is non-empty -> obs, act, next,
  n, rs = rewards * 4) into one `experience` event; LoopTrace (EvExperience)
  judges that it equals exactly the multiset of environment steps logged so
  far (RecordNotProduced / RecordCount / RecordReward / RecordMissing).  The
  discrete ScriptEnv visits the same (state, action) pair with two different
  successors and different rewards (odd episodes advance two states per step).

cfg: budget = total_timesteps, start = 0, eplimit = 0 (no such parameters),
warmlearn = warmact = -1, ret_applicable False (tables are returned),
policy_probe True, rules = [] (a TD error may be exactly 0, Monte-Carlo
learns per episode: no per-segment obligation).  epsilon: scenario key
`epsilon` (0 / 1 -> epsilon4 0 / 4), default 0.5 (both branches occur).
Initial tables hold seeded multiples of 1/4 with ties in some rows, so the
argmax sets are non-trivial.

Executed actions (C13 clause ExecutedActionGreedy): every adapter sets
`env.exec_probe`, so each `step` event carries `qrow` = the action values
(float32 ordinals) of the routine's CURRENT table - the table most recently
returned by the learner / planner, or the initial one; q1 + q2 for double
Q-learning, the float32 sum the routine acts on - at the observation the
environment returned last, read at the moment the environment receives the
action.  It does not depend on which greedy evaluations the routine made: an
action chosen before an update and executed after it is judged against the
updated table.  Scenario E0S (epsilon 0, `stay=2`: every state is held for two
steps - self-transitions; `reward_scale=-1`: the value of the action just tried
goes down) makes the update change the maximiser of the row the agent is still
in.  No logger is passed: the routines read
`info["episode"]["r"]` when a logger is given, i.e. need a
RecordEpisodeStatistics wrapper (not documented).
"""
from __future__ import annotations

import numpy as np

from .algos import base_cfg, finish, guarded, interpose, routine
from .envs import Recorder, ScriptEnv, decode_obs, qrow_fields

N_OBS, N_ACT = 16, 3
GAMMA, LR = 0.5, 0.5


# ------------------------------------------------------------------ helpers
def _digest(a):
    from .digests import array_digest

    return "none" if a is None else array_digest(a)


def _same(a, b):
    """bit-identical arrays (or the same object)"""
    if a is b:
        return True
    if a is None or b is None:
        return False
    x, y = np.asarray(a), np.asarray(b)
    return x.dtype == y.dtype and x.shape == y.shape and x.tobytes() == y.tobytes()


def _table(seed, salt=0):
    import jax.numpy as jnp

    rng = np.random.default_rng(1000 * salt + seed)
    return jnp.asarray(rng.integers(-8, 9, size=(N_OBS, N_ACT)) / 4.0, dtype=jnp.float32)


def _r4(r):
    return int(round(float(np.asarray(r).reshape(-1)[0]) * 4))


def _int(a):
    v = float(np.asarray(a).reshape(-1)[0])
    return int(v) if v == int(v) else f"nonint:{v}"


def _argmax(q, obs):
    row = np.asarray(q)[int(np.asarray(obs))]
    return [int(i) for i in np.flatnonzero(row == row.max())]


def _setup(sc):
    rec = Recorder()
    env = ScriptEnv(rec, sc["script"], discrete_actions=N_ACT, discrete_obs=N_OBS, stay=sc.get("stay", 1), reward_scale=sc.get("reward_scale", 1.0))
    eps = sc.get("epsilon")
    return rec, env, (0.5 if eps is None else eps)


def _probe_exec(env, current):
    """Attach to every `step` event the action values of the routine's current table (`current()`) at the observation
    the action is executed in (ExecutedActionGreedy)."""
    env.exec_probe = lambda obs: qrow_fields(np.asarray(current())[int(np.asarray(obs))])


def _eps4(sc):
    e = sc.get("epsilon")
    return -1 if e is None else int(round(e * 4)) if e in (0, 1) else -1


def _cfg(name, sc, trained, **over):
    return base_cfg(name, sc, start=0, eplimit=0, warmlearn=-1, warmact=-1, explore_only_in_warmup=False, policy_probe=True,
                    ret_applicable=False, trained=trained, targets=[], epsilon4=_eps4(sc), rules=[], **over)


def _observe_eg(real_eg, q, obs, epsilon, key):
    """Run the real epsilon_greedy_policy and observe which branch it takes (value_policy.py:72-77)."""
    from rl_blox.blox import value_policy as vp

    seen = {}
    real_greedy, real_random = vp.greedy_policy, vp.random

    def greedy(q_, o_):
        seen["greedy"] = True
        return real_greedy(q_, o_)

    class _Random:
        def __getattr__(self, k):
            return getattr(real_random, k)

        def choice(self, *a, **k):
            seen["choice"] = True
            return real_random.choice(*a, **k)

    with interpose(vp, greedy_policy=greedy, random=_Random()):
        a = real_eg(q, obs, epsilon, key)
    if seen.get("greedy") and not seen.get("choice"):
        return a, "greedy"
    if seen.get("choice") and not seen.get("greedy"):
        return a, "explore"
    return a, "unknown"


def _emit_choice(rec, kind, branch, q, obs, a, current, eps, **extra):
    """kind None: protocol event (`policy` / `explore`); else an event of that own kind with all fields."""
    tag, act, am = decode_obs(obs), _int(a), _argmax(q, obs)
    if kind is not None:
        rec.emit(kind, env=0, obs=tag, act=act, branch=branch, chosen=act if branch == "greedy" else -1, argmax=am, current=bool(current), **extra)
    elif branch == "explore":
        rec.emit("explore", env=0, act=act, at=tag, table_current=bool(current), **extra)
    else:
        chosen = act if (branch == "greedy" or eps == 0) and isinstance(act, int) else -1
        rec.emit("policy", env=0, obs=tag, chosen=chosen, argmax=am, current=bool(current), branch=branch, **extra)


def _last_ev(rec):
    return rec.events[-1]["ev"] if rec.events else "none"


def _finals(**tables):
    return {k: _digest(v) for k, v in tables.items() if v is not None}


# ------------------------------------------------------------------ Q-learning
@routine("q_learning")
def run_q_learning(sc):
    from rl_blox.algorithm import q_learning as m

    rec, env, eps = _setup(sc)
    st = {"q": _table(sc["seed"])}
    rec.watch_fn("q", lambda: _digest(st["q"]))
    _probe_exec(env, lambda: st["q"])
    # the bootstrap helper is a module-level name of the unchanged code; a routine that bootstraps differently need not
    # have it (then no bootstrap choice is observed and the update calls are judged on their arguments alone)
    real_eg, real_greedy, real_upd = m.epsilon_greedy_policy, getattr(m, "greedy_policy", None), m._update_policy

    def epsilon_greedy_policy(q_table, observation, epsilon, key):
        a, branch = _observe_eg(real_eg, q_table, observation, epsilon, key)
        _emit_choice(rec, None, branch, q_table, observation, a, _same(q_table, st["q"]), eps, role="act")
        return a

    def greedy_policy(q_table, observation):
        a = real_greedy(q_table, observation)
        _emit_choice(rec, "boot" if eps == 1 else None, "greedy", q_table, observation, a, _same(q_table, st["q"]), eps, role="bootstrap")
        return a

    def _update_policy(q_table, observation, action, reward, next_observation, next_action, gamma, terminated, learning_rate):
        rec.emit("add", env=0, obs=decode_obs(observation), act=_int(action), r4=_r4(reward), next=decode_obs(next_observation),
                 term=bool(terminated), next_act=_int(next_action), table_current=_same(q_table, st["q"]))
        out = real_upd(q_table, observation, action, reward, next_observation, next_action, gamma, terminated, learning_rate)
        st["q"] = out
        rec.emit("learn")
        return out

    names = dict(epsilon_greedy_policy=epsilon_greedy_policy, _update_policy=_update_policy)
    if real_greedy is not None:
        names["greedy_policy"] = greedy_policy
    with interpose(m, **names):
        res, err = guarded(lambda: m.train_q_learning(env, st["q"], learning_rate=LR, epsilon=eps, gamma=GAMMA, total_timesteps=sc["budget"],
                                                      seed=sc["seed"], logger=None, progress_bar=False))
    final = _finals(q=res if res is not None else st["q"])
    if res is not None:
        final["returned_is_current"] = bool(_same(res, st["q"]))
    return finish(rec, "q_learning", sc, _cfg("q_learning", sc, ["q"]), returned=None, final=final, error=err)


# ------------------------------------------------------------------ SARSA
@routine("sarsa")
def run_sarsa(sc):
    from rl_blox.algorithm import sarsa as m

    rec, env, eps = _setup(sc)
    st = {"q": _table(sc["seed"]), "next": None}
    rec.watch_fn("q", lambda: _digest(st["q"]))
    _probe_exec(env, lambda: st["q"])
    real_eg, real_upd = m.epsilon_greedy_policy, m._update_policy

    def epsilon_greedy_policy(q_table, observation, epsilon, key):
        a, branch = _observe_eg(real_eg, q_table, observation, epsilon, key)
        cur, tag, last = _same(q_table, st["q"]), decode_obs(observation), _last_ev(rec)
        if last == "step":  # choice of A' at the successor S' for the learner (sarsa.py:91-93): own kind, ignored by the trace spec
            _emit_choice(rec, "next_choice", branch, q_table, observation, a, cur, eps, at_successor=bool(rec.events[-1]["obs"] == tag))
            st["next"] = dict(obs=tag, act=_int(a))
        else:  # acting draw (sarsa.py:81): the pending choice the following step is judged against
            nx = st["next"] if last != "reset" and st["next"] is not None and st["next"]["obs"] == tag else None
            extra = dict(pending=nx["act"], match=bool(nx["act"] == _int(a))) if nx else {}
            _emit_choice(rec, None, branch, q_table, observation, a, cur, eps, role="first" if last == "reset" else "act", **extra)
            st["next"] = None
        return a

    def _update_policy(q_table, observation, action, reward, next_observation, next_action, gamma, learning_rate, terminated):
        nx = st["next"]
        rec.emit("add", env=0, obs=decode_obs(observation), act=_int(action), r4=_r4(reward), next=decode_obs(next_observation),
                 term=bool(terminated), next_act=_int(next_action), table_current=_same(q_table, st["q"]),
                 next_act_is_choice=bool(nx is not None and nx["act"] == _int(next_action) and nx["obs"] == decode_obs(next_observation)))
        out = real_upd(q_table, observation, action, reward, next_observation, next_action, gamma, learning_rate, terminated)
        st["q"] = out
        rec.emit("learn")
        return out

    with interpose(m, epsilon_greedy_policy=epsilon_greedy_policy, _update_policy=_update_policy):
        res, err = guarded(lambda: m.train_sarsa(env, st["q"], learning_rate=LR, epsilon=eps, gamma=GAMMA, total_timesteps=sc["budget"],
                                                 seed=sc["seed"], logger=None, progress_bar=False))
    final = _finals(q=res if res is not None else st["q"])
    if res is not None:
        final["returned_is_current"] = bool(_same(res, st["q"]))
    return finish(rec, "sarsa", sc, _cfg("sarsa", sc, ["q"]), returned=None, final=final, error=err)


# ------------------------------------------------------------------ double Q-learning
@routine("double_q_learning")
def run_double_q_learning(sc):
    from rl_blox.algorithm import double_q_learning as m

    rec, env, eps = _setup(sc)
    st = {"q1": _table(sc["seed"], 1), "q2": _table(sc["seed"], 2)}
    rec.watch_fn("q1", lambda: _digest(st["q1"]))
    rec.watch_fn("q2", lambda: _digest(st["q2"]))
    _probe_exec(env, lambda: st["q1"] + st["q2"])  # the routine acts on q_table1 + q_table2 (double_q_learning.py:79)
    real_eg, real_upd = m.epsilon_greedy_policy, m._dql_update
    other = {"q1": "q2", "q2": "q1"}

    def epsilon_greedy_policy(q_table, observation, epsilon, key):
        a, branch = _observe_eg(real_eg, q_table, observation, epsilon, key)
        # the routine acts on q_table1 + q_table2 (double_q_learning.py:79): same float32 sum of the current tables
        _emit_choice(rec, None, branch, q_table, observation, a, _same(q_table, st["q1"] + st["q2"]), eps, role="act")
        return a

    def _dql_update(key, q_table1, q_table2, observation, action, reward, next_observation, gamma, learning_rate, terminated):
        which = "q1" if q_table1 is st["q1"] else "q2" if q_table1 is st["q2"] else "q1" if _same(q_table1, st["q1"]) else "q2" if _same(q_table1, st["q2"]) else "?"
        rec.emit("add", env=0, obs=decode_obs(observation), act=_int(action), r4=_r4(reward), next=decode_obs(next_observation),
                 term=bool(terminated), updated=which, table_current=bool(which != "?" and _same(q_table2, st[other[which]])))
        out = real_upd(key, q_table1, q_table2, observation, action, reward, next_observation, gamma, learning_rate, terminated)
        if which != "?":
            st[which] = out
        rec.emit("learn", updated=which)
        return out

    with interpose(m, epsilon_greedy_policy=epsilon_greedy_policy, _dql_update=_dql_update):
        res, err = guarded(lambda: m.train_double_q_learning(env, st["q1"], st["q2"], learning_rate=LR, epsilon=eps, gamma=GAMMA,
                                                             total_timesteps=sc["budget"], seed=sc["seed"], logger=None, progress_bar=False))
    final = _finals(q1=res[0] if res is not None else st["q1"], q2=res[1] if res is not None else st["q2"])
    if res is not None:
        final["returned_is_current"] = bool(_same(res[0], st["q1"]) and _same(res[1], st["q2"]))
    return finish(rec, "double_q_learning", sc, _cfg("double_q_learning", sc, ["q1", "q2"]), returned=None, final=final, error=err)


# ------------------------------------------------------------------ Monte-Carlo
@routine("monte_carlo")
def run_monte_carlo(sc):
    import jax.numpy as jnp
    from rl_blox.algorithm import monte_carlo as m

    rec, env, eps = _setup(sc)
    st = {"q": _table(sc["seed"])}
    st["n"] = jnp.zeros_like(st["q"])
    rec.watch_fn("q", lambda: _digest(st["q"]))
    _probe_exec(env, lambda: st["q"])
    rec.watch_fn("n_visits", lambda: _digest(st["n"]))
    real_eg, real_upd = m.epsilon_greedy_policy, m.update

    def epsilon_greedy_policy(q_table, observation, epsilon, key):
        a, branch = _observe_eg(real_eg, q_table, observation, epsilon, key)
        _emit_choice(rec, None, branch, q_table, observation, a, _same(q_table, st["q"]), eps, role="act")
        return a

    def update(q_table, n_visits, rewards, observations, actions, gamma):
        rs, os_, as_ = np.asarray(rewards), np.asarray(observations), np.asarray(actions)
        cur = bool(_same(q_table, st["q"]) and _same(n_visits, st["n"]))
        n = len(os_)
        for k in range(n):
            if k + 1 < n:  # the record continues: successor = next recorded observation, not terminal
                f = dict(next=decode_obs(os_[k + 1]), term=False, next_src="record", term_src="record")
            else:  # nothing kept about the end of the episode: successor and termination flag not applicable
                f = dict(chk_next=False, chk_term=False, next_src="none", term_src="none")
            rec.emit("add", env=0, obs=decode_obs(os_[k]), act=_int(as_[k]), r4=_r4(rs[k]), row=k, rows=n, table_current=cur, **f)
        out = real_upd(q_table, n_visits, rewards, observations, actions, gamma)
        st["q"], st["n"] = out[0], out[1]
        rec.emit("learn", rows=n)
        return out

    with interpose(m, epsilon_greedy_policy=epsilon_greedy_policy, update=update):
        res, err = guarded(lambda: m.train_monte_carlo(env, st["q"], sc["budget"], n_visits=st["n"], epsilon=eps, gamma=GAMMA, seed=sc["seed"],
                                                       logger=None, progress_bar=False))
    final = _finals(q=res[0] if res is not None else st["q"], n_visits=res[1] if res is not None else st["n"])
    if res is not None:
        final["returned_is_current"] = bool(_same(res[0], st["q"]) and _same(res[1], st["n"]))
    return finish(rec, "monte_carlo", sc, _cfg("monte_carlo", sc, ["q"]), returned=None, final=final, error=err)


# ------------------------------------------------------------------ Dyna-Q
def _project_counter(counter):
    """Whole experience record -> list of entries (obs, act, next, n, rs) for every (o, a, o') the record says anything
    about (count != 0 or a non-empty reward list).  Read-only; reads the nested containers by index only."""
    tc, rh = counter.transition_counter, counter.reward_history
    ent = []
    for o in range(len(tc)):
        for a in range(len(tc[o])):
            for n in range(len(tc[o][a])):
                c = int(tc[o][a][n])
                rs = [_r4(r) for r in rh[o][a][n]]
                if c != 0 or rs:
                    ent.append(dict(obs=decode_obs(o), act=a, next=decode_obs(n), n=c, rs=rs))
    return ent


@routine("dynaq")
def run_dynaq(sc):
    from rl_blox.algorithm import dynaq as m

    rec, env, eps = _setup(sc)
    st = {"q": _table(sc["seed"]), "model": None, "planning": False, "last_add": None}
    rec.watch_fn("q", lambda: _digest(st["q"]))
    _probe_exec(env, lambda: st["q"])
    rec.watch_fn("model", lambda: "none" if st["model"] is None else _digest(st["model"].transition) + _digest(st["model"].reward))
    real_eg, real_q, real_cnt, real_model, real_plan = m.epsilon_greedy_policy, m.q_learning_update, m.counter_update, m.model_update, m.planning

    def epsilon_greedy_policy(q_table, observation, epsilon, key):
        a, branch = _observe_eg(real_eg, q_table, observation, epsilon, key)
        _emit_choice(rec, None, branch, q_table, observation, a, _same(q_table, st["q"]), eps, role="act")
        return a

    def q_learning_update(obs, act, reward, next_obs, gamma, learning_rate, q_table):
        f = dict(obs=decode_obs(obs), act=_int(act), r4=_r4(reward), next=decode_obs(next_obs))
        cur = _same(q_table, st["q"])
        if st["planning"]:
            out = real_q(obs, act, reward, next_obs, gamma, learning_rate, q_table)
            st["q"] = out
            rec.emit("plan", env=0, table_current=cur, **f)
            return out
        # no termination flag reaches the learner (the API has none): cfg check_term=False
        rec.emit("add", env=0, term_src="none", table_current=cur, **f)
        st["last_add"] = f
        out = real_q(obs, act, reward, next_obs, gamma, learning_rate, q_table)
        st["q"] = out
        rec.emit("learn")
        return out

    def counter_update(counter, obs, act, reward, next_obs):
        f = dict(obs=decode_obs(obs), act=_int(act), r4=_r4(reward), next=decode_obs(next_obs))
        rec.emit("model_add", env=0, same_as_add=bool(f == st["last_add"]), **f)
        return real_cnt(counter, obs, act, reward, next_obs)

    def model_update(model, counter, obs, act, next_obs):
        # the whole experience record as it is handed to the model update (what the model / planning learn from)
        try:
            rec.emit("experience", env=0, rec=_project_counter(counter), readable=True)
        except (AttributeError, TypeError, IndexError, KeyError, ValueError) as e:  # another record structure: nothing to judge
            rec.emit("experience", env=0, rec=[], readable=False, note=f"unreadable:{type(e).__name__}")
        out = real_model(model, counter, obs, act, next_obs)
        st["model"] = out
        rec.emit("model", env=0, obs=decode_obs(obs), act=_int(act), next=decode_obs(next_obs))
        return out

    def planning(model_transition, model_reward, obs_buffer, act_buffer, n_planning_steps, key, gamma, learning_rate, q_table):
        mod = st["model"]
        rec.emit("plan_start", n=int(n_planning_steps), buffered=int(len(obs_buffer)), table_current=_same(q_table, st["q"]),
                 model_current=bool(mod is not None and _same(model_transition, mod.transition) and _same(model_reward, mod.reward)))
        st["planning"] = True
        try:
            out = real_plan(model_transition, model_reward, obs_buffer, act_buffer, n_planning_steps, key, gamma, learning_rate, q_table)
        finally:
            st["planning"] = False
        st["q"] = out
        rec.emit("plan_end")
        return out

    with interpose(m, epsilon_greedy_policy=epsilon_greedy_policy, q_learning_update=q_learning_update, counter_update=counter_update,
                   model_update=model_update, planning=planning):
        res, err = guarded(lambda: m.train_dynaq(env, st["q"], gamma=GAMMA, learning_rate=LR, epsilon=eps, n_planning_steps=sc.get("n_planning_steps", 2),
                                                 buffer_size=sc.get("cap", 7), total_timesteps=sc["budget"], seed=sc["seed"], logger=None, progress_bar=False))
    final = _finals(q=res if res is not None else st["q"])
    if res is not None:
        final["returned_is_current"] = bool(_same(res, st["q"]))
    return finish(rec, "dynaq", sc, _cfg("dynaq", sc, ["q"], check_term=False), returned=None, final=final, error=err)
