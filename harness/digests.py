"""Device D5: content digests of parameter trees / arrays."""
import hashlib

import numpy as np


def tree_digest(tree) -> str:
    import jax

    h = hashlib.sha1()
    for path, leaf in jax.tree_util.tree_flatten_with_path(tree)[0]:
        a = np.asarray(leaf)
        h.update(repr(path).encode())
        h.update(a.dtype.str.encode())
        h.update(repr(a.shape).encode())
        h.update(a.tobytes())
    return h.hexdigest()[:16]


def module_digest(module) -> str:
    from flax import nnx

    return tree_digest(nnx.state(module))


def param_digest(module) -> str:
    """Only nnx.Param leaves (for 'parameters' as opposed to optimiser state / rng counters)."""
    from flax import nnx

    return tree_digest(nnx.state(module, nnx.Param))


def array_digest(a) -> str:
    a = np.asarray(a)
    return hashlib.sha1(a.dtype.str.encode() + repr(a.shape).encode() + a.tobytes()).hexdigest()[:16]
