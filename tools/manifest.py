#!/venv/bin/python
"""Regenerate MANIFEST.json from the drivers that exist (harness/drivers/cXX.py with a MANIFEST dict)."""
import importlib, json, os, sys
ROOT = os.path.dirname(os.path.dirname(os.path.abspath(__file__)))
sys.path.insert(0, ROOT)
NA_REASONS = {}
props = [json.loads(l) for l in open(os.path.join(ROOT, "properties.jsonl"))]
checks, na = [], []
for p in props:
    pid = p["id"]
    path = os.path.join(ROOT, "harness", "drivers", pid.lower() + ".py")
    meta = None
    approved = open(os.path.join(ROOT, "tools", "claimed.txt")).read().split()
    if os.path.exists(path) and pid in approved:
        src = open(path).read()
        if "\nMANIFEST = " in src:
            ns = {}
            start = src.index("\nMANIFEST = ")
            # MANIFEST dict literal ends at first line that is just ")"
            end = src.index("\n)\n", start) + 3
            exec(src[start:end], ns)
            meta = ns["MANIFEST"]
    if meta is None:
        na.append({"property_id": pid, "reason": NA_REASONS.get(pid, "check not built yet (work in progress; will be claimed)")})
        continue
    checks.append({
        "property_id": pid,
        "quick_cmd": f"bin/check {pid} --tier quick",
        "thorough_cmd": f"bin/check {pid} --tier thorough",
        "evidence_file": f"/verif/evidence/{pid}.json",
        "replay_cmd_template": f"bin/check {pid} --replay {{path}}",
        "engine": "tlc-bind",
        "level_claimed": {"category": meta.get("category", "model_checking"), "text": meta["text"], "design_ref": meta.get("design_ref", f"DESIGN.md section 4 {pid}")},
        "level_note": meta["note"],
        "technique": meta["technique"],
    })
m = {
    "version": 1,
    "setup_cmd": "true",
    "hooks": {
        "guard": "RL_BLOX_VERIF",
        "enable": "no repository hooks exist: checks import rl_blox from /repo's working tree (PYTHONPATH) and observe it through objects the caller passes in (environments, buffers, loggers, modules) and interposed module-level names",
        "baseline_off_cmd": "cd /repo && /venv/bin/python -m pytest -ra -q -p no:cacheprovider --timeout=900 --continue-on-collection-errors",
        "source_commits": [],
        "add_only": True,
    },
    "engines": [{"name": "tlc-bind", "path": "bin/check", "serves_properties": [c["property_id"] for c in checks],
                 "kind_free_text": "TLA+ specifications in spec/ checked with TLC; bound to the implementation by replaying TLC-generated state graphs / behaviours / test vectors into the real code and by validating traces recorded from the real code against trace specifications"}],
    "checks": checks,
    "notes": "see DESIGN.md; known findings in known_findings.json",
    "not_applicable": na,
}
json.dump(m, open(os.path.join(ROOT, "MANIFEST.json"), "w"), indent=1)
print("claimed:", [c["property_id"] for c in checks])
