#!/usr/bin/env python3
"""Print the kill matrix of /verif/seeded/*/meta.json as a markdown table."""
import glob, json, os
rows = []
for f in sorted(glob.glob("/verif/seeded/*/meta.json")):
    m = json.load(open(f)); v = m.get("verified_by_coordinator", {})
    name = os.path.basename(os.path.dirname(f))
    checks = v.get("checks", {})
    det = "; ".join(f"{c} {'KILLED' if r['exit']==1 else ('machinery!' if r['exit']==2 else 'missed')} ({r['tier']})" + (f": {', '.join(k[:60] for k in r['keys'][:2])}" if r['exit']==1 else "") for c, r in checks.items())
    rows.append((name, ", ".join(os.path.basename(x) for x in m.get("files", []))[:60], (m.get("needs") or "")[:140].replace("\n", " "), det, m.get("strengthened", "")))
print("| change | files | needs, to manifest | result of our checks | note |\n|---|---|---|---|---|")
for r in rows:
    print("| " + " | ".join(x.replace("|", "/") for x in r) + " |")
print(f"\n{sum('KILLED' in r[3] for r in rows)} of {len(rows)} confirmed changes are detected.")
