#!/usr/bin/env python3
"""tools/seed_recheck.py [--tier quick|thorough] [--jobs N] <Cxx-pN> ...   (or: --all, --missed)

Re-run our check(s) against kept seeded changes (seeded/<id>/patch.diff applied to a scratch copy of
/repo/rl_blox, VERIF_REPO_ROOT; never applied to /repo) and update the 'checks' / 'detected' fields of
their meta.json.  Used after a check was strengthened, and to show that older changes are still caught."""
import argparse, concurrent.futures as cf, glob, json, os, shutil, subprocess, sys, tempfile

ap = argparse.ArgumentParser()
ap.add_argument("ids", nargs="*")
ap.add_argument("--tier", default="quick")
ap.add_argument("--jobs", type=int, default=2)
ap.add_argument("--all", action="store_true")
ap.add_argument("--missed", action="store_true")
a = ap.parse_args()
ids = a.ids
if a.all or a.missed:
    ids = []
    for f in sorted(glob.glob("/verif/seeded/*/meta.json")):
        m = json.load(open(f))
        if a.all or not m.get("verified_by_coordinator", {}).get("detected"):
            ids.append(os.path.basename(os.path.dirname(f)))


def one(sid):
    d = f"/verif/seeded/{sid}"
    meta = json.load(open(f"{d}/meta.json"))
    pid = meta.get("property", sid.split("-")[0])
    tmp = tempfile.mkdtemp(prefix=f"mut-re-{sid}-", dir="/tmp")
    try:
        shutil.copytree("/repo/rl_blox", f"{tmp}/rl_blox")
        r = subprocess.run(f"patch -p1 -s < {d}/patch.diff", shell=True, cwd=tmp, capture_output=True, text=True)
        if r.returncode != 0:
            return sid, {"exit": None, "error": "patch does not apply: " + (r.stdout + r.stderr)[-200:]}
        env = dict(os.environ, VERIF_REPO_ROOT=tmp)
        p = subprocess.run(f"/verif/bin/check {pid} --tier {a.tier}", shell=True, env=env, capture_output=True, text=True, timeout=10800)
        lines = [l for l in p.stdout.splitlines() if l.startswith(("VIOLATION", "  key=", "KNOWN-FINDING", "MACHINERY"))]
        keys = sorted({l.split("key=")[1].split(" ::")[0] for l in lines if "key=" in l})
        res = {"tier": a.tier, "exit": p.returncode, "keys": keys[:8]}
        if p.returncode == 2:
            res["machinery"] = ([l for l in p.stderr.splitlines() if "MACHINERY" in l or "Error" in l] or [p.stderr[-300:]])[-1][:400]
        m2 = json.load(open(f"{d}/meta.json"))
        v = m2.setdefault("verified_by_coordinator", {})
        v.setdefault("checks", {})[pid] = res
        v["detected"] = any(c.get("exit") == 1 for c in v["checks"].values())
        v["rechecked_at_verif_commit"] = subprocess.run("git -C /verif log --format=%h -1", shell=True, capture_output=True, text=True).stdout.strip()
        json.dump(m2, open(f"{d}/meta.json", "w"), indent=1)
        return sid, res
    finally:
        shutil.rmtree(tmp, ignore_errors=True)


with cf.ThreadPoolExecutor(a.jobs) as ex:
    for sid, res in ex.map(one, ids):
        print(sid, res.get("exit"), "; ".join(res.get("keys", [])[:3]) or res.get("error", "") or res.get("machinery", ""), flush=True)
