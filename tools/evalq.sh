#!/bin/bash
# usage: evalq.sh "p11 p12" C06 C10 ...  -> evaluates the given pNs of each property, sequentially
PS="$1"; shift
for c in "$@"; do for p in $PS; do
  [ -d /tmp/seed-${c,,}/$p ] || { echo "$c-$p MISSING"; continue; }
  /venv/bin/python /verif/tools/seed_eval.py $c $p --no-suite > /tmp/eval-$c-$p.json 2>&1
  python3 - <<PY
import json,re
s=open('/tmp/eval-$c-$p.json').read()
i=s.find('{')
try:
    d=json.loads(s[i:]); print('$c-$p','confirmed' if d['confirmed'] else 'NOTCONF', 'DETECTED' if d['detected'] else 'missed', {k:(v['exit'],v['keys'][:2]) for k,v in d['checks'].items()}, d.get('demo_clean_exit'), d.get('demo_patched_exit'), d.get('patch_applies'))
except Exception as e: print('$c-$p','ERR',s[-300:])
PY
done; done
