#!/usr/bin/env python3
"""Fill DESIGN.md section A.9 from evidence/*.json (quick tier of the last registered runs)."""
import glob, json, re
rows = []
for f in sorted(glob.glob("/verif/evidence/C*.json")):
    d = json.load(open(f)); c = d["coverage"]
    rows.append(f"| {d['property_id']} | {d['tier']} | {c.get('states', 0):,} | {c.get('transitions', 0):,} | {c.get('traces_validated_against_impl', 0):,} | {c.get('evaluations', 0):,} | {d['wall_s']:.0f} | {d.get('violations', 0)} | {', '.join(c.get('known_findings_reported', [])[:3])}{' ...' if len(c.get('known_findings_reported', [])) > 3 else ''} |")
tab = "| id | tier | TLC distinct states | TLC states generated | cases bound to the implementation | evaluations | wall s | violations | known findings reported |\n|---|---|---|---|---|---|---|---|---|\n" + "\n".join(rows) + "\n"
p = "/verif/DESIGN.md"; s = open(p).read()
s = re.sub(r"<!-- STATS-BEGIN -->.*?<!-- STATS-END -->", "<!-- STATS-BEGIN -->\n" + tab + "<!-- STATS-END -->", s, flags=re.S)
open(p, "w").write(s); print(len(rows), "rows")
