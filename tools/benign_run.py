#!/usr/bin/env python3
"""tools/benign_run.py [--jobs N] [--only C01,C05] [--skip C02,...] bNN ...   (or --all)

Run every check whose property is anchored in a file that a behaviour-preserving refactoring (benign/bNN/patch.diff)
touches against a scratch copy of /repo/rl_blox with that patch applied (VERIF_REPO_ROOT; /repo is never touched) and
append "bNN Cxx exit=E [keys]" lines to benign/results.txt.  Expected: exit 0 everywhere."""
import argparse, concurrent.futures as cf, glob, json, os, re, shutil, subprocess, tempfile

ap = argparse.ArgumentParser()
ap.add_argument("ids", nargs="*")
ap.add_argument("--all", action="store_true")
ap.add_argument("--jobs", type=int, default=3)
ap.add_argument("--only", default="")
ap.add_argument("--skip", default="")
ap.add_argument("--extras", action="store_true", help="also run the X-modules that cover the touched files")
a = ap.parse_args()
ids = a.ids or ([os.path.basename(os.path.dirname(p)) for p in sorted(glob.glob("/verif/benign/b*/patch.diff"))] if a.all else [])
props = [json.loads(l) for l in open("/verif/properties.jsonl")]
only = set(filter(None, a.only.split(","))); skip = set(filter(None, a.skip.split(",")))
XFILES = {"X01": ["pets.py"], "X02": ["td3_lap.py", "td7.py", "mrq.py"], "X03": ["reinforce.py", "a2c.py", "ppo.py", "actor_critic.py"],
          "X04": ["task_embedding.py", "multitask.py", "smt.py", "active_mt.py", "uniform_task_sampling.py"], "X05": ["algorithm/"], "X06": ["algorithm/", "value_policy.py", "probabilistic_ensemble.py"],
          "X07": ["function_approximator/", "double_qnet.py", "value_policy.py", "q_policy.py", "sale.py"]}


def checks_for(patch):
    files = re.findall(r"^diff --git a/(\S+)", open(patch).read(), flags=re.M)
    cs = [p["id"] for p in props if any(f in p["anchors"]["files"] for f in files)]
    if a.extras:
        cs += [x for x, pats in XFILES.items() if any(pt in f for f in files for pt in pats)]
    return [c for c in cs if (not only or c in only) and c not in skip], files


def run_one(bid):
    patch = f"/verif/benign/{bid}/patch.diff"
    cs, files = checks_for(patch)
    tmp = tempfile.mkdtemp(prefix=f"benign-{bid}-", dir="/tmp")
    out = []
    try:
        shutil.copytree("/repo/rl_blox", f"{tmp}/rl_blox")
        r = subprocess.run(f"patch -p1 -s < {patch}", shell=True, cwd=tmp, capture_output=True, text=True)
        if r.returncode != 0:
            return [f"{bid} PATCH-DOES-NOT-APPLY {(r.stdout + r.stderr)[-150:]!r}"]
        for c in cs:
            p = subprocess.run(f"/verif/bin/check {c} --tier quick", shell=True, env=dict(os.environ, VERIF_REPO_ROOT=tmp), capture_output=True, text=True, timeout=10800)
            keys = sorted({l.split("key=")[1].split(" ::")[0] for l in p.stdout.splitlines() if "key=" in l})
            extra = ""
            if p.returncode == 2:
                extra = " " + (([l for l in (p.stdout + p.stderr).splitlines() if "MACHINERY" in l] or [p.stderr[-200:]])[-1])[:300]
            out.append(f"{bid} {c} exit={p.returncode}" + (f" keys={keys[:4]}" if keys and p.returncode else "") + extra)
            print(out[-1], flush=True)
    finally:
        shutil.rmtree(tmp, ignore_errors=True)
    return out


with cf.ThreadPoolExecutor(a.jobs) as ex:
    res = [l for ls in ex.map(run_one, ids) for l in ls]
with open("/verif/benign/results.txt", "a") as f:
    f.write("\n".join(res) + "\n")
