#!/venv/bin/python
"""tools/seed_suite.py <worktree> <seeded-dir> ...   run the repository's test suite with each seeded change applied
(in a dedicated scratch worktree) and record the result in the change's meta.json."""
import json, os, subprocess, sys, time
wt = sys.argv[1]
env = dict(os.environ, JAX_PLATFORMS="cpu", TF_CPP_MIN_LOG_LEVEL="3"); env.pop("PYTHONPATH", None)
def sh(c, **k): return subprocess.run(c, shell=True, capture_output=True, text=True, env=env, **k)
for d in sys.argv[2:]:
    mp = os.path.join(d, "meta.json"); m = json.load(open(mp)); v = m.setdefault("verified_by_coordinator", {})
    if v.get("suite_passed") is True:
        continue
    sh(f"git -C {wt} checkout -q -- . ; git -C {wt} clean -fdq; git -C {wt} checkout -q --detach $(git -C /repo rev-parse HEAD)")
    r = sh(f"git -C {wt} apply {d}/patch.diff")
    if r.returncode != 0:
        v["suite_tail"] = "patch does not apply: " + r.stderr[-200:]; v["suite_passed"] = False
    else:
        t0 = time.time()
        r = sh("/venv/bin/python -m pytest -q -p no:cacheprovider --timeout=2400 -n 4 tests 2>&1 | tail -3", cwd=wt, timeout=7200)
        tail = (r.stdout.strip().splitlines() or [""])[-1][:200]
        v["suite_tail"] = tail; v["suite_s"] = round(time.time() - t0)
        v["suite_passed"] = (" passed" in tail) and (" failed" not in tail) and ("error" not in tail.lower())
    sh(f"git -C {wt} checkout -q -- . ; rm -rf {wt}/htmlcov {wt}/.coverage")
    m2 = json.load(open(mp)); m2.setdefault("verified_by_coordinator", {}).update({k: v[k] for k in ("suite_tail", "suite_passed", "suite_s") if k in v}); json.dump(m2, open(mp, "w"), indent=1)
    print(os.path.basename(d.rstrip("/")), v.get("suite_passed"), v.get("suite_tail"), flush=True)
