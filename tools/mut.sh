#!/bin/bash
# tools/mut.sh <name> <check ids...> -- reads a sed script or patch from stdin, applies to a scratch copy of /repo/rl_blox, runs the checks
# usage: tools/mut.sh name "C02 C08" 's/a/b/' file   (sed expr + file relative to repo)  OR  tools/mut.sh name "C02" --patch file.diff
name=$1; checks=$2; shift 2
d=/tmp/mut-$name
rm -rf $d; mkdir -p $d; cp -r /repo/rl_blox $d/rl_blox
if [ "$1" == "--patch" ]; then (cd $d && patch -p1 -s < $2) || exit 3
else sed -i "$1" $d/$2; fi
diff -r /repo/rl_blox $d/rl_blox | head -20
for c in $checks; do
  VERIF_REPO_ROOT=$d /verif/bin/check $c ${TIER:+--tier $TIER} 2>&1 | grep -v WARNING | grep -E "VIOLATION|KNOWN|MACHINERY|key=" | head -8
  echo "exit=${PIPESTATUS[0]} ($c)"
done
rm -rf $d
