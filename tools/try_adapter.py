#!/venv/bin/python
"""tools/try_adapter.py <routine> [...]  - run adapters on the standard scenarios and print LoopTrace verdicts."""
import os, sys, time
sys.path.insert(0, "/verif"); sys.path.insert(0, os.environ.get("VERIF_REPO_ROOT", "/repo"))
os.environ.setdefault("JAX_PLATFORMS", "cpu")
from harness import algos, loopbind
tier = os.environ.get("VERIF_TIER", "quick")
trs = []
for name in sys.argv[1:]:
    for sc in algos.scenarios(tier, int(os.environ.get("VERIF_SEED", "0")), name):
        t = time.time()
        tr = algos.run(name, sc)
        tr["id"] = f"{name}:{sc['label']}"
        print(f"{tr['id']}: {len(tr['events'])} events, error={tr.get('error')}, {time.time()-t:.1f}s")
        trs.append(tr)
out, r, norm = loopbind.validate(trs)
for k, v in out.items():
    print(k, "executed", v["executed"], "episodes", v["episodes"], "update-events", v["updates"], "clauses", sorted(set(c for _, c in v["viol"])))
    n = [t for t in norm if t["id"] == k][0]
    for pos, c in v["viol"][:4]:
        e = n["events"][pos - 1]
        print("    ", pos, c, {kk: vv for kk, vv in e.items() if kk in ("ev", "env", "obs", "act", "next", "n", "changed", "after_end", "term", "chosen", "argmax")})
