#!/venv/bin/python
"""tools/seed_eval.py <Cxx> <pN> [--checks "Cxx Cyy"] [--tier quick|thorough] [--no-suite]

Confirm an independently produced breaking change (from /tmp/seed-cxx/pN) in a scratch worktree and run
our checks against it:
  1. clean worktree /tmp/wt-cxx: demo.py must exit 0;
  2. patch applied: demo.py must fail; the repository's test suite must still pass (pytest -n 6);
  3. our check(s) run against a scratch copy of /repo with the patch applied (VERIF_REPO_ROOT);
  4. everything is stored under /verif/seeded/<Cxx>-pN/ (patch.diff, demo.py, meta.json).
Nothing is ever applied to /repo itself.
"""
import argparse
import json
import os
import shutil
import subprocess
import sys
import time

ap = argparse.ArgumentParser()
ap.add_argument("pid")
ap.add_argument("pn")
ap.add_argument("--checks", default=None)
ap.add_argument("--tier", default="quick")
ap.add_argument("--no-suite", action="store_true")
a = ap.parse_args()
pid, pn = a.pid.upper(), a.pn
src = f"/tmp/seed-{pid.lower()}/{pn}"
wt = f"/tmp/wt-{pid.lower()}"
env = dict(os.environ, JAX_PLATFORMS="cpu", TF_CPP_MIN_LOG_LEVEL="3")
env.pop("PYTHONPATH", None)


def sh(cmd, cwd=None, timeout=3600):
    p = subprocess.run(cmd, shell=True, cwd=cwd, env=env, capture_output=True, text=True, timeout=timeout)
    return p.returncode, (p.stdout + p.stderr)


meta = json.load(open(f"{src}/meta.json"))
res = {"ran_at": time.strftime("%Y-%m-%d %H:%M"), "base_commit": sh("git -C /repo log --format=%h -1")[1].split()[-1]}
sh(f"git -C {wt} checkout -- . && git -C {wt} clean -fdq", cwd=wt)
# worktrees are at an older HEAD if /repo got fix commits since: bring to /repo HEAD
sh(f"git -C {wt} checkout -q --detach $(git -C /repo rev-parse HEAD)")
shutil.copy(f"{src}/demo.py", f"{wt}/demo_seed.py")
rc0, out0 = sh("/venv/bin/python demo_seed.py", cwd=wt, timeout=900)
res["demo_clean_exit"] = rc0
rc, out = sh(f"git -C {wt} apply --check {src}/patch.diff && git -C {wt} apply {src}/patch.diff")
res["patch_applies"] = rc == 0
if rc != 0:
    res["patch_error"] = out[-500:]
rc1, out1 = sh("/venv/bin/python demo_seed.py", cwd=wt, timeout=900)
res["demo_patched_exit"] = rc1
res["demo_patched_tail"] = out1.strip().splitlines()[-1][:300] if out1.strip() else ""
if not a.no_suite:
    t0 = time.time()
    rcs, outs = sh("/venv/bin/python -m pytest -q -p no:cacheprovider --timeout=900 -n 6 -x tests 2>&1 | tail -3", cwd=wt, timeout=3000)
    res["suite_tail"] = outs.strip().splitlines()[-1][:200] if outs.strip() else ""
    res["suite_passed"] = " passed" in res["suite_tail"] and " failed" not in res["suite_tail"] and "error" not in res["suite_tail"].lower()
    res["suite_s"] = round(time.time() - t0)
# our checks against a scratch copy of /repo + patch
d = f"/tmp/mut-seed-{pid.lower()}-{pn}"
shutil.rmtree(d, ignore_errors=True)
os.makedirs(d)
sh(f"cp -r {wt}/rl_blox {d}/rl_blox")
sh(f"git -C {wt} checkout -- . ; rm -f {wt}/demo_seed.py; rm -rf {wt}/htmlcov {wt}/.coverage")
checks = (a.checks or pid).split()
res["checks"] = {}
for c in checks:
    e2 = dict(os.environ, VERIF_REPO_ROOT=d)
    p = subprocess.run(f"/verif/bin/check {c} --tier {a.tier}", shell=True, env=e2, capture_output=True, text=True, timeout=7200)
    lines = [l for l in p.stdout.splitlines() if l.startswith(("VIOLATION", "  key=", "KNOWN-FINDING", "MACHINERY"))] + [l for l in p.stderr.splitlines() if "MACHINERY" in l]
    keys = sorted({l.split("key=")[1].split(" ::")[0] for l in lines if "key=" in l})
    res["checks"][c] = {"tier": a.tier, "exit": p.returncode, "keys": keys[:8]}
    if p.returncode == 2:
        res["checks"][c]["machinery"] = ([l for l in p.stderr.splitlines() if "MACHINERY" in l or "Error" in l] or [p.stderr[-300:]])[-1][:400]
shutil.rmtree(d, ignore_errors=True)
res["detected"] = any(v["exit"] == 1 for v in res["checks"].values())
res["confirmed"] = bool(res["demo_clean_exit"] == 0 and res["patch_applies"] and res["demo_patched_exit"] != 0 and (a.no_suite or res.get("suite_passed")))
out_dir = f"/verif/seeded/{pid}-{pn}"
if res["confirmed"]:
    os.makedirs(out_dir, exist_ok=True)
    shutil.copy(f"{src}/patch.diff", out_dir)
    shutil.copy(f"{src}/demo.py", out_dir)
    meta["property"] = pid
    prev = {}
    if os.path.exists(f"{out_dir}/meta.json"):
        prev_meta = json.load(open(f"{out_dir}/meta.json"))
        prev = prev_meta.get("verified_by_coordinator", {})
        for k in ("strengthened", "note_coordinator"):
            if k in prev_meta:
                meta[k] = prev_meta[k]
        for k in ("suite_tail", "suite_passed", "suite_s"):
            if k in prev and k not in res:
                res[k] = prev[k]
        pc = prev.get("checks", {})
        pc.update(res["checks"])
        res["checks"] = pc
        res["detected"] = any(v["exit"] == 1 for v in res["checks"].values())
    meta["verified_by_coordinator"] = res
    json.dump(meta, open(f"{out_dir}/meta.json", "w"), indent=1)
print(json.dumps(res, indent=1))
