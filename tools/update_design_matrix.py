#!/usr/bin/env python3
import subprocess, re
m = subprocess.run(["/verif/tools/seed_matrix.py"], capture_output=True, text=True).stdout
p = "/verif/DESIGN.md"; s = open(p).read()
s = re.sub(r"<!-- SEED-MATRIX-BEGIN -->.*?<!-- SEED-MATRIX-END -->", "<!-- SEED-MATRIX-BEGIN -->\n" + m.replace("\\", "\\\\") + "<!-- SEED-MATRIX-END -->", s, flags=re.S)
open(p, "w").write(s)
print(m.splitlines()[-1])
