#!/usr/bin/env python3
"""tools/seed_prompt.py <Cxx> <first-index> <n>   print the prompt for an independent seeding sub-agent
(SEEDING.md with the property's JSON line and one-line summaries of the ideas already used) and create
the scratch worktree /tmp/wt-cxx and the output directory /tmp/seed-cxx (pK sub-directories are written by the agent)."""
import glob, json, os, subprocess, sys
pid, first, n = sys.argv[1].upper(), int(sys.argv[2]), int(sys.argv[3])
prop = next(l for l in open("/verif/properties.jsonl") if json.loads(l)["id"] == pid)
used = []
for f in sorted(glob.glob(f"/verif/seeded/{pid}-p*/meta.json")):
    m = json.load(open(f))
    used.append("(" + ", ".join(os.path.basename(x) for x in m.get("files", [])) + ") " + " ".join((m.get("what") or "").split())[:230])
wt, out = f"/tmp/wt-{pid.lower()}", f"/tmp/seed-{pid.lower()}"
if not os.path.isdir(wt):
    subprocess.run(f"git -C /repo worktree prune; git -C /repo worktree add --detach {wt} HEAD", shell=True, check=True, capture_output=True)
else:
    subprocess.run(f"git -C {wt} checkout -q -- . ; git -C {wt} clean -fdq; git -C {wt} checkout -q --detach $(git -C /repo rev-parse HEAD)", shell=True, check=True)
os.makedirs(out, exist_ok=True)
txt = open("/verif/SEEDING.md").read().split("\n", 5)[5]
names = ", ".join(f"p{k}" for k in range(first, first + n))
txt = txt.replace("{WT}", wt).replace("{OUT}", out).replace("{N}", str(n)).replace("{USED}", "\n" + "\n".join(f"  - {u}" for u in used) + "\n")
txt = txt.replace("For each change `k` (1.." + str(n) + ")", f"For each change k in ({names})").replace("p{k}", "<pK>")
txt = txt.replace("{PROPERTY_JSON}", prop.strip())
print(txt)
