------------------------- MODULE MultiTask -------------------------
(* rl_blox.blox.replay_buffer.MultiTaskReplayBuffer wrapping K uniform ring  *)
(* buffers of capacity N.  Ids are globally unique (the k-th addition overall *)
(* has id k), so a row names the task it was added under.                     *)
EXTENDS Integers, Sequences, FiniteSets, TLC, Json

CONSTANTS K, N, MaxAdds, MaxBatch, EMIT

VARIABLES bufs,    \* [0..K-1 -> [store: Seq(N), ins, len]]
          sel,     \* selected task
          active,  \* set of tasks that received at least one sample
          hist,    \* ghost: [0..K-1 -> Seq(id)] additions per task
          cnt      \* ghost: total number of additions

vars == <<bufs, sel, active, hist, cnt>>
Tasks == 0..(K - 1)
View == [bufs |-> [t \in Tasks |-> bufs[t]], sel |-> sel,
         active |-> active, lens |-> [t \in Tasks |-> Len(hist[t])], cnt |-> cnt]

Min(a, b) == IF a < b THEN a ELSE b
Emit(op, args, exp) ==
  EMIT => PrintT(<<"EMIT", ToJson([pre |-> View, op |-> op, args |-> args, exp |-> exp, post |-> View'])>>)

Init == /\ bufs = [t \in Tasks |-> [store |-> [i \in 1..N |-> 0], ins |-> 0, len |-> 0]]
        /\ sel = 0 /\ active = {} /\ hist = [t \in Tasks |-> <<>>] /\ cnt = 0

Select(k) == /\ k \in Tasks /\ sel' = k
             /\ UNCHANGED <<bufs, active, hist, cnt>>
             /\ Emit("Select", <<k>>, "ok")

(* an id outside [0, K) is rejected loudly and changes nothing *)
SelectInvalid(k) == /\ k \notin Tasks /\ UNCHANGED vars
                    /\ Emit("Select", <<k>>, "ValueError")

(* add_sample: the whole record goes to the selected task's ring, which becomes active *)
Route == /\ cnt < MaxAdds
         /\ LET b == bufs[sel] IN
              bufs' = [bufs EXCEPT ![sel] =
                         [store |-> [b.store EXCEPT ![b.ins + 1] = cnt + 1],
                          ins |-> (b.ins + 1) % N, len |-> Min(b.len + 1, N)]]
         /\ active' = active \cup {sel}
         /\ hist' = [hist EXCEPT ![sel] = Append(@, cnt + 1)]
         /\ cnt' = cnt + 1 /\ UNCHANGED sel

Add == /\ Route
       /\ Emit("Add", <<cnt + 1>>, <<>>)

(* How a call of add_sample is spelled (see Ring.tla: value form of the documented-float fields, integral or   *)
(* fractional values, keyword order).  Every task's ring allocates its storage on the first call routed to it, *)
(* so "the first call" happens once per task, at any point of the history.  Invisible to the abstraction.      *)
ValueForms == {"float", "pyint", "npint", "npuint8", "jaxint"}
Orders == 0..2
Spellings == {s \in [form : ValueForms, half : 0..1, ord : Orders] : s.form # "float" => s.half = 0}
(* bound: fractional floats in every keyword order, two integer forms in the declared order *)
SpellingsSome == {s \in Spellings : (s.form = "float" /\ s.half = 1) \/ (s.form \in {"pyint", "jaxint"} /\ s.ord = 0)}

AddAs(s) == /\ Route
            /\ Emit("Add", <<cnt + 1, s.form, s.half, s.ord>>, <<>>)

IndexVectors(t) == UNION {[1..b -> 0..(bufs[t].len - 1)] : b \in 1..MaxBatch}
(* the task is drawn from the active set, the rows from that task's buffer *)
Sample(t, idx) == /\ t \in active /\ UNCHANGED vars
                  /\ Emit("Sample", [task |-> t, idx |-> idx, len |-> bufs[t].len, active |-> active],
                          [k \in 1..Len(idx) |-> bufs[t].store[idx[k] + 1]])

TotalLen == LET S[t \in -1..(K-1)] == IF t = -1 THEN 0 ELSE S[t-1] + bufs[t].len IN S[K-1]
LenQuery == UNCHANGED vars /\ Emit("Len", <<>>, <<TotalLen>>)

Next == \/ \E k \in Tasks : Select(k)
        \/ \E k \in {-1, K, K + 1} : SelectInvalid(k)
        \/ Add
        \/ \E t \in active : \E idx \in IndexVectors(t) : Sample(t, idx)
        \/ LenQuery

Spec == Init /\ [][Next]_vars

(* the same operations with every call of add_sample spelled in every way *)
NextCalls == \/ \E k \in Tasks : Select(k)
             \/ \E k \in {-1, K, K + 1} : SelectInvalid(k)
             \/ \E s \in SpellingsSome : AddAs(s)
             \/ \E t \in active : \E idx \in IndexVectors(t) : Sample(t, idx)
             \/ LenQuery
----------------------------------------------------------------------------
LastK(s, k) == {s[i] : i \in (Len(s) - k + 1)..Len(s)}

(* every task's buffer is a FIFO of that task's own additions *)
PerTaskFifo == \A t \in Tasks :
   /\ bufs[t].len = Min(Len(hist[t]), N)
   /\ {bufs[t].store[i] : i \in 1..bufs[t].len} = LastK(hist[t], bufs[t].len)

ActiveExact == active = {t \in Tasks : Len(hist[t]) > 0}
(* a batch can only come from a task that already has data *)
ActiveHasData == \A t \in active : bufs[t].len > 0
SelValid == sel \in Tasks

(* additions go only to the selected task *)
TaskIsolation == [][\A t \in Tasks : t # sel => bufs'[t] = bufs[t] /\ hist'[t] = hist[t]]_vars

(* canary: adding to the selected task but marking task 0 active *)
AddBadActive == /\ cnt < MaxAdds
                /\ LET b == bufs[sel] IN
                     bufs' = [bufs EXCEPT ![sel] =
                               [store |-> [b.store EXCEPT ![b.ins + 1] = cnt + 1],
                                ins |-> (b.ins + 1) % N, len |-> Min(b.len + 1, N)]]
                /\ active' = active \cup {0}
                /\ hist' = [hist EXCEPT ![sel] = Append(@, cnt + 1)]
                /\ cnt' = cnt + 1 /\ UNCHANGED sel
NextBad == (\E k \in Tasks : Select(k)) \/ AddBadActive
=============================================================================
