------------------------ MODULE CheckpointingTrace ------------------------
(* code -> spec: validates traces recorded from the real                      *)
(* rl_blox.algorithm.td7.train_td7 (scripted environment, recording replay    *)
(* buffer / logger, interposed assessment function) against Checkpointing.    *)
(*                                                                            *)
(* A trace is [cfg |-> [maxEps, thresh, rw2, ls, gs], events |-> <<...>>];    *)
(* every episode of the run contributes an "Episode" event (what the          *)
(* environment did, what the routine handed to / got from the assessment      *)
(* function) and a "Release" event (what happened between the end of the      *)
(* episode and the next environment step); the run ends with an "End" event.  *)
(* The model takes EpisodeEnd / Release of Checkpointing with inputs derived  *)
(* from the ENVIRONMENT's log; the logged values of the routine are compared  *)
(* clause by clause, and a rejection names the clauses that fail.             *)
(*                                                                            *)
(* learning_starts (ls): "Learning starts after this number of random steps   *)
(* was taken in the environment" - steps with global index < ls are random    *)
(* steps, no training is due for them.  An episode that lies completely       *)
(* before ls is not assessed (SkipEpisode).  For the episode that straddles   *)
(* ls the documented reading (StraddleFull = FALSE) releases training only    *)
(* for its steps at or after ls ("batches the training that would have        *)
(* occurred"); StraddleFull = TRUE is the reading "the whole episode counts", *)
(* used to keep validating the rest of a trace after that one clause failed.  *)
EXTENDS Checkpointing, IOUtils

CONSTANT StraddleFull

VARIABLES tid,   \* index of the trace being validated
          l      \* position: 0 = before Configure, k = next event, -1 = stopped

tvars == <<vars, tid, l>>

Traces == JsonDeserialize(IOEnv.TRACE_FILE)
T == Traces[tid]
Ev == T.events[l]

Clip(x, lo, hi) == IF x < lo THEN lo ELSE IF x > hi THEN hi ELSE x
Max0(x) == IF x < 0 THEN 0 ELSE x

NRandDoc(e) == Clip(T.cfg.ls - e.start, 0, e.len)   \* steps of the episode with global index < ls
Skipped(e) == NRandDoc(e) = e.len                   \* the whole episode precedes learning
LenDoc(e) == IF StraddleFull THEN e.len ELSE e.len - NRandDoc(e)

(* verdict of one event: advance, or print the failing clauses and stop *)
Judge(bad) == IF bad = {}
                THEN l' = l + 1
                ELSE /\ PrintT(<<"REJECT", tid, l, ToJson(bad)>>)
                     /\ l' = -1

TInit == /\ Init
         /\ tid \in 1..Len(Traces)
         /\ l = 0

(* train_td7(..., max_episodes_when_checkpointing, steps_before_checkpointing, *)
(* reset_weight, learning_starts, global_step): epoch = max(0, gs - ls)       *)
TConfigure ==
  /\ l = 0
  /\ Configure(T.cfg.maxEps, T.cfg.thresh, T.cfg.rw2, Max0(T.cfg.gs - T.cfg.ls))
  /\ l' = 1
  /\ UNCHANGED tid

(* an episode that ended before learning started: nothing is assessed *)
SkipEpisode == /\ pc = "collect"
               /\ pc' = "release"
               /\ out' = NoOut
               /\ UNCHANGED <<cfg, eps, ts, maxEps, minRet, bestMin, epoch, collected, released, window, switches, n>>

EpisodeClauses(e) ==
  {c \in {"RandomSteps", "NoTrainingDuringEpisode", "Assessed", "GivenLen", "GivenReturn", "GivenEpoch",
          "GivenConfig", "Update", "TrainSteps", "State", "LoggedTrainSteps"} :
     ~ (CASE c = "RandomSteps" -> e.nrand = NRandDoc(e)
         [] c = "NoTrainingDuringEpisode" -> e.early = 0
         [] c = "Assessed" -> e.assessed = ~Skipped(e)
         [] c = "GivenLen" -> Skipped(e) \/ ~e.assessed \/ e.given.len = LenDoc(e)
         [] c = "GivenReturn" -> Skipped(e) \/ ~e.assessed \/ e.given.ret2 = H(e.ret)
         [] c = "GivenEpoch" -> Skipped(e) \/ ~e.assessed \/ e.given.epoch = epoch
         [] c = "GivenConfig" -> Skipped(e) \/ ~e.assessed \/
                                   (e.given.rw2 = cfg.rw2 /\ e.given.maxEps = cfg.maxEps /\ e.given.thresh = cfg.thresh)
         [] c = "Update" -> Skipped(e) \/ ~e.assessed \/ e.got.upd = out'.upd
         [] c = "TrainSteps" -> Skipped(e) \/ ~e.assessed \/ e.got.train = out'.train
         [] c = "State" -> Skipped(e) \/ ~e.assessed \/
                             e.state = [eps |-> eps', ts |-> ts', maxEps |-> maxEps', minRet |-> minRet', bestMin |-> bestMin']
         [] c = "LoggedTrainSteps" -> e.logged = out'.train)}

TEpisode ==
  /\ l \in 1..Len(T.events) /\ Ev.ev = "Episode"
  /\ IF Skipped(Ev) THEN SkipEpisode ELSE EpisodeEnd(LenDoc(Ev), Ev.ret)
  /\ Judge(EpisodeClauses(Ev))
  /\ UNCHANGED tid

(* between the end of the episode and the next environment step: the          *)
(* checkpoint is copied iff update, exactly out.train iterations run          *)
(* (one sample_batch + one update_priority each)                              *)
ReleaseClauses(e) ==
  {c \in {"Iterations", "PriorityUpdates", "CopyIffUpdate", "CheckpointIsAssessedPolicy", "CheckpointUntouched"} :
     ~ (CASE c = "Iterations" -> e.samples = out.train
         [] c = "PriorityUpdates" -> e.prios = out.train
         [] c = "CopyIffUpdate" -> e.copies = IF out.upd THEN 1 ELSE 0
         [] c = "CheckpointIsAssessedPolicy" -> out.upd => e.ckpt_eq
         [] c = "CheckpointUntouched" -> ~out.upd => ~e.ckpt_changed)}

TRelease ==
  /\ l \in 1..Len(T.events) /\ Ev.ev = "Release"
  /\ Release
  /\ Judge(ReleaseClauses(Ev))
  /\ UNCHANGED tid

(* end of the run: the routine returns the checkpoint copies; steps of an     *)
(* unfinished window stay unreleased                                          *)
EndClauses(e) ==
  {c \in {"ReturnsCheckpoint", "NoTrainingAfterLastEpisode"} :
     ~ (CASE c = "ReturnsCheckpoint" -> e.returns_ckpt
         [] c = "NoTrainingAfterLastEpisode" -> e.samples = 0)}

TEnd ==
  /\ l \in 1..Len(T.events) /\ Ev.ev = "End"
  /\ pc = "collect"
  /\ LET bad == EndClauses(Ev)
     IN IF bad = {} THEN PrintT(<<"ACCEPT", tid, l, released>>)
                    ELSE PrintT(<<"REJECT", tid, l, ToJson(bad)>>)
  /\ l' = -1
  /\ UNCHANGED <<vars, tid>>

(* an event that fits no action at all (wrong order of events) *)
TMalformed ==
  /\ l \in 1..Len(T.events)
  /\ ~ \/ (Ev.ev = "Episode" /\ pc = "collect")
       \/ (Ev.ev = "Release" /\ pc = "release")
       \/ (Ev.ev = "End" /\ pc = "collect")
  /\ PrintT(<<"REJECT", tid, l, ToJson({"EventOrder"})>>)
  /\ l' = -1
  /\ UNCHANGED <<vars, tid>>

TNext == TConfigure \/ TEpisode \/ TRelease \/ TEnd \/ TMalformed

(* the model-side properties hold along every validated trace as well *)
TraceConservation == Conservation
TraceSwitchOnce == switches <= 1
=============================================================================
