------------------------- MODULE ReturnsRollout -------------------------
(* C07 - the estimates of a PPO rollout: rl_blox.algorithm.ppo.train_ppo ->   *)
(* collect_trajectories (several calls continued through last_observation)    *)
(* -> update_ppo, on a vector environment whose sub-environments finish their *)
(* episodes alone, together, by termination or by truncation.                 *)
(*                                                                            *)
(* The defining recurrence of GAE uses delta_t = r_t + gamma V(s_{t+1}) - V(s_t) *)
(* with s_{t+1} the observation that step t of THAT environment returned.  A  *)
(* vector environment in SAME_STEP autoreset mode hands out the first         *)
(* observation of the NEXT episode in place of the final observation of an    *)
(* episode that just ended (and the final one in info["final_obs"]); the      *)
(* rollout has to put the final observation back - for EVERY environment that *)
(* finished at that step - otherwise the estimates of a truncated episode     *)
(* bootstrap from another episode.  (For a terminated step the next value is  *)
(* irrelevant: ReturnsOps.Delta multiplies it by 1 - terminated.)             *)
(*                                                                            *)
(* Environment model = harness/envs.ScriptEnv under gymnasium SyncVectorEnv   *)
(* (SAME_STEP) + RecordEpisodeStatistics: sub-environment e follows a cyclic  *)
(* script of episodes <<length, "term" | "trunc">>; the observation of step t *)
(* of episode ep is the tag <<ep, t, e>> (device D1), the reward of the step  *)
(* that reaches t is 16 (ep % 8) + t + 1/4.  The critic is a stub with        *)
(* V(tag) = VW . tag, injective on the tags of one step (ValueSeparates), so  *)
(* the kept next value tells exactly which observation it was computed from.  *)
(*                                                                            *)
(* Staged choice: scripts and the blocking of the T vector steps into         *)
(* collection calls are chosen first, then VecStep runs T times, then Finish  *)
(* emits the expected rollout of every block (environment-major rows, next    *)
(* values, per-environment GAE as a form in G = gamma, C = gamma lambda).     *)
EXTENDS ReturnsOps, FiniteSets, TLC, Json

CONSTANTS EMIT,       \* TRUE: print one EMIT record per completed rollout
          N,          \* number of sub-environments
          T,          \* vector steps
          Lens,       \* episode lengths a script may use
          NEps,       \* episodes per (cyclic) script
          BlockSizes, \* divisors bs of T: train_ppo(iterations = T / bs, batch_size = bs), one collect_trajectories / update_ppo per block
          Variant,    \* "spec" | deviations "last_finished_only", "reset_observation", "restored_only_with_logger"
          Setup       \* how the rollout is run: "logger_stats" (train_ppo with a logger; it wraps the environment in
                      \* RecordEpisodeStatistics), "no_logger" (train_ppo, logger = None), "logger_no_stats"
                      \* (collect_trajectories / update_ppo on the bare vector environment, with a logger).
                      \* The specified behaviour does NOT mention Setup: the same rollout is expected in all three;
                      \* only the deviation "restored_only_with_logger" reads it.

VARIABLES st, script, blocking, es, hist
vars == <<st, script, blocking, es, hist>>

Envs == 1..N
Endings == {"term", "trunc"}
ScriptSet == [1..NEps -> Lens \X Endings]

Emit(rec) == EMIT => PrintT(<<"EMIT", ToJson(rec)>>)

----------------------------------------------------------------------------
(* 1. The scripted sub-environment and the stub critic                      *)

Tag(s, e) == <<s.ep, s.t, e - 1>>
VW == <<I(4), One, Q(1, 4)>>
V(tag) == QAdd(QAdd(QMul(VW[1], I(tag[1])), QMul(VW[2], I(tag[2]))), QMul(VW[3], I(tag[3])))
Succ(tag) == <<tag[1], tag[2] + 1, tag[3]>>       \* the successor observation inside the same episode

(* one step of sub-environment e in state s = [ep, t] *)
EnvStep(e, sc, s) ==
  LET L    == sc[(s.ep % Len(sc)) + 1]
      t2   == s.t + 1
      done == t2 >= L[1]
  IN [obs   |-> Tag(s, e),
      final |-> <<s.ep, t2, e - 1>>,                       \* what the step itself returned
      reset |-> <<s.ep + 1, 0, e - 1>>,                    \* first observation of the next episode
      rew   |-> Q(4 * (16 * (s.ep % 8) + t2) + 1, 4),
      term  |-> IF done /\ L[2] = "term" THEN 1 ELSE 0,
      trunc |-> IF done /\ L[2] = "trunc" THEN 1 ELSE 0,
      done  |-> done,
      to    |-> IF done THEN [ep |-> s.ep + 1, t |-> 0] ELSE [ep |-> s.ep, t |-> t2]]

(* SyncVectorEnv.step in SAME_STEP mode: a finished sub-environment is reset in the same call *)
NextObs(x) == IF x.done THEN x.reset ELSE x.final

----------------------------------------------------------------------------
(* 2. ppo.collect_trajectories, one vector step                             *)

(* the observations the next values are computed from *)
SpecBootObs(xs) == [e \in Envs |-> IF xs[e].done THEN xs[e].final ELSE NextObs(xs[e])]
BootObs(xs) ==
  CASE Variant = "spec" -> SpecBootObs(xs)
    [] Variant = "last_finished_only" ->      \* deviation: every write starts again from the successor array
         LET fin == {e \in Envs : xs[e].done}
         IN [e \in Envs |-> IF e \in fin /\ \A f \in fin : f <= e THEN xs[e].final ELSE NextObs(xs[e])]
    [] Variant = "reset_observation" ->       \* deviation: the final observations are not put back at all
         [e \in Envs |-> NextObs(xs[e])]
    [] Variant = "restored_only_with_logger" ->  \* deviation: put back only while episode statistics are logged
         IF Setup = "logger_stats" THEN SpecBootObs(xs) ELSE [e \in Envs |-> NextObs(xs[e])]

Row(x, boot) ==
  [obs |-> x.obs, rew |-> x.rew, term |-> x.term, trunc |-> x.trunc, boot |-> boot, nv |-> V(boot),
   next |-> NextObs(x), devnv |-> V(NextObs(x)), v |-> V(x.obs)]

Init == st = "init" /\ script = <<>> /\ blocking = <<>> /\ es = <<>> /\ hist = <<>>

ChooseScripts ==
  /\ st = "init"
  /\ script' \in [Envs -> ScriptSet]
  /\ blocking' \in {[b \in 1..(T \div bs) |-> bs] : bs \in {x \in BlockSizes : T % x = 0}}
  /\ es' = [e \in Envs |-> [ep |-> 0, t |-> 0]]        \* train_ppo resets the vector environment once
  /\ st' = "run"
  /\ UNCHANGED hist

VecStep ==
  /\ st = "run" /\ Len(hist) < T
  /\ LET xs == [e \in Envs |-> EnvStep(e, script[e], es[e])]
         bo == BootObs(xs)
     IN /\ hist' = Append(hist, [e \in Envs |-> Row(xs[e], bo[e])])
        /\ es' = [e \in Envs |-> xs[e].to]
  /\ UNCHANGED <<st, script, blocking>>

----------------------------------------------------------------------------
(* 3. Blocks: what one collect_trajectories call returns and what update_ppo *)
(*    estimates from it                                                      *)

RECURSIVE SumTo(_, _)
SumTo(s, k) == IF k = 0 THEN 0 ELSE s[k] + SumTo(s, k - 1)
BlockStart(b) == SumTo(blocking, b - 1)                \* steps before block b
Col(b, e, f(_)) == [t \in 1..blocking[b] |-> f(hist[BlockStart(b) + t][e])]

FRew(r) == r.rew
FVal(r) == r.v
FNv(r)  == r.nv
FTerm(r) == r.term
FDev(r) == r.devnv

(* update_ppo: GAE per environment over the block's rows, cut at terminated steps only *)
Form(b, e, t) == AdvForm(Col(b, e, FRew), Col(b, e, FVal), Col(b, e, FNv), Col(b, e, FTerm), t)
(* ... as the deviation "reset_observation" would estimate it (for diagnosis) *)
DevForm(b, e, t) == AdvForm(Col(b, e, FRew), Col(b, e, FVal), Col(b, e, FDev), Col(b, e, FTerm), t)

(* reshape_batch: environment-major, i = (e-1) bs + t *)
Block(b) ==
  LET bs == blocking[b]
  IN [bs |-> bs,
      flat |-> [i \in 1..(N * bs) |->
                  LET e == ((i - 1) \div bs) + 1  t == ((i - 1) % bs) + 1
                      r == hist[BlockStart(b) + t][e]
                  IN [env |-> e - 1, t |-> t, obs |-> r.obs, rew |-> r.rew, term |-> r.term, trunc |-> r.trunc,
                      nv |-> r.nv, devnv |-> r.devnv, v |-> r.v,
                      form |-> Form(b, e, t), dev |-> DevForm(b, e, t)]],
      last |-> [e \in Envs |-> hist[BlockStart(b) + bs][e].next]]

(* the class of a vector step: per environment 0 = goes on, 1 = terminated, 2 = truncated; *)
(* and whether the step is the last one of a collection call                               *)
StepClass(k) == <<[e \in Envs |-> hist[k][e].term + 2 * hist[k][e].trunc],
                  IF \E b \in 1..Len(blocking) : BlockStart(b) + blocking[b] = k THEN 1 ELSE 0>>

Finish ==
  /\ st = "run" /\ Len(hist) = T
  /\ st' = "done"
  /\ UNCHANGED <<script, blocking, es, hist>>
  /\ Emit([kind |-> "rollout", n |-> N, scripts |-> script, blocking |-> blocking, vw |-> VW,
           blocks |-> [b \in 1..Len(blocking) |-> Block(b)],
           classes |-> {StepClass(k) : k \in 1..T}])

Next == ChooseScripts \/ VecStep \/ Finish
Spec == Init /\ [][Next]_vars

----------------------------------------------------------------------------
(* 4. Properties (C07)                                                      *)

TypeOK == st \in {"init", "run", "done"} /\ Len(hist) <= T

Steps == 1..Len(hist)

(* the TD residual of every step that did not terminate uses the value of the observation *)
(* this step of this environment returned - the episode's own final observation when the  *)
(* episode was cut there - for every environment, however many finish together           *)
BootIsOwnSuccessor ==
  \A k \in Steps : \A e \in Envs :
    hist[k][e].term = 0 => /\ hist[k][e].boot = Succ(hist[k][e].obs)
                           /\ hist[k][e].nv = V(Succ(hist[k][e].obs))

(* non-interference: what is kept for environment e is what a rollout of e alone keeps -  *)
(* the environments batched alongside it (their scripts, when they finish) do not matter  *)
RECURSIVE StateAt(_, _, _)
StateAt(e, sc, k) == IF k = 0 THEN [ep |-> 0, t |-> 0] ELSE EnvStep(e, sc, StateAt(e, sc, k - 1)).to
SoloRow(e, sc, k) == LET x == EnvStep(e, sc, StateAt(e, sc, k - 1))
                     IN Row(x, IF x.done THEN x.final ELSE NextObs(x))
EnvsIndependent ==
  \A k \in Steps : \A e \in Envs : hist[k][e] = SoloRow(e, script[e], k)

(* the stub critic tells apart all observations that could be confused at one step *)
ValueSeparates ==
  \A k \in Steps :
    LET cand == UNION {{hist[k][e].next, Succ(hist[k][e].obs)} : e \in Envs}
    IN \A a \in cand, b \in cand : a # b => V(a) # V(b)

(* consequence for the estimates: with the repository's discount factors (any G, C) the    *)
(* advantage form of a truncated step contains the own final observation's value          *)
TruncatedBootstrapsFromFinal ==
  \A k \in Steps : \A e \in Envs :
    hist[k][e].trunc = 1 => (hist[k][e].nv = V(Succ(hist[k][e].obs)) /\ hist[k][e].nv # hist[k][e].devnv)
=============================================================================
