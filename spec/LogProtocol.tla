---------------------------- MODULE LogProtocol ----------------------------
(* X05 - the logger protocol of the training routines of rl_blox: how a        *)
(* `train_*` routine drives the LoggerBase it is given (start_new_episode,      *)
(* stop_episode, record_stat, record_epoch).  No listed property states this.   *)
(*                                                                            *)
(* The module has two halves that share one abstract state and one set of      *)
(* clause operators:                                                           *)
(*                                                                            *)
(*  OBSERVER  Observe(cfg, s, call): what an outside observer who sees the      *)
(*            environment calls (reset / step with reward and end flag), the    *)
(*            logger calls and the component changes may conclude: new abstract *)
(*            state + the set of protocol clauses the call violates.  It is     *)
(*            re-used verbatim by LogProtocolTrace.tla on recorded executions   *)
(*            of the real routines.                                             *)
(*  PROGRAM   a program-counter model of the loop of a training routine,        *)
(*            configured by `cfg` (one record per routine, derived by reading    *)
(*            the code: harness/extras/x05_cfg.py).  It keeps the routine's OWN *)
(*            variables (step counter, steps_per_episode, accumulated_reward,   *)
(*            episode counters, the bookkeeping of RecordEpisodeStatistics) and *)
(*            issues the calls the routine issues, with the arguments computed  *)
(*            the way the routine computes them.  Actions: EnvReset, EnvStep,   *)
(*            LogStart, LogStop, LogStat, LogEpoch, Sample, Learn (one per      *)
(*            call) and Prologue / Body / VecBody (the loop sections).          *)
(*                                                                            *)
(* Model checking: the invariants say that the program, for every cfg and       *)
(* every environment behaviour within the bounds, never violates a clause of   *)
(* the observer; named deviations (DEV) are the realistic wrong variants and    *)
(* must be refuted.                                                            *)
EXTENDS Integers, Sequences, FiniteSets, TLC, Json, IOUtils

SetOf(q) == {q[i] : i \in 1..Len(q)}
Keys(pairs) == {pairs[i][1] : i \in 1..Len(pairs)}
ClassOf(pairs, k) == pairs[CHOOSE j \in 1..Len(pairs) : pairs[j][1] = k][2]
CopyTargets(cfg) == {cfg.copies[i][1] : i \in 1..Len(cfg.copies)}
CopyOf(cfg, t) == cfg.copies[CHOOSE j \in 1..Len(cfg.copies) : cfg.copies[j][1] = t]
Put(f, k, v) == [x \in DOMAIN f \cup {k} |-> IF x = k THEN v ELSE f[x]]
Max0(a) == IF a < 0 THEN 0 ELSE a

(* a call / event as the observer sees it *)
Call(op) == [op |-> op, env |-> 0, r4 |-> 0, ended |-> FALSE, n |-> 0, key |-> "", v4 |-> -1, ival |-> -1, step |-> -1, episode |-> -1,
             comp |-> "", fresh |-> FALSE, changed |-> <<>>, eplimit |-> 0]

(* events inside a learning segment; everything else (and a buffer `sample`) starts a new window *)
Learnish == {"log_stat", "log_epoch", "log_start", "log_stop", "update_priority", "reset_max_priority", "learn"}

----------------------------------------------------------------------------
(*                               OBSERVER                                     *)

ObsInit(cfg, nenvs, start, limit) ==
  [nenvs |-> nenvs, start |-> start, limit |-> limit, limFinished |-> 0,
   lopen |-> FALSE, lsteps |-> 0, starts |-> 0, stops |-> 0, sumStops |-> 0, abandoned |-> 0, emptyStarts |-> 0,
   executed |-> 0, resets |-> 0, emptyResets |-> 0, finished |-> 0, calls |-> 0, finLen |-> 0,
   phase |-> [e \in 0..(nenvs - 1) |-> "idle"], epR |-> [e \in 0..(nenvs - 1) |-> 0], epN |-> [e \in 0..(nenvs - 1) |-> 0],
   wr |-> [e \in 0..(nenvs - 1) |-> 0], wl |-> [e \in 0..(nenvs - 1) |-> 0], wprev |-> [e \in 0..(nenvs - 1) |-> FALSE],
   stopOwed |-> FALSE, retOwed |-> <<>>, tickOwed |-> 0,
   lastStep |-> [k \in {} |-> 0], dirty |-> {}, moved |-> {}, movedNow |-> {},
   batch |-> [n |-> -1, idx |-> 0], loopIdx |-> 0, returns |-> 0]

(* the routine's global step counter as an observer reconstructs it: start count + environment steps executed *)
GlobalStep(s) == s.start + s.executed

(* expected `step=` argument per class (x05_cfg.py) *)
ClassStep(s, class) ==
  CASE class = "G" -> GlobalStep(s)
    [] class = "Gm1" -> GlobalStep(s) - 1
    [] class = "none" -> -1
    [] class = "batch" -> GlobalStep(s) - s.batch.n + s.batch.idx
    [] class = "calls" -> s.calls
    [] class = "calls_before" -> s.calls - s.nenvs
    [] class = "finished_len" -> s.finLen
    [] class = "loop_index" -> s.loopIdx
    [] OTHER -> -2

EpisodeArg(cfg, s) ==
  CASE cfg.episode_arg = "index1" -> s.resets        \* own 1-based counter of the current episode
    [] cfg.episode_arg = "starts_m1" -> s.starts - 1  \* logger.n_episodes - 1
    [] OTHER -> -1

(* what stop_episode receives *)
StopArgExpected(cfg, s) == IF cfg.stop_arg = "episode_steps" THEN s.lsteps ELSE GlobalStep(s)

(* component changes: dirty = changed since the component's last epoch record; moved = copy targets whose source changed
   since the target's last epoch record, as of the start of the current window (movedNow: within the current window) *)
Mark(cfg, s, c) ==
  LET ch == SetOf(c.changed)
      mn == s.movedNow \cup {t \in CopyTargets(cfg) : CopyOf(cfg, t)[2] \in ch}
      ws == c.op \notin Learnish
  IN [s EXCEPT !.dirty = @ \cup ch,
               !.moved = IF ws THEN @ \cup mn ELSE @,
               !.movedNow = IF ws THEN {} ELSE mn,
               !.batch = IF c.op = "sample" THEN [@ EXCEPT !.idx = @ + 1] ELSE @]

(* obligations that must be settled before the next environment call *)
Owed(s) ==
  (IF s.stopOwed THEN {"StopMissing"} ELSE {})
  \cup (IF Len(s.retOwed) > 0 THEN {"ReturnMissing"} ELSE {})
  \cup (IF s.tickOwed > 0 THEN {"TickMissing"} ELSE {})
  \cup (IF s.batch.n >= 0 /\ s.batch.idx # s.batch.n THEN {"BatchLength"} ELSE {})
Settle(s) == [s EXCEPT !.stopOwed = FALSE, !.retOwed = <<>>, !.tickOwed = 0, !.batch = [n |-> -1, idx |-> 0]]
CallStart(cfg, c) == ~cfg.vector \/ c.env = 0

ObsReset(cfg, s0, c) ==
  LET e == c.env
      auto == cfg.wrapper = "next_step" /\ s0.phase[e] = "ended"   \* NEXT_STEP vector env: this call resets instead of stepping
      cs == auto /\ CallStart(cfg, c)
      s == IF cs THEN Settle(s0) ELSE s0
  IN [bad |-> IF cs THEN Owed(s0) ELSE {},
      s |-> [s EXCEPT !.resets = @ + 1,
                      !.emptyResets = IF s.phase[e] = "running" /\ s.epN[e] = 0 THEN @ + 1 ELSE @,
                      !.phase[e] = "running", !.epR[e] = 0, !.epN[e] = 0,
                      !.calls = IF auto THEN @ + 1 ELSE @,
                      !.wr[e] = IF auto THEN 0 ELSE @, !.wl[e] = IF auto THEN 0 ELSE @, !.wprev[e] = IF auto THEN FALSE ELSE @]]

ObsStep(cfg, s0, c) ==
  LET e == c.env
      cs == CallStart(cfg, c)
      s == IF cs THEN Settle(s0) ELSE s0
      outside == cfg.mode = "on" /\ cfg.bracket \in {"full", "open_only"} /\ ~s.lopen
      r == s.epR[e] + c.r4
      n == s.epN[e] + 1
      w == cfg.wrapper # "none"
      (* gymnasium.wrappers.vector.RecordEpisodeStatistics.step: the call after an episode end is not counted *)
      wr1 == IF ~w \/ s.wprev[e] THEN 0 ELSE s.wr[e] + c.r4
      wl1 == IF ~w \/ s.wprev[e] THEN 0 ELSE s.wl[e] + 1
      owe == IF ~c.ended \/ cfg.mode = "off" THEN <<>>
             ELSE IF cfg.return_src = "own" \/ (cfg.return_src = "info" /\ cfg.info_supplied) THEN <<[v |-> r, l |-> n]>>
             ELSE IF cfg.return_src = "wrapper" THEN <<[v |-> wr1, l |-> wl1]>>
             ELSE <<>>
  IN [bad |-> (IF cs THEN Owed(s0) ELSE {}) \cup (IF outside THEN {"StepOutsideEpisode"} ELSE {}),
      s |-> [s EXCEPT !.executed = @ + 1, !.calls = @ + 1,
                      !.lopen = IF outside THEN TRUE ELSE @,            \* re-synchronise: as if the missing start had happened
                      !.lsteps = IF outside THEN 1 ELSE @ + 1,
                      !.epR[e] = r, !.epN[e] = n, !.wr[e] = wr1, !.wl[e] = wl1, !.wprev[e] = w /\ c.ended,
                      !.finished = IF c.ended THEN @ + 1 ELSE @, !.limFinished = IF c.ended THEN @ + 1 ELSE @,
                      !.phase[e] = IF c.ended THEN "ended" ELSE "running",
                      !.stopOwed = IF c.ended /\ cfg.mode = "on" /\ cfg.bracket = "full" THEN TRUE ELSE @,
                      !.retOwed = @ \o owe]]

ObsStart(cfg, s, c) ==
  LET bad == CASE cfg.mode = "off" -> {"LoggerNotPassed"}
               [] cfg.bracket = "full" ->
                    (IF s.lopen /\ ~(cfg.empty_restart /\ s.lsteps = 0) THEN {"StartWhileOpen"} ELSE {})
                    \cup (IF cfg.has_limit /\ s.limit > 0 /\ s.limFinished >= s.limit THEN {"StartAfterLimit"} ELSE {})
               [] cfg.bracket = "open_only" -> IF s.starts >= 1 THEN {"StartWhileOpen"} ELSE {}
               [] cfg.bracket = "tick" -> IF s.tickOwed > 0 \/ (cfg.start_first /\ s.starts = 0 /\ s.executed = 0) THEN {} ELSE {"UnexpectedStart"}
               [] OTHER -> {"UnexpectedStart"}
  IN [bad |-> bad,
      s |-> [s EXCEPT !.starts = @ + 1, !.emptyStarts = IF s.lopen /\ s.lsteps = 0 THEN @ + 1 ELSE @,
                      !.lopen = TRUE, !.lsteps = 0, !.stopOwed = FALSE, !.tickOwed = Max0(@ - 1)]]

ObsStop(cfg, s, c) ==
  LET bad == CASE cfg.mode = "off" -> {"LoggerNotPassed"}
               [] cfg.bracket = "full" ->
                    (IF ~s.lopen THEN {"StopWhileClosed"} ELSE {})
                    \cup (IF s.lopen /\ ~s.stopOwed THEN {"StopMidEpisode"} ELSE {})
                    \cup (IF c.n # StopArgExpected(cfg, s) THEN {"StopArg"} ELSE {})
               [] OTHER -> {"UnexpectedStop"}
  IN [bad |-> bad,
      s |-> [s EXCEPT !.stops = @ + 1, !.sumStops = @ + c.n, !.lopen = FALSE, !.stopOwed = FALSE]]

StepClauses(s, key, class, step) ==
  (IF step # ClassStep(s, class) THEN {"StepArg"} ELSE {})
  \cup (IF class # "none" /\ key \in DOMAIN s.lastStep /\ step < s.lastStep[key] THEN {"StepMonotone"} ELSE {})

(* the per-episode "return" statistic *)
ObsReturn(cfg, s, c) ==
  IF cfg.return_src = "none" \/ (cfg.return_src = "info" /\ ~cfg.info_supplied) \/ Len(s.retOwed) = 0 \/ "return" \notin Keys(cfg.stats)
  THEN [bad |-> {"ReturnWithoutEpisode"}, s |-> s]
  ELSE LET h == Head(s.retOwed)
           s2 == [s EXCEPT !.retOwed = Tail(@), !.finLen = @ + h.l, !.returns = @ + 1,
                           !.tickOwed = IF cfg.bracket = "tick" THEN @ + 1 ELSE @,
                           !.lastStep = Put(@, "return", c.step)]
           pos == CASE cfg.return_pos = "before_stop" -> s.stopOwed
                    [] cfg.return_pos = "after_start" -> s.lopen /\ s.lsteps = 0 /\ ~s.stopOwed
                    [] OTHER -> TRUE
       IN [bad |-> (IF c.v4 # h.v THEN {"ReturnValue"} ELSE {})
                   \cup StepClauses(s2, "return", ClassOf(cfg.stats, "return"), c.step)
                   \cup (IF c.episode # EpisodeArg(cfg, s) THEN {"EpisodeArg"} ELSE {})
                   \cup (IF ~pos THEN {"ReturnPosition"} ELSE {}),
           s |-> s2]

ObsStat(cfg, s, c) ==
  IF cfg.mode = "off" THEN [bad |-> {"LoggerNotPassed"}, s |-> s]
  ELSE IF c.key = "return" THEN ObsReturn(cfg, s, c)
  ELSE IF c.key \notin Keys(cfg.stats) THEN [bad |-> {"UnknownStatKey"}, s |-> s]
  ELSE LET class == ClassOf(cfg.stats, c.key)
       IN [bad |-> StepClauses(s, c.key, class, c.step) \cup (IF c.episode # EpisodeArg(cfg, s) THEN {"EpisodeArg"} ELSE {}),
           s |-> [s EXCEPT !.lastStep = Put(@, c.key, c.step),
                           !.loopIdx = IF class = "loop_index" THEN @ + 1 ELSE @,
                           (* the statistic whose value announces the number of gradient iterations that follow *)
                           !.batch = IF c.key = cfg.batch_key THEN [n |-> c.ival, idx |-> 0] ELSE @]]

(* record_epoch(key, module): only directly after an update of that component *)
ObsEpoch(cfg, s, c) ==
  IF cfg.mode = "off" THEN [bad |-> {"LoggerNotPassed"}, s |-> s]
  ELSE IF c.key \notin Keys(cfg.epochs) THEN [bad |-> {"UnknownEpochKey"}, s |-> s]
  ELSE LET k == c.comp
           iscopy == k \in CopyTargets(cfg)
           lag == iscopy /\ CopyOf(cfg, k)[3]
           srcmoved == IF lag THEN k \in s.moved ELSE k \in (s.moved \cup s.movedNow)
           updated == k = "" \/ c.fresh \/ k \in s.dirty \/ (iscopy /\ ~srcmoved)
       IN [bad |-> StepClauses(s, "epoch:" \o c.key, ClassOf(cfg.epochs, c.key), c.step) \cup (IF ~updated THEN {"EpochWithoutUpdate"} ELSE {}),
           s |-> [s EXCEPT !.lastStep = Put(@, "epoch:" \o c.key, c.step),
                           !.dirty = @ \ {k}, !.moved = @ \ {k}, !.movedNow = IF lag THEN @ ELSE @ \ {k}]]

(* a chained call of the single-task learner (multi-task schedulers): an episode left open by the previous call is abandoned *)
ObsInnerCall(cfg, s, c) ==
  [bad |-> IF s.stopOwed THEN {"StopMissing"} ELSE {},
   s |-> IF cfg.abandon_on_inner_call
         THEN [s EXCEPT !.abandoned = IF s.lopen THEN @ + s.lsteps ELSE @, !.lopen = FALSE, !.stopOwed = FALSE, !.limit = c.eplimit, !.limFinished = 0]
         ELSE s]

Observe(cfg, s0, c) ==
  LET s == Mark(cfg, s0, c)
  IN CASE c.op = "reset" -> ObsReset(cfg, s, c)
       [] c.op = "step" -> ObsStep(cfg, s, c)
       [] c.op = "log_start" -> ObsStart(cfg, s, c)
       [] c.op = "log_stop" -> ObsStop(cfg, s, c)
       [] c.op = "log_stat" -> ObsStat(cfg, s, c)
       [] c.op = "log_epoch" -> ObsEpoch(cfg, s, c)
       [] c.op = "inner_call" -> ObsInnerCall(cfg, s, c)
       [] OTHER -> [bad |-> {}, s |-> s]

(* what must hold when the run is over *)
Final(cfg, s) ==
  IF cfg.mode = "off" THEN {}
  ELSE Owed(s)
       \cup (IF cfg.bracket = "full" /\ s.sumStops + (IF s.lopen THEN s.lsteps ELSE 0) + s.abandoned # s.executed THEN {"StepsAccounted"} ELSE {})
       \cup (IF cfg.bracket = "full"
                /\ s.starts - (s.emptyStarts + (IF s.lopen /\ s.lsteps = 0 THEN 1 ELSE 0))
                   # s.resets - (s.emptyResets + Cardinality({e \in DOMAIN s.phase : s.phase[e] = "running" /\ s.epN[e] = 0}))
             THEN {"StartsMatchEpisodes"} ELSE {})

BracketClauses == {"LoggerNotPassed", "StartWhileOpen", "UnexpectedStart", "StopWhileClosed", "UnexpectedStop", "StopMidEpisode", "StepOutsideEpisode",
                   "StopMissing", "TickMissing", "StartAfterLimit", "StartsMatchEpisodes"}
StopArgClauses == {"StopArg", "StepsAccounted"}
ReturnClauses == {"ReturnValue", "ReturnWithoutEpisode", "ReturnPosition", "ReturnMissing"}
StepArgClauses == {"StepArg", "StepMonotone", "EpisodeArg", "UnknownStatKey", "BatchLength"}
EpochClauses == {"EpochWithoutUpdate", "UnknownEpochKey"}

----------------------------------------------------------------------------
(*                               PROGRAM                                      *)
CONSTANTS MaxSteps,   \* total_timesteps - start (environment steps; vector routines: vector calls)
          MaxEpLen,   \* the environment ends an episode after at most this many steps
          Rewards,    \* 4 * reward, a set of integers
          Start,      \* global_step at entry
          EpLimit,    \* total_episodes (0 = none)
          Warm,       \* learning_starts (relative to step index)
          Block,      \* steps per collection call / rollout block (on-policy routines)
          DEV         \* "none" or the name of a deviation

Cfgs == JsonDeserialize(IOEnv.CFG_FILE)

VARIABLES cid, pc, p, envs, todo, s, viol
vars == <<cid, pc, p, envs, todo, s, viol>>
Cfg == Cfgs[cid]

PInit == [g |-> Start, g0 |-> Start, epsteps |-> 0, acc |-> 0, prevacc |-> 0, episode |-> 1, epidx |-> 0, nstarts |-> 0, k |-> 0, collected |-> 0,
          sinceTrain |-> 0, vcalls |-> 0, fin |-> 0, iter |-> 0, inblock |-> 0,
          wr |-> [e \in 0..1 |-> 0], wl |-> [e \in 0..1 |-> 0], wprev |-> [e \in 0..1 |-> FALSE]]

Init == /\ cid \in 1..Len(Cfgs)
        /\ pc = "prologue" /\ p = PInit
        /\ envs = [e \in 0..1 |-> [t |-> 0, ended |-> FALSE]]
        /\ todo = <<>> /\ viol = {}
        /\ s = ObsInit(Cfgs[cid], IF Cfgs[cid].vector THEN 2 ELSE 1, Start, EpLimit)

(* ---- the arguments as the routine computes them, from ITS OWN variables *)
ProgStep(class, g, n, idx, pp) ==
  CASE class = "G" -> (IF DEV = "step_not_advanced" THEN pp.g0 ELSE g)
    [] class = "Gm1" -> (IF DEV = "step_not_advanced" THEN pp.g0 ELSE g - 1)
    [] class = "none" -> -1
    [] class = "batch" -> g - n + idx
    [] class = "calls" -> pp.vcalls
    [] class = "calls_before" -> pp.vcalls
    [] class = "finished_len" -> (IF DEV = "step_not_advanced" THEN 0 ELSE pp.fin)
    [] class = "loop_index" -> pp.iter
    [] OTHER -> -2
ProgEpisode(pp) == CASE Cfg.episode_arg = "index1" -> pp.episode [] Cfg.episode_arg = "starts_m1" -> pp.nstarts - 1 [] OTHER -> -1

CStart == Call("log_start")
CStop(n) == [Call("log_stop") EXCEPT !.n = n]
CReset(e) == [Call("reset") EXCEPT !.env = e]
CStepEv(e, r, end) == [Call("step") EXCEPT !.env = e, !.r4 = r, !.ended = end]
CStat(key, step, pp) == [Call("log_stat") EXCEPT !.key = key, !.step = step, !.episode = ProgEpisode(pp)]
CRet(v, step, pp) == [Call("log_stat") EXCEPT !.key = "return", !.v4 = v, !.step = step, !.episode = ProgEpisode(pp)]
CEpoch(key, step) == [Call("log_epoch") EXCEPT !.key = key, !.comp = key, !.step = step]
CLearn(comps) == [Call("learn") EXCEPT !.changed = comps]
CSample == Call("sample")

RECURSIVE Flat(_)
Flat(ss) == IF Len(ss) = 0 THEN <<>> ELSE Head(ss) \o Flat(Tail(ss))

(* one gradient iteration number it of a batch of n (idx-th): sample, update of the due units, their statistics, their epochs *)
Due(u, it) == it % u[4] = 0
Iteration(g, n, idx, it, pp) ==
  LET us == Cfg.units
      dq == SelectSeq(us, LAMBDA u : Due(u, it))
      isdue(i) == Due(us[i], it)
      isrec(i) == DEV = "epoch_every_step" \/ isdue(i)
  IN <<CSample, CLearn([i \in 1..Len(dq) |-> dq[i][1]])>>
     \o Flat([i \in 1..Len(us) |-> IF isdue(i) /\ us[i][2] # "" THEN <<CStat(us[i][2], ProgStep(ClassOf(Cfg.stats, us[i][2]), g, n, idx, pp), pp)>> ELSE <<>>])
     \o Flat([i \in 1..Len(us) |-> IF isrec(i) /\ us[i][3] # "" THEN <<CEpoch(us[i][3], ProgStep(ClassOf(Cfg.epochs, us[i][3]), g, n, idx, pp))>> ELSE <<>>])

(* a learning section of n iterations after g executed steps; routines with a batch statistic announce n first *)
LearnCalls(g, n, pp) ==
  (IF Cfg.batch_key # "" THEN <<[CStat(Cfg.batch_key, ProgStep("G", g, n, 0, pp), pp) EXCEPT !.ival = n]>> ELSE <<>>)
  \o Flat([idx \in 1..n |-> Iteration(g, n, idx, pp.k + idx, pp)])

RetCall(g, pp) ==
  CRet(IF DEV = "stale_return" THEN pp.prevacc ELSE pp.acc, ProgStep(ClassOf(Cfg.stats, "return"), g, 1, 1, pp), pp)
StopCall(g, pp) == CStop(IF DEV = "stop_global_step" THEN g ELSE pp.epsteps)
StartCalls == IF DEV = "no_restart" THEN <<>> ELSE <<CStart>>

AtLimit(pp) == EpLimit > 0 /\ pp.epidx + 1 >= EpLimit

(* the calls at an episode end (pp: program variables after the step) *)
EndingCalls(g, pp, more) ==
  CASE Cfg.ending = "ret_stop_start_reset" ->
         (IF DEV = "return_after_stop" THEN <<StopCall(g, pp), RetCall(g, pp)>> ELSE <<RetCall(g, pp), StopCall(g, pp)>>)
         \o (IF Cfg.has_limit /\ AtLimit(pp) THEN <<>> ELSE StartCalls \o <<CReset(0)>>)
    [] Cfg.ending = "stop_start_reset" ->
         (IF Cfg.return_src = "info" /\ Cfg.info_supplied THEN <<RetCall(g, pp)>> ELSE <<>>) \o <<StopCall(g, pp)>> \o StartCalls \o <<CReset(0)>>
    [] Cfg.ending = "reset_stop_start_ret" ->
         <<CReset(0), StopCall(g, pp)>> \o StartCalls \o <<RetCall(g, pp), CEpoch("policy", -1)>>
         \o (IF more /\ ~AtLimit(pp) THEN <<CLearn(<<"policy">>)>> ELSE <<>>)          \* set_params of the next candidate
    [] Cfg.ending = "ret_reset" -> <<RetCall(g, pp), CReset(0)>>
    [] Cfg.ending = "stop_start" ->
         <<StopCall(g, pp)>> \o StartCalls
         \o (IF pp.collected >= Block
             THEN <<CStat("average return", -1, [pp EXCEPT !.nstarts = @ + 1])>>
                  \o Flat([i \in 1..Len(Cfg.units) |-> <<CLearn(<<Cfg.units[i][1]>>), CStat(Cfg.units[i][2], -1, [pp EXCEPT !.nstarts = @ + 1]), CEpoch(Cfg.units[i][3], -1)>>])
                  \o (IF more THEN <<CStart, CReset(0)>> ELSE <<>>)                  \* the next collection call
             ELSE <<CReset(0)>>)
    [] OTHER -> <<>>

Prologue ==
  /\ pc = "prologue" /\ todo = <<>>
  /\ todo' = (CASE Cfg.prologue = "start_reset" -> <<CStart, CReset(0)>>
                [] Cfg.prologue = "call" -> <<CStart, CReset(0)>>
                [] Cfg.prologue = "reset_start" -> (IF Cfg.vector THEN <<CReset(0), CReset(1), CStart>> ELSE <<CReset(0), CStart>>)
                [] OTHER -> (IF Cfg.vector THEN <<CReset(0), CReset(1)>> ELSE <<CReset(0)>>))
             \o (IF Cfg.learn_pos = "episode_start" THEN <<CLearn(<<"policy">>)>> ELSE <<>>)
  /\ pc' = "loop"
  /\ p' = [p EXCEPT !.nstarts = IF Cfg.prologue \in {"start_reset", "call", "reset_start"} THEN 1 ELSE 0]
  /\ UNCHANGED <<cid, envs, s, viol>>

(* one pass of the loop body of a single-environment routine: [learn], step, [learn], [episode end] *)
Body(r, end0) ==
  /\ pc = "loop" /\ todo = <<>> /\ ~Cfg.vector /\ Cfg.mode = "on"
  /\ (p.g < Start + MaxSteps \/ Cfg.ending = "stop_start")              \* a collection call runs to the end of its episode
  /\ LET end == end0 \/ envs[0].t + 1 >= MaxEpLen
         t == p.g                                                        \* index of the step about to be executed
         (* pets: the model is refined before step t when (t - learning_starts) % n_steps_per_iteration = 0; here 2 *)
         pre == IF Cfg.learn_pos = "before_step" /\ t >= Warm /\ (t - Warm) % 2 = 0 THEN LearnCalls(t, 1, p) ELSE <<>>
         p0 == IF Len(pre) > 0 THEN [p EXCEPT !.k = @ + 1] ELSE p
         g == p.g + 1
         p1 == [p0 EXCEPT !.g = g, !.epsteps = @ + 1, !.acc = @ + r, !.collected = @ + 1, !.sinceTrain = @ + 1]
         nlearn == CASE Cfg.learn_pos = "after_step" /\ t >= Warm -> 1
                     [] Cfg.learn_pos = "batched" /\ t >= Warm /\ end -> p1.sinceTrain
                     [] OTHER -> 0
         post == IF nlearn > 0 THEN LearnCalls(g, nlearn, p1) ELSE <<>>
         p2 == IF nlearn > 0 THEN [p1 EXCEPT !.k = @ + nlearn, !.sinceTrain = 0] ELSE p1
         more == g < Start + MaxSteps
         ending == IF end THEN EndingCalls(g, p2, more) ELSE <<>>
         stopnow == end /\ ((Cfg.has_limit \/ Cfg.ending = "reset_stop_start_ret") /\ AtLimit(p2))
         p3 == IF end THEN [p2 EXCEPT !.epsteps = 0, !.prevacc = p2.acc, !.acc = 0, !.episode = @ + 1, !.epidx = @ + 1,
                                      !.nstarts = @ + Cardinality({i \in 1..Len(ending) : ending[i].op = "log_start"}),
                                      !.collected = IF Cfg.ending = "stop_start" /\ p2.collected >= Block THEN 0 ELSE @]
               ELSE p2
     IN /\ todo' = pre \o <<CStepEv(0, r, end)>> \o post \o ending
        /\ p' = p3
        /\ envs' = [envs EXCEPT ![0] = IF end THEN [t |-> 0, ended |-> TRUE] ELSE [t |-> envs[0].t + 1, ended |-> FALSE]]
        /\ pc' = IF stopnow \/ (Cfg.ending = "stop_start" /\ end /\ p2.collected >= Block /\ ~more) THEN "done" ELSE "loop"
  /\ UNCHANGED <<cid, s, viol>>

(* a routine that is not given a logger: environment interaction only *)
BodyOff(r, end0) ==
  /\ pc = "loop" /\ todo = <<>> /\ Cfg.mode = "off" /\ p.g < Start + MaxSteps
  /\ LET end == end0 \/ envs[0].t + 1 >= MaxEpLen
     IN /\ todo' = <<CStepEv(0, r, end)>> \o (IF end THEN <<CReset(0)>> ELSE <<>>)
        /\ envs' = [envs EXCEPT ![0] = IF end THEN [t |-> 0, ended |-> TRUE] ELSE [t |-> envs[0].t + 1, ended |-> FALSE]]
  /\ p' = [p EXCEPT !.g = @ + 1]
  /\ UNCHANGED <<cid, pc, s, viol>>

(* one vector call of a routine on two sub-environments + the logging that follows it; the program keeps the arrays of
   gymnasium's RecordEpisodeStatistics (prev_dones accounting) *)
VecBody(r0, e0, r1, e1) ==
  /\ pc = "loop" /\ todo = <<>> /\ Cfg.vector
  /\ p.vcalls < 2 * MaxSteps
  /\ LET rr == <<r0, r1>>
         want == <<e0, e1>>
         auto(e) == Cfg.wrapper = "next_step" /\ envs[e].ended            \* this call resets the sub-environment instead of stepping it
         done(e) == ~auto(e) /\ (want[e + 1] \/ envs[e].t + 1 >= MaxEpLen)
         rew(e) == IF auto(e) THEN 0 ELSE rr[e + 1]
         evs(e) == IF auto(e) THEN <<CReset(e)>>
                   ELSE <<CStepEv(e, rr[e + 1], done(e))>> \o (IF done(e) /\ Cfg.wrapper = "same_step" THEN <<CReset(e)>> ELSE <<>>)
         wr1 == [e \in 0..1 |-> IF p.wprev[e] THEN 0 ELSE p.wr[e] + rew(e)]
         wl1 == [e \in 0..1 |-> IF p.wprev[e] THEN 0 ELSE p.wl[e] + 1]
         fin0 == p.fin + (IF done(0) THEN wl1[0] ELSE 0)
         fin1 == fin0 + (IF done(1) THEN wl1[1] ELSE 0)
         tick == IF DEV = "tick_missing" THEN <<>> ELSE <<CStart>>
         log(e, f) == IF done(e) THEN <<CRet(IF DEV = "stale_return" THEN 0 ELSE wr1[e], ProgStep(ClassOf(Cfg.stats, "return"), 0, 1, 1, [p EXCEPT !.fin = f]), p)>> \o tick ELSE <<>>
         inblock == p.inblock + 1
         vc == p.vcalls + 2
         pl == [p EXCEPT !.vcalls = vc]
         learn == IF inblock >= Block
                  THEN <<CLearn(<<"policy">>)>> \o Flat([i \in 1..Len(Cfg.units) |-> <<CStat(Cfg.units[i][2], ProgStep(ClassOf(Cfg.stats, Cfg.units[i][2]), 0, 1, 1, pl), pl)>>])
                  ELSE <<>>
     IN /\ todo' = evs(0) \o evs(1) \o log(0, fin0) \o log(1, fin1) \o learn
        /\ p' = [p EXCEPT !.vcalls = vc, !.wr = wr1, !.wl = wl1, !.wprev = [e \in 0..1 |-> done(e)], !.fin = fin1,
                          !.inblock = IF inblock >= Block THEN 0 ELSE inblock, !.iter = IF inblock >= Block THEN @ + 1 ELSE @]
        /\ envs' = [e \in 0..1 |-> IF auto(e) THEN [t |-> 0, ended |-> FALSE]
                                   ELSE IF done(e) THEN [t |-> 0, ended |-> Cfg.wrapper = "next_step"]
                                   ELSE [t |-> envs[e].t + 1, ended |-> FALSE]]
  /\ UNCHANGED <<cid, pc, s, viol>>

Finish == /\ pc = "loop" /\ todo = <<>>
          /\ (IF Cfg.vector THEN p.vcalls >= 2 * MaxSteps ELSE p.g >= Start + MaxSteps /\ Cfg.ending # "stop_start")
          /\ pc' = "done" /\ UNCHANGED <<cid, p, envs, todo, s, viol>>

(* ---- the calls themselves: the head of the routine's pending calls is issued and observed *)
Pending(op) == Len(todo) > 0 /\ Head(todo).op = op
Issue ==
  /\ LET o == Observe(Cfg, s, Head(todo)) IN s' = o.s /\ viol' = viol \cup o.bad
  /\ todo' = Tail(todo)
  /\ UNCHANGED <<cid, pc, p, envs>>

EnvReset == /\ Pending("reset") /\ Issue          \* env.reset()
EnvStep == /\ Pending("step") /\ Issue            \* env.step(a) -> reward r, end flag
LogStart == /\ Pending("log_start") /\ Issue      \* logger.start_new_episode()
LogStop == /\ Pending("log_stop") /\ Issue        \* logger.stop_episode(n)
LogStat == /\ Pending("log_stat") /\ Issue        \* logger.record_stat(key, v, step=, episode=)
LogEpoch == /\ Pending("log_epoch") /\ Issue      \* logger.record_epoch(key, module, step=)
Sample == /\ Pending("sample") /\ Issue           \* replay_buffer.sample_batch: a gradient iteration begins
Learn == /\ Pending("learn") /\ Issue             \* the update functions change the components named in the call

Next == \/ Prologue
        \/ \E r \in Rewards, end \in BOOLEAN : Body(r, end) \/ BodyOff(r, end)
        \/ \E r0 \in Rewards, r1 \in Rewards, e0 \in BOOLEAN, e1 \in BOOLEAN : VecBody(r0, e0, r1, e1)
        \/ Finish
        \/ EnvReset \/ EnvStep \/ LogStart \/ LogStop \/ LogStat \/ LogEpoch \/ Sample \/ Learn

(* ---- invariants (items 1-5 of the module's brief) *)
EpisodeBracketing == viol \cap BracketClauses = {}
StopArgument == viol \cap StopArgClauses = {}
ReturnStatistic == viol \cap ReturnClauses = {}
StepArguments == viol \cap StepArgClauses = {}
EpochAfterUpdate == viol \cap EpochClauses = {}
RunEndsAccounted == (pc = "done" /\ todo = <<>>) => Final(Cfg, s) = {}
(* the counters of both halves agree whenever the program is between sections *)
CountersAgree == todo = <<>> =>
                   /\ (~Cfg.vector => GlobalStep(s) = p.g)
                   /\ (Cfg.vector => s.calls = p.vcalls)
                   /\ (Cfg.mode = "on" /\ ~Cfg.vector /\ DEV = "none" => s.starts = p.nstarts)

(* ---- witnesses: situations the model must be able to reach (TLC must report them "violated"; vacuity guard) *)
WitnessBackdatedBatch == ~(s.batch.n >= 2 /\ s.batch.idx = s.batch.n)                      \* batched training of >= 2 iterations
WitnessStopsAtLimit == ~(pc = "done" /\ todo = <<>> /\ Cfg.has_limit /\ s.limit > 0 /\ s.limFinished >= s.limit /\ ~s.lopen)
WitnessDanglingStart == ~(s.emptyStarts >= 2)                                              \* reinforce: a start while an empty episode is open
WitnessWrapperDropsStep == ~(\E e \in DOMAIN s.phase : s.phase[e] = "ended" /\ s.wprev[e] /\ s.wr[e] # s.epR[e])  \* SAME_STEP: supplied return # reward sum
WitnessOpenAtEnd == ~(pc = "done" /\ todo = <<>> /\ s.lopen /\ s.lsteps > 0)                \* the run ends in the middle of an episode
=============================================================================
