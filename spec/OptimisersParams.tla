------------------------- MODULE OptimisersParams -------------------------
(* flat_params / set_params of rl_blox.algorithm.cmaes: the trainable leaves of *)
(* a network (nnx.state(net, nnx.Param), in tree-leaf order) <-> one flat       *)
(* vector.  A network is abstracted to the sequence of its leaf sizes; values   *)
(* are TAGS (device D1): the vector written by the optimiser is <<1, .., P>> or  *)
(* <<P, .., 1>>, the initial parameters are <<-1, .., -P>>, so every entry of    *)
(* every leaf names the vector position it came from.                            *)
EXTENDS Integers, Sequences, FiniteSets, TLC, Json, IOUtils

CONSTANTS MaxOps,   \* calls explored per architecture
          EMIT

(* sequence of architectures, each the sequence of its leaf sizes (projected   *)
(* from the real networks by the harness; cfg files cannot hold tuples)         *)
Archs == JsonDeserialize(IOEnv.ARCHS_FILE)

VARIABLES arch,     \* index into Archs, 0 = not chosen yet
          leaves,   \* current content of the trainable leaves (sequence of tag sequences)
          vec,      \* result of the last flat_params, <<>> before
          ops       \* number of calls so far

vars == <<arch, leaves, vec, ops>>
View == [arch |-> arch, leaves |-> leaves, vec |-> vec, ops |-> ops]
Emit(op, args, exp) ==
  EMIT => PrintT(<<"EMIT", ToJson([pre |-> View, op |-> op, args |-> args, exp |-> exp, post |-> View'])>>)

RECURSIVE SumTo(_, _)
SumTo(s, j) == IF j = 0 THEN 0 ELSE SumTo(s, j - 1) + s[j]
Total(sizes) == SumTo(sizes, Len(sizes))

(* set_params: consecutive slices of the vector, leaf by leaf *)
Split(sizes, v) == [j \in 1..Len(sizes) |-> SubSeq(v, SumTo(sizes, j - 1) + 1, SumTo(sizes, j))]
(* flat_params: concatenation of the ravelled leaves in the same order *)
RECURSIVE ConcatTo(_, _)
ConcatTo(ls, j) == IF j = 0 THEN <<>> ELSE ConcatTo(ls, j - 1) \o ls[j]
Concat(ls) == ConcatTo(ls, Len(ls))

Ascending(p)  == [i \in 1..p |-> i]
Descending(p) == [i \in 1..p |-> p + 1 - i]
Initial(p)    == [i \in 1..p |-> -i]
Vectors(p)    == {Ascending(p), Descending(p)}

VectorsNow == IF arch = 0 THEN {} ELSE Vectors(Total(Archs[arch]))

Init == arch = 0 /\ leaves = <<>> /\ vec = <<>> /\ ops = 0

ChooseArch(a) == /\ arch = 0
                 /\ arch' = a
                 /\ leaves' = Split(Archs[a], Initial(Total(Archs[a])))
                 /\ UNCHANGED <<vec, ops>>
                 /\ Emit("Arch", <<a>>, <<>>)

SetParams(v) == /\ arch # 0 /\ ops < MaxOps
                /\ leaves' = Split(Archs[arch], v)
                /\ ops' = ops + 1
                /\ UNCHANGED <<arch, vec>>
                /\ Emit("SetParams", <<v>>, <<>>)

FlatParams == /\ arch # 0 /\ ops < MaxOps
              /\ vec' = Concat(leaves)
              /\ ops' = ops + 1
              /\ UNCHANGED <<arch, leaves>>
              /\ Emit("FlatParams", <<>>, Concat(leaves))

(* set_params(net, flat_params(net)) *)
WriteBack == /\ arch # 0 /\ ops < MaxOps /\ vec # <<>>
             /\ leaves' = Split(Archs[arch], vec)
             /\ ops' = ops + 1
             /\ UNCHANGED <<arch, vec>>
             /\ Emit("WriteBack", <<>>, <<>>)

Next == \/ \E a \in 1..Len(Archs) : ChooseArch(a)
        \/ \E v \in VectorsNow : SetParams(v)
        \/ FlatParams \/ WriteBack
Spec == Init /\ [][Next]_vars

----------------------------------------------------------------------------
(* Properties (C16) *)
Sizes == Archs[arch]
LayoutOK == arch # 0 => /\ Len(leaves) = Len(Sizes)
                        /\ \A j \in 1..Len(Sizes) : Len(leaves[j]) = Sizes[j]
(* reading back what was written is the identity on vectors ...            *)
FlatOfSetIsIdentity ==
  arch # 0 => \A v \in Vectors(Total(Sizes)) \cup {Initial(Total(Sizes))} : Concat(Split(Sizes, v)) = v
(* ... and writing back what was read is the identity on networks            *)
SetOfFlatIsIdentity == arch # 0 => Split(Sizes, Concat(leaves)) = leaves
(* a read vector always is the current content, position by position *)
VecIsSnapshot == [][vec' # vec => vec' = Concat(leaves)]_vars

(* deviation canary: slices taken from the end of the vector (leaf order reversed) *)
SplitReversed(sizes, v) ==
  [j \in 1..Len(sizes) |-> SubSeq(v, Total(sizes) - SumTo(sizes, j) + 1, Total(sizes) - SumTo(sizes, j - 1))]
FlatOfReversedSetIsIdentity ==
  arch # 0 => \A v \in Vectors(Total(Sizes)) : Concat(SplitReversed(Sizes, v)) = v
=============================================================================
