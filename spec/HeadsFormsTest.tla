---- MODULE HeadsFormsTest ----
(* self-test of Forms.tla (device D3), evaluated by TLC as assumptions *)
EXTENDS Forms, Json
ASSUME FLn(12) = FAdd(FScale(I(2), FLn(2)), FLn(3))
ASSUME FLnQ(Q(4, 6)) = FSub(FLn(2), FLn(3))
ASSUME FSub(FLn(6), FAdd(FLn(2), FLn(3))) = FZero
ASSUME FAdd(FConst(Half), FConst(Q(-1, 2))) = FZero
ASSUME FMulExp(FAdd(FConst(I(3)), FScale(I(2), FExp(I(-2)))), I(2)) = FAdd(FScale(I(3), FExp(I(2))), FConst(I(2)))
ASSUME FSqMono(FScale(Q(3, 2), FExp(I(-20)))) = FScale(Q(9, 4), FExp(I(-40)))
ASSUME FSqMono(FConst(I(-2))) = FConst(I(4))
ASSUME FSum(<<FLn2Pi, FLn2Pi>>) = FScale(I(2), FLn2Pi)
ASSUME FIsConst(FZero) /\ FConstVal(FZero) = Zero /\ ~FIsConst(FLn(2))
ASSUME PrintT(<<"EMIT", ToJson([f |-> FJson(FAdd(FLn2Pi, FScale(Q(-1, 2), FExp(Q(1, 2))))), z |-> FJson(FZero)])>>)
VARIABLE x
Init == x = 0
Next == UNCHANGED x
====
