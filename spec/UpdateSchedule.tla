--------------------------- MODULE UpdateSchedule ---------------------------
(* X08 - the gradient-step schedule of the off-policy training routines       *)
(*   rl_blox.algorithm.dqn / nature_dqn / ddqn / per  (train_dqn, train_nature_dqn, train_ddqn, train_ddqn_per) *)
(*   rl_blox.algorithm.ddpg / td3 / td3_lap / sac / td7 / mrq                 *)
(*                                                                            *)
(* One environment step of every routine is: act, env.step, add_sample, then  *)
(* the LEARNING PART.  The learning part of step s is a finite sequence of    *)
(* operations StepOps(c, s) over the configuration c:                         *)
(*   sample   replay_buffer.sample_batch(rows ...)                            *)
(*   upd      one call of an update function of a component (critic, actor,   *)
(*            temp = SAC entropy coefficient, emb = TD7 SALE embedding,       *)
(*            enc = MR.Q encoder block) taking k optimiser steps              *)
(*   prio     replay_buffer.update_priority (LAP / PER buffers)               *)
(*   tgt      soft / hard_target_net_update of the named online component     *)
(* The state machine executes StepOps one operation per transition and keeps  *)
(* a log; the invariants state the schedule as laws over the log that do NOT  *)
(* refer to StepOps: closed-form update counts (CountingLaw: Expected), batch *)
(* provenance (BatchFresh, BatchRows, StoredBeforeSampled), order inside one  *)
(* block (OrderInBlock), the gate (NoLearningOutsideGate,                     *)
(* FirstUpdateAtDocumentedStep) and optimiser counters (OptimiserCounters).   *)
(* UpdateScheduleTrace.tla replays recorded runs of the real routines through *)
(* the same StepOps / log / invariants.                                       *)
(*                                                                            *)
(* Documented (docstrings) and coded:                                         *)
(*  ddpg    "Sample mini-batch of batch_size transitions from R to update the *)
(*          networks; update critic; update actor; update target networks";   *)
(*          gradient_steps = "number of gradient steps during one training    *)
(*          phase"; learning "starts after learning_starts random steps".     *)
(*  td3     "if t % policy_delay == 0 (delayed policy update)": actor and     *)
(*          both targets, inside every one of the gradient_steps iterations.  *)
(*  sac     "if t % policy_delay == 0: update actor policy_delay times, update*)
(*          temperature; if t % target_network_delay == 0: update target".    *)
(*  ddqn &c "update_frequency: number of time steps after which the Q-net is  *)
(*          updated", "target_update_frequency ... target net is updated".    *)
(*  td7     epoch-counted: actor iff epoch % policy_delay = 0, targets iff    *)
(*          epoch % target_delay = 0; mrq: targets + encoder block iff        *)
(*          epoch % target_delay = 0, critic and policy every step.           *)
(* What only the code says (modelled as it is, named operators):              *)
(*  GateAlsoNeedsMoreThanBatchSteps  nature_dqn / ddqn / ddqn_per learn only  *)
(*          when step > batch_size AND step >= learning_starts (documented:   *)
(*          learning_starts only); the absolute step index is compared, not   *)
(*          the number of stored rows.                                        *)
(*  DqnGateIsStepExceedsBatch  train_dqn has no learning_starts: it learns    *)
(*          when step > batch_size (strictly: first update at batch_size+1).  *)
(*  TemperaturePerActorUpdate  SAC's temperature is updated after EACH of the *)
(*          policy_delay actor updates of a due step (the docstring lists     *)
(*          "update temperature" once under the due branch).                  *)
(*  TargetCopyNeedsNoTraining  DQN family: the hard target copy is made at    *)
(*          step % target_update_frequency = 0 also when no Q update ran.     *)
(*  MrqTargetsCopiedBeforeTraining  MR.Q copies the targets and trains the    *)
(*          encoder block BEFORE the critic / policy update of the same step. *)
(*  PerPriorityIsBatchMean  train_ddqn_per calls update_priority with a single *)
(*          priority computed from the MEAN absolute TD error of the batch    *)
(*          (ddqn_per_loss returns td_err_mean), not one priority per sample. *)
(*  EpochContinues  TD7 / MR.Q start their epoch counter at                   *)
(*          max(0, global_step - learning_starts).                            *)
EXTENDS Integers, Sequences, FiniteSets, TLC

CONSTANTS Routines,   \* set of routine names explored by the design model
          Steps,      \* number of environment steps of a run
          Warms, Starts, Batches, Delays,   \* parameter ranges
          DEV         \* "NoDev" or the name of a deviation (canaries)

VARIABLES c,        \* configuration of the run
          step,     \* index of the latest executed environment step (start - 1 before the first)
          ops, pc,  \* learning part of the current step and the position in it
          serial,   \* number of sample_batch calls so far (= identity of the latest batch)
          stored,   \* number of transitions stored
          opt,      \* component -> optimiser step counter
          log       \* executed learning operations

vars == <<c, step, ops, pc, serial, stored, opt, log>>

Comps == {"critic", "actor", "temp", "emb", "enc"}
Min2(a, b) == IF a < b THEN a ELSE b
Max2(a, b) == IF a > b THEN a ELSE b

Grad(r) == r \in {"ddpg", "td3", "td3_lap"}
Freq(r) == r \in {"nature_dqn", "ddqn", "ddqn_per"}
Prioritised(r) == r \in {"td3_lap", "ddqn_per", "td7", "mrq"}
EpochCounted(r) == r \in {"td7", "mrq"}

(* ------------------------------------------------------------------ gate *)
DqnGateIsStepExceedsBatch(cc, s) == s > cc.bs
GateAlsoNeedsMoreThanBatchSteps(cc, s) == s > cc.bs /\ s >= cc.warm
Gate(cc, s) == CASE cc.routine = "dqn" -> DqnGateIsStepExceedsBatch(cc, s)
                 [] Freq(cc.routine) -> GateAlsoNeedsMoreThanBatchSteps(cc, s)
                 [] OTHER -> s >= cc.warm
GateUsed(cc, s) == IF DEV = "LearnOneStepEarly" THEN Gate(cc, s + 1) ELSE Gate(cc, s)

LearnSteps(cc, last) == {x \in cc.start..last : Gate(cc, x)}
EpochContinues(cc) == IF cc.start > cc.warm THEN cc.start - cc.warm ELSE 0
EpochAt(cc, s) == EpochContinues(cc) + Cardinality(LearnSteps(cc, s))   \* epoch during the learning part of step s

(* ------------------------------------------------------------------ operations *)
Sample(rows, kind) == [op |-> "sample", comp |-> kind, rows |-> rows, k |-> 0]
Upd(comp, rows, k) == [op |-> "upd", comp |-> comp, rows |-> rows, k |-> k]
Tgt(comp) == [op |-> "tgt", comp |-> comp, rows |-> 0, k |-> 0]
Prio(rows) == [op |-> "prio", comp |-> "", rows |-> rows, k |-> 0]

RECURSIVE Rep(_, _)
Rep(n, s) == IF n <= 0 THEN <<>> ELSE s \o Rep(n - 1, s)
When(b, s) == IF b THEN s ELSE <<>>

ActorDue(cc, s) == IF DEV = "ActorEveryStep" THEN TRUE ELSE cc.routine = "ddpg" \/ s % cc.pd = 0

(* one gradient iteration of train_ddpg / train_td3 / train_td3_lap *)
GradTail(cc, s) ==
  IF DEV = "TargetBeforeActor" THEN <<Tgt("actor"), Tgt("critic"), Upd("actor", cc.bs, 1)>>
  ELSE IF DEV = "ActorOnItsOwnBatch" THEN <<Sample(cc.bs, ""), Upd("actor", cc.bs, 1), Tgt("actor"), Tgt("critic")>>
  ELSE <<Upd("actor", cc.bs, 1), Tgt("actor"), Tgt("critic")>>
GradIter(cc, s, withSample) ==
  When(withSample, <<Sample(cc.bs, "")>>) \o <<Upd("critic", cc.bs, 1)>> \o When(cc.routine = "td3_lap", <<Prio(cc.bs)>>)
  \o When(ActorDue(cc, s), GradTail(cc, s))
GradOps(cc, s) ==
  IF DEV = "BatchReusedAcrossGradientSteps"
  THEN GradIter(cc, s, TRUE) \o Rep(cc.gs - 1, GradIter(cc, s, FALSE))
  ELSE Rep(cc.gs, GradIter(cc, s, TRUE))

TemperaturePerActorUpdate(cc) ==
  IF DEV = "TemperatureOncePerBlock"
  THEN Rep(cc.pd, <<Upd("actor", cc.bs, 1)>>) \o When(cc.autotune, <<Upd("temp", cc.bs, 1)>>)
  ELSE Rep(cc.pd, <<Upd("actor", cc.bs, 1)>> \o When(cc.autotune, <<Upd("temp", cc.bs, 1)>>))
SacOps(cc, s) ==
  <<Sample(cc.bs, ""), Upd("critic", cc.bs, 1)>>
  \o When(s % cc.pd = 0, TemperaturePerActorUpdate(cc))
  \o When(s % cc.td = 0, <<Tgt("critic")>>)

PerPriorityIsBatchMean == 1   \* train_ddqn_per hands update_priority ONE priority (from the batch-mean |TD error|) for the whole batch
DqnOps(cc, s) == <<Sample(cc.bs, ""), Upd("critic", cc.bs, 1)>>
TargetCopyNeedsNoTraining(cc, s) == When(s % cc.td = 0, <<Tgt("critic")>>)
FreqOps(cc, s) ==
  When(s % cc.uf = 0, <<Sample(cc.bs, ""), Upd("critic", cc.bs, 1)>> \o When(cc.routine = "ddqn_per", <<Prio(PerPriorityIsBatchMean)>>))
  \o TargetCopyNeedsNoTraining(cc, s)

Td7Ops(cc, e) ==
  <<Sample(cc.bs, ""), Upd("emb", cc.bs, 1), Upd("critic", cc.bs, 1), Prio(cc.bs)>>
  \o When(e % cc.pd = 0, <<Upd("actor", cc.bs, 1)>>)
  \o When(e % cc.td = 0, <<Tgt("actor"), Tgt("critic"), Tgt("fixed_target"), Tgt("fixed")>>)

MrqTargetsCopiedBeforeTraining(cc, e) ==
  When(e % cc.td = 0, <<Tgt("actor"), Tgt("critic"), Sample(cc.bs * cc.td, "enc"), Upd("enc", cc.bs * cc.td, cc.td)>>)
MrqOps(cc, e) ==
  MrqTargetsCopiedBeforeTraining(cc, e) \o <<Sample(cc.bs, ""), Upd("critic", cc.bs, 1), Upd("actor", cc.bs, 1), Prio(cc.bs)>>

StepOps(cc, s) ==
  IF ~GateUsed(cc, s) THEN <<>>
  ELSE CASE Grad(cc.routine) -> GradOps(cc, s)
         [] cc.routine = "sac" -> SacOps(cc, s)
         [] cc.routine = "dqn" -> DqnOps(cc, s)
         [] Freq(cc.routine) -> FreqOps(cc, s)
         [] cc.routine = "td7" -> Td7Ops(cc, EpochAt(cc, s))
         [] OTHER -> MrqOps(cc, EpochAt(cc, s))

(* ------------------------------------------------------------------ effects (shared with the trace specification) *)
Entry(s, o, sid, rows, n, k) == [step |-> s, op |-> o.op, comp |-> o.comp, sid |-> sid, rows |-> rows, n |-> n, k |-> k]

StoreEff == stored' = stored + 1
SampleEff(o, sid, rows, n) == /\ serial' = sid
                              /\ log' = Append(log, Entry(step, o, sid, rows, n, 0))
                              /\ UNCHANGED opt
UpdateEff(o, sid, rows, after) == /\ log' = Append(log, Entry(step, o, sid, rows, 0, after - opt[o.comp]))
                                  /\ opt' = [opt EXCEPT ![o.comp] = after]
                                  /\ UNCHANGED serial
OtherEff(o, rows) == /\ log' = Append(log, Entry(step, o, 0, rows, 0, 0))
                     /\ UNCHANGED <<serial, opt>>

(* ------------------------------------------------------------------ design model *)
Params(r) ==
  [routine : {r}, warm : Warms, start : Starts, bs : Batches, cap : {1000},
   gs : IF Grad(r) THEN 1..3 ELSE {1},
   pd : IF r \in {"td3", "td3_lap", "sac", "td7"} THEN Delays ELSE {1},
   td : IF r \in {"sac", "td7", "mrq"} \/ Freq(r) THEN Delays ELSE {1},
   uf : IF Freq(r) THEN Delays ELSE {1},
   autotune : IF r = "sac" THEN BOOLEAN ELSE {FALSE}]

InitState(cc) ==
  /\ c = cc /\ step = cc.start - 1 /\ ops = <<>> /\ pc = 1 /\ serial = 0 /\ stored = 0
  /\ opt = [x \in Comps |-> 0] /\ log = <<>>

Init == \E r \in Routines : \E cc \in Params(r) : InitState(cc)

Cur == ops[pc]
EnvStepAndStore ==
  /\ pc > Len(ops) /\ step + 1 < c.start + Steps
  /\ step' = step + 1 /\ StoreEff
  /\ ops' = StepOps(c, step + 1) /\ pc' = 1
  /\ UNCHANGED <<c, serial, opt, log>>
SampleBatch ==
  /\ pc <= Len(ops) /\ Cur.op = "sample"
  /\ SampleEff(Cur, serial + 1, Cur.rows, IF DEV = "SampleBeforeStore" THEN stored - 1 ELSE stored)
  /\ pc' = pc + 1 /\ UNCHANGED <<c, step, ops, stored>>
UpdateComponent ==
  /\ pc <= Len(ops) /\ Cur.op = "upd"
  /\ UpdateEff(Cur, serial, Cur.rows, opt[Cur.comp] + Cur.k)
  /\ pc' = pc + 1 /\ UNCHANGED <<c, step, ops, stored>>
PriorityOrTargetUpdate ==
  /\ pc <= Len(ops) /\ Cur.op \in {"prio", "tgt"}
  /\ OtherEff(Cur, Cur.rows)
  /\ pc' = pc + 1 /\ UNCHANGED <<c, step, ops, stored>>
Finished == pc > Len(ops) /\ step + 1 >= c.start + Steps /\ UNCHANGED vars

Next == EnvStepAndStore \/ SampleBatch \/ UpdateComponent \/ PriorityOrTargetUpdate \/ Finished

(* ------------------------------------------------------------------ the laws *)
Idx == DOMAIN log
Count(o, comp) == Cardinality({i \in Idx : log[i].op = o /\ log[i].comp = comp})
RECURSIVE SumK(_, _)
SumK(i, comp) == IF i = 0 THEN 0 ELSE SumK(i - 1, comp) + (IF log[i].op = "upd" /\ log[i].comp = comp THEN log[i].k ELSE 0)
Div(a, b) == a \div b
Multiples(S, m) == Cardinality({x \in S : x % m = 0})

(* closed-form number of operations <<o, comp>> after the steps start..last *)
Expected(cc, o, comp, last) ==
  LET L == LearnSteps(cc, last)
      n == Cardinality(L)
      r == cc.routine
      e0 == EpochContinues(cc)
      due(m) == Div(e0 + n, m) - Div(e0, m)      \* epochs e0+1..e0+n that are multiples of m
      key == <<o, comp>>
  IN CASE Grad(r) ->
            (CASE key = <<"sample", "">> -> cc.gs * n
               [] key = <<"upd", "critic">> -> cc.gs * n
               [] key \in {<<"upd", "actor">>, <<"tgt", "actor">>, <<"tgt", "critic">>} -> cc.gs * (IF r = "ddpg" THEN n ELSE Multiples(L, cc.pd))
               [] key = <<"prio", "">> -> IF r = "td3_lap" THEN cc.gs * n ELSE 0
               [] OTHER -> 0)
       [] r = "sac" ->
            (CASE key \in {<<"sample", "">>, <<"upd", "critic">>} -> n
               [] key = <<"upd", "actor">> -> cc.pd * Multiples(L, cc.pd)
               [] key = <<"upd", "temp">> -> IF cc.autotune THEN cc.pd * Multiples(L, cc.pd) ELSE 0
               [] key = <<"tgt", "critic">> -> Multiples(L, cc.td)
               [] OTHER -> 0)
       [] r = "dqn" -> (IF key \in {<<"sample", "">>, <<"upd", "critic">>} THEN n ELSE 0)
       [] Freq(r) ->
            (CASE key \in {<<"sample", "">>, <<"upd", "critic">>} -> Multiples(L, cc.uf)
               [] key = <<"prio", "">> -> IF r = "ddqn_per" THEN Multiples(L, cc.uf) ELSE 0
               [] key = <<"tgt", "critic">> -> Multiples(L, cc.td)
               [] OTHER -> 0)
       [] r = "td7" ->
            (CASE key \in {<<"sample", "">>, <<"upd", "critic">>, <<"upd", "emb">>, <<"prio", "">>} -> n
               [] key = <<"upd", "actor">> -> due(cc.pd)
               [] key \in {<<"tgt", "actor">>, <<"tgt", "critic">>, <<"tgt", "fixed_target">>, <<"tgt", "fixed">>} -> due(cc.td)
               [] OTHER -> 0)
       [] OTHER ->   \* mrq
            (CASE key \in {<<"sample", "">>, <<"upd", "critic">>, <<"upd", "actor">>, <<"prio", "">>} -> n
               [] key \in {<<"sample", "enc">>, <<"upd", "enc">>, <<"tgt", "actor">>, <<"tgt", "critic">>} -> due(cc.td)
               [] OTHER -> 0)

Keys == ({"sample"} \X {"", "enc"}) \cup ({"upd"} \X Comps) \cup ({"prio"} \X {""})
        \cup ({"tgt"} \X {"actor", "critic", "fixed_target", "fixed"})
KnownKeys == \A i \in Idx : <<log[i].op, log[i].comp>> \in Keys
CountingLawAt(last) == KnownKeys /\ \A key \in Keys : Count(key[1], key[2]) = Expected(c, key[1], key[2], last)
CountingLaw == pc > Len(ops) => CountingLawAt(step)

(* the sample an update consumed: the latest one before it *)
LastSample(i) == LET S == {j \in 1..(i - 1) : log[j].op = "sample"} IN IF S = {} THEN 0 ELSE CHOOSE j \in S : \A x \in S : x <= j
FreshComps == {"critic", "enc"}
(* every update consumes the batch sampled last, that batch was sampled in the same step (after the transition was stored),
   and no two critic (encoder) updates consume the same batch *)
BatchFresh ==
  \A i \in Idx : log[i].op = "upd" =>
    LET j == LastSample(i)
    IN /\ j > 0 /\ log[j].step = log[i].step /\ log[i].sid = log[j].sid
       /\ (log[i].comp \in FreshComps => \A x \in (j + 1)..(i - 1) : ~(log[x].op = "upd" /\ log[x].comp = log[i].comp))
(* documented sharing: actor (and temperature, embedding) use the batch of the critic update of the same iteration *)
ActorSharesCriticBatch ==
  \A i \in Idx : (log[i].op = "upd" /\ log[i].comp \in {"actor", "temp"}) =>
    \E j \in 1..(i - 1) : log[j].op = "upd" /\ log[j].comp = "critic" /\ log[j].sid = log[i].sid /\ log[j].step = log[i].step
RowsOf(e) == IF e.comp = "enc" THEN c.bs * c.td ELSE IF e.op = "prio" /\ c.routine = "ddqn_per" THEN PerPriorityIsBatchMean ELSE c.bs
BatchRows == \A i \in Idx : log[i].op \in {"sample", "upd", "prio"} => log[i].rows = RowsOf(log[i])
(* a batch is drawn from a buffer that already holds the transition of the current step (n = -1: length not recorded) *)
StoredBeforeSampled ==
  \A i \in Idx : (log[i].op = "sample" /\ log[i].n >= 0) => log[i].n = Min2(c.cap, log[i].step - c.start + 1)

SameIteration(i, j) == log[i].step = log[j].step /\ \A x \in (i + 1)..j : log[x].op # "sample"
OrderInBlock ==
  /\ \A i \in Idx : log[i].op = "tgt" =>   \* nothing is trained after a target update of the same iteration ...
       IF c.routine = "mrq" THEN \A j \in 1..(i - 1) : log[j].step = log[i].step => log[j].op = "tgt"   \* ... MR.Q: targets first
       ELSE \A j \in Idx : (j > i /\ SameIteration(i, j)) => log[j].op = "tgt"
  /\ \A i \in Idx : (log[i].op = "upd" /\ log[i].comp = "temp") => (i > 1 /\ log[i - 1].op = "upd" /\ log[i - 1].comp = "actor")
  /\ \A i \in Idx : (log[i].op = "prio") => (i > 1 /\ log[i - 1].op = "upd" /\ log[i - 1].comp \in {"critic", "actor"})
  /\ \A i \in Idx : (log[i].op = "upd" /\ log[i].comp = "emb") => (i > 1 /\ log[i - 1].op = "sample")

NoLearningOutsideGate == \A i \in Idx : Gate(c, log[i].step)
(* the first update happens exactly at the first step the documented gate admits *)
FirstGateStep(cc) ==
  CASE cc.routine = "dqn" -> Max2(cc.start, cc.bs + 1)
    [] Freq(cc.routine) -> Max2(cc.start, Max2(cc.warm, cc.bs + 1))
    [] OTHER -> Max2(cc.start, cc.warm)
FirstUpdateStep(cc) ==
  IF Freq(cc.routine) THEN LET g == FirstGateStep(cc) IN g + ((cc.uf - (g % cc.uf)) % cc.uf) ELSE FirstGateStep(cc)
FirstUpdateAtDocumentedStep ==
  LET U == {i \in Idx : log[i].op = "upd"}
  IN /\ \A i \in U : log[i].step >= FirstUpdateStep(c)
     /\ (step > FirstUpdateStep(c) \/ (step = FirstUpdateStep(c) /\ pc > Len(ops))) => \E i \in U : log[i].step = FirstUpdateStep(c)

OptimiserCounters == \A comp \in Comps : opt[comp] = SumK(Len(log), comp)
StepsPerUpdate == \A i \in Idx : log[i].op = "upd" => log[i].k = (IF log[i].comp = "enc" THEN c.td ELSE 1)

TypeOK == /\ pc \in 1..(Len(ops) + 1) /\ serial \in Nat /\ stored = step - c.start + 1
          /\ \A x \in Comps : opt[x] \in Nat
=============================================================================
