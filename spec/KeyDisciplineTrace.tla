------------------------ MODULE KeyDisciplineTrace ------------------------
(* code -> spec for X06: validates the key operations recorded from REAL runs *)
(* of the training routines (harness/extras/x06_worker.py: every routine on    *)
(* scripted environments while harness/extras/x06_record.py observes           *)
(* jax.random.key / PRNGKey / split / fold_in / the samplers, the jit boundary *)
(* of rl_blox's own functions, np.random.default_rng and nnx.Rngs) against the *)
(* OBSERVER half of KeyDiscipline.tla.  Every event is one call of             *)
(* Observe(cfg, ledger, event); the clauses it violates are collected with the *)
(* position and the two call sites; the ledger follows the recorded facts, so  *)
(* the rest of the trace is still judged.  One TLC run validates the whole     *)
(* batch; one VERDICT line per trace.                                         *)
(*                                                                            *)
(* A trace is [id, cfg, events, twin].  cfg = [seed, span, loops, allow,       *)
(* foreign]; an event = [op, k, ch, data, site, seed, kind, sig]: keys are the  *)
(* recorded key digests mapped to small naturals (one table per group of runs  *)
(* that are compared), sig a digest of the whole recorded operation.           *)
(*                                                                            *)
(* allow: the named deviations of this routine (x06_cfg.py), each [name,       *)
(* clauses, a, b] with two groups of sites: a violated clause <<clause, site,   *)
(* site>> covered by an entry is what the unchanged code does at those sites;  *)
(* it is reported under its name (`odd`), every other violated clause is a     *)
(* deviation (`viol`).                                                         *)
(* twin: the signatures of the same routine run once more with the same seed:  *)
(* the two runs must perform the same key operations on the same keys          *)
(* (TwinDiverges).  foreign: the keys of the run with a different seed: no key  *)
(* may be shared (SharedAcrossSeeds).                                          *)
EXTENDS KeyDiscipline

VARIABLES tid, l, tw, odd
tvars == <<tid, l, tw, odd>>

Traces == JsonDeserialize(IOEnv.TRACE_FILE)
T == Traces[tid]
E == T.events[l]

TInit == /\ tid \in 1..Len(Traces) /\ l = 1
         /\ tw = IF Len(Traces[tid].twin) > 0 THEN 1 ELSE 0
         /\ led = Ledger0 /\ viol = {} /\ odd = {}
         /\ todo = <<>> /\ pc = "trace" /\ p = P0

(* a named deviation lists clauses and two groups of sites: it covers a violated clause whose two sites lie one in each group;
   the first entry that covers a clause names it *)
Covers(al, v) == /\ v[1] \in SetOf(al.clauses)
                 /\ \/ (v[2] \in SetOf(al.a) /\ v[3] \in SetOf(al.b))
                    \/ (v[3] \in SetOf(al.a) /\ v[2] \in SetOf(al.b))
AllowName(cfg, v) ==
  LET I == {i \in 1..Len(cfg.allow) : Covers(cfg.allow[i], v)}
  IN IF I = {} THEN "" ELSE cfg.allow[CHOOSE i \in I : \A j \in I : i <= j].name

(* lock-step comparison with the second run of the same seed *)
Twin == IF tw = 0 THEN [tw |-> 0, bad |-> {}]
        ELSE IF tw > Len(T.twin) \/ T.twin[tw] # E.sig THEN [tw |-> 0, bad |-> {<<"TwinDiverges", E.site, E.site>>}]
        ELSE [tw |-> tw + 1, bad |-> {}]

(* no key of this run occurs in the run with a different seed *)
Foreign == IF E.op # "root" \/ E.kind \in {"key", "PRNGKey"}
           THEN (IF (SetOf(E.ch) \cup {E.k}) \cap SetOf(T.cfg.foreign) # {} THEN {<<"SharedAcrossSeeds", E.site, E.site>>} ELSE {})
           ELSE {}

TNext == /\ l <= Len(T.events)
         /\ LET o == Observe(T.cfg, led, E)
                t == Twin
                bad == o.bad \cup t.bad \cup Foreign
            IN /\ led' = o.s
               /\ tw' = t.tw
               /\ viol' = viol \cup {<<l, v[1], v[2], v[3]>> : v \in {x \in bad : AllowName(T.cfg, x) = ""}}
               /\ odd' = odd \cup {<<AllowName(T.cfg, v), v[1], v[2], v[3]>> : v \in {x \in bad : AllowName(T.cfg, x) # ""}}
         /\ l' = l + 1
         /\ UNCHANGED <<tid, todo, pc, p>>

AtEnd == IF tw # 0 /\ tw # Len(T.twin) + 1 THEN {<<l, "TwinDiverges", "end", "end">>} ELSE {}

Verdict == (l = Len(T.events) + 1) =>
             PrintT(<<"VERDICT", ToJson([id |-> T.id, keys |-> Cardinality(Known(led)), roots |-> led.nroot, splits |-> led.nsplit, folds |-> led.nfold,
                                         consumed |-> led.ncons, twin |-> IF tw = 0 THEN 0 ELSE tw - 1,
                                         reused |-> Cardinality({k \in Known(led) : Len(led.uses[k]) > 1}),
                                         noreuse |-> NoKeyReused(led), fromseed |-> UsedKeysFromSeed(T.cfg, led),
                                         odd |-> odd, viol |-> viol \cup AtEnd])>>)
=============================================================================
