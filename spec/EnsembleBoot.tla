------------------------- MODULE EnsembleBoot -------------------------
(* Bootstrap discipline of rl_blox.blox.probabilistic_ensemble.train_ensemble *)
(* as a state machine:                                                        *)
(*   Bootstrap   bootstrap(): every member draws NB = floor(train_size * N)   *)
(*               data indices WITH replacement (a multiset per member),       *)
(*   Epoch       one epoch: every member's bootstrap POSITIONS are shuffled,  *)
(*               cut into batches of B positions, the remainder (< B) is      *)
(*               dropped; the index tensor handed to train_epoch is           *)
(*               batches[k][e][b] = boot[e][used[e][(k-1)*B + b]],            *)
(*   TrainEpoch  train_epoch on that tensor (an operator on parameter         *)
(*               VERSIONS, device D5): one optimiser step per batch; after a  *)
(*               step member e's network is a function of its previous        *)
(*               version, of the shared learned log-variance bounds and of    *)
(*               the rows it was handed; the shared bounds depend on all rows.*)
(*               The functions are left uninterpreted - a version is the      *)
(*               record of what it depends on.                                *)
(* `used` (the positions, not the data indices) is a ghost variable: the code *)
(* only exposes data indices, and with replacement the same data index may    *)
(* legitimately occur more than once per epoch - once per POSITION holding it.*)
EXTENDS Integers, Sequences, FiniteSets, TLC, Json

CONSTANTS E,        \* ensemble size
          N,        \* data set size (n_samples)
          TsNum, TsDen,   \* train_size = TsNum / TsDen (chosen so that int(train_size * N) in floating point is the exact floor)
          B,        \* batch_size
          MaxEpochs,
          EMIT,
          Dev       \* "none" | "shared_row" | "with_replacement" | "drop_always"

VARIABLES boot,     \* << >> before bootstrap(); then [1..E -> [1..NB -> 0..N-1]]
          epoch,    \* number of completed epochs
          batches,  \* index tensor of the last epoch: Seq over batches of [1..E -> [1..B -> data index]]
          used      \* ghost: [1..E -> Seq of bootstrap positions consumed in the last epoch, in batch order]
vars == <<boot, epoch, batches, used>>

NB      == (TsNum * N) \div TsDen         \* int(train_size * n_samples)
NBatch  == NB \div B                       \* batches per epoch
Kept    == NBatch * B                      \* positions used per epoch; NB - Kept = NB % B is dropped
Members == 1..E

Injective(s) == \A a, b \in DOMAIN s : a # b => s[a] # s[b]
InjSeqs(n, l) == {s \in [1..l -> 1..n] : Injective(s)}
AnySeqs(n, l) == [1..l -> 1..n]

BatchesOf(bt, us) == [k \in 1..NBatch |-> [e \in Members |-> [b \in 1..B |-> bt[e][us[e][(k - 1) * B + b]]]]]

Init == boot = << >> /\ epoch = 0 /\ batches = << >> /\ used = << >>

Bootstrap == /\ boot = << >>
             /\ boot' \in [Members -> [1..NB -> 0..(N - 1)]]
             /\ UNCHANGED <<epoch, batches, used>>

(* the relation between the state before and after an epoch (re-used by EnsembleBootTrace) *)
EpochRel == /\ boot # << >>
            /\ used' \in [Members -> InjSeqs(NB, Kept)]
            /\ batches' = BatchesOf(boot, used')
            /\ epoch' = epoch + 1
            /\ UNCHANGED boot

Epoch == epoch < MaxEpochs /\ EpochRel

(* train_epoch as an operator on versions.  dv : [data index -> version of that data row]. *)
(* m[e] = version of member e's network, b = version of the shared log-variance bounds.    *)
Rows(bs, k, e, dv) == [b \in 1..Len(bs[k][e]) |-> << bs[k][e][b], dv[bs[k][e][b]] >>]
RECURSIVE TrainTo(_, _, _, _)
TrainTo(v0, bs, dv, k) ==
  IF k = 0 THEN v0
  ELSE LET p == TrainTo(v0, bs, dv, k - 1)
       IN [ m |-> [e \in Members |-> << p.m[e], p.b, Rows(bs, k, e, dv) >>],
            b |-> << p.b, [e \in Members |-> Rows(bs, k, e, dv)] >> ]
TrainEpoch(v0, bs, dv) == TrainTo(v0, bs, dv, Len(bs))
V0 == [m |-> [e \in Members |-> << >>], b |-> << >>]
Clean == [r \in 0..(N - 1) |-> 0]
Touched(D) == [r \in 0..(N - 1) |-> IF r \in D THEN 1 ELSE 0]
RowsOf(bs, k, e) == {bs[k][e][b] : b \in 1..Len(bs[k][e])}

(* test vectors for the binding: the same epoch on two data sets that differ exactly in the rows D *)
Perturb(D) == /\ epoch > 0 /\ Len(batches) > 0 /\ D # {}
              /\ UNCHANGED vars
              /\ EMIT => PrintT(<<"EMIT", ToJson(
                    [batches |-> batches, D |-> D, N |-> N,
                     same  |-> [e \in Members |-> TrainTo(V0, batches, Clean, 1).m[e] = TrainTo(V0, batches, Touched(D), 1).m[e]],
                     same_bounds |-> TrainTo(V0, batches, Clean, 1).b = TrainTo(V0, batches, Touched(D), 1).b])>>)

(* --- named deviations (canaries) ------------------------------------------ *)
(* every member is fed member 1's bootstrap sample *)
EpochSharedRow == /\ boot # << >> /\ epoch < MaxEpochs
                  /\ used' \in [Members -> InjSeqs(NB, Kept)]
                  /\ batches' = BatchesOf([e \in Members |-> boot[1]], used')
                  /\ epoch' = epoch + 1 /\ UNCHANGED boot
(* positions drawn with replacement inside an epoch *)
EpochWithReplacement == /\ boot # << >> /\ epoch < MaxEpochs
                        /\ used' \in [Members -> AnySeqs(NB, Kept)]
                        /\ batches' = BatchesOf(boot, used')
                        /\ epoch' = epoch + 1 /\ UNCHANGED boot
(* `[:, :-(NB % B)]` without the guard: nothing is left when NB is a multiple of B *)
EpochDropAlways == /\ boot # << >> /\ epoch < MaxEpochs
                   /\ LET kept == IF NB % B = 0 THEN 0 ELSE Kept IN
                        /\ used' \in [Members -> InjSeqs(NB, kept)]
                        /\ batches' = [k \in 1..(kept \div B) |-> [e \in Members |-> [b \in 1..B |-> boot[e][used'[e][(k - 1) * B + b]]]]]
                   /\ epoch' = epoch + 1 /\ UNCHANGED boot

EpochNone == Dev = "none" /\ Epoch
PerturbAny == EMIT /\ \E D \in SUBSET (0..(N - 1)) : Perturb(D)
Next == \/ Bootstrap
        \/ EpochNone
        \/ PerturbAny
        \/ (Dev = "shared_row" /\ EpochSharedRow)
        \/ (Dev = "with_replacement" /\ EpochWithReplacement)
        \/ (Dev = "drop_always" /\ EpochDropAlways)
Spec == Init /\ [][Next]_vars

----------------------------------------------------------------------------
(* Properties (C17, bootstrap part) *)
Count(s, v) == Cardinality({t \in DOMAIN s : s[t] = v})
Flat(e) == [t \in 1..(Len(batches) * B) |-> batches[((t - 1) \div B) + 1][e][((t - 1) % B) + 1]]

TypeOK == /\ boot = << >> \/ boot \in [Members -> [1..NB -> 0..(N - 1)]]
          /\ epoch \in 0..MaxEpochs

(* a member is only handed data indices of its own bootstrap sample, and no index more *)
(* often than its bootstrap sample holds it                                            *)
OnlyOwnBootstrap ==
  epoch > 0 => \A e \in Members : \A v \in 0..(N - 1) : Count(Flat(e), v) <= Count(boot[e], v)

(* each bootstrap position is consumed at most once per epoch *)
EachPositionAtMostOncePerEpoch == epoch > 0 => \A e \in Members : Injective(used[e])

(* the tensor is rectangular: every batch holds B indices for each of the E members *)
AllMembersSameBatchCount ==
  epoch > 0 => \A k \in 1..Len(batches) : DOMAIN batches[k] = Members /\ \A e \in Members : Len(batches[k][e]) = B

(* only the remainder of the division by the batch size is left out *)
OnlyRemainderDropped == epoch > 0 => Len(batches) = NBatch /\ \A e \in Members : Len(used[e]) = NB - (NB % B)

(* after the first optimiser step from a common state, a member's network does not depend on *)
(* data rows it was not handed (later steps are coupled through the shared learned bounds)   *)
MemberIsolation ==
  epoch > 0 /\ Len(batches) > 0 =>
    \A D \in SUBSET (0..(N - 1)) : \A e \in Members :
      (D \cap RowsOf(batches, 1, e) = {}) <=>
        TrainTo(V0, batches, Clean, 1).m[e] = TrainTo(V0, batches, Touched(D), 1).m[e]
(* the shared bounds depend on every row handed to any member: this is what couples the     *)
(* members from the second step on                                                          *)
BoundsCouple ==
  epoch > 0 /\ Len(batches) > 0 =>
    \A D \in SUBSET (0..(N - 1)) :
      (D \cap UNION {RowsOf(batches, 1, e) : e \in Members} # {}) <=>
        TrainTo(V0, batches, Clean, 1).b # TrainTo(V0, batches, Touched(D), 1).b
=============================================================================
