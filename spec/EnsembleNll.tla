------------------------- MODULE EnsembleNll -------------------------
(* rl_blox.blox.probabilistic_ensemble.gaussian_nll - heteroscedastic         *)
(* Gaussian negative log-likelihood (without the constant):                   *)
(*   Nll(m, l, y) = Mean_{n,k} 1/2 (m - y)^2 exp(-l)  +  1/2 Mean_{n,k} l      *)
(* Device D3: on log-variances l = j * LN2 (j integer) exp(-l) = 2^(-j) is a  *)
(* dyadic rational, and the value is the LINEAR FORM  c + ln2 * LN2  with     *)
(* rational c (squared-error term) and ln2 (log-variance term).  The driver   *)
(* only contributes the numeric value of LN2.                                 *)
(* Test vectors are chosen in stages: shape, then one entry per action.       *)
EXTENDS Integers, Sequences, FiniteSets, TLC, Json, Exact

CONSTANTS EMIT,
          Dev,      \* "none" | "no_half_logvar" | "var_not_inverse"
          Shapes,   \* set of shapes, coded 10 * n_samples + n_outputs (cfg files cannot hold tuples)
          Pats,     \* 0: every entry chosen freely;  > 0: number of patterns for shapes with more than FreeMax entries
          Wide      \* BOOLEAN: log-variances over the whole legal range of the soft bounds, (-20, 5)
FreeMax == 2

VARIABLES stage, shape, ent    \* ent : Seq of [m, y, j] (row-major entries)
vars == <<stage, shape, ent>>

Ms == << Zero, Q(1, 2), I(2) >>          \* predicted means
Ys == << I(-1), Q(1, 2), I(3) >>         \* targets
(* log-variance = j * LN2.  Wide: -21 LN2 = -14.56 and -20 LN2 = -13.86 lie deep in the range the learned lower  *)
(* soft bound allows (min_log_var in (-20, 0)); the precision 2^21 is still exact.                                *)
(* (generation only: the order invariants below multiply by the enclosure of LN2 and would leave 32 bits)        *)
Js == IF Wide THEN << -21, -20, -2, 0, 2 >> ELSE << -2, -1, 0, 1, 3 >>

Pow2(j) == LET RECURSIVE P(_)
               P(t) == IF t = 0 THEN 1 ELSE 2 * P(t - 1)
           IN IF j >= 0 THEN Q(P(j), 1) ELSE Q(1, P(-j))
InvVar(j) == IF Dev = "var_not_inverse" THEN Pow2(j) ELSE Pow2(-j)     \* exp(-j LN2)

(* linear forms  [c, ln2]  =  c + ln2 * LN2 *)
Form(c, l) == [c |-> c, ln2 |-> l]
SqTerm(e) == QMul(QMul(Half, QSq(QSub(e.m, e.y))), InvVar(e.j))
Nll(es) == LET cnt == Len(es)
           IN Form(QDiv(QSum([t \in 1..cnt |-> SqTerm(es[t])]), I(cnt)),
                   QMul(IF Dev = "no_half_logvar" THEN One ELSE Half,
                        QDiv(QSum([t \in 1..cnt |-> I(es[t].j)]), I(cnt))))

(* rigorous rational enclosure of LN2 for order statements between forms *)
Ln2Lo == Q(693, 1000)
Ln2Hi == Q(694, 1000)
FormSub(g, f) == Form(QSub(g.c, f.c), QSub(g.ln2, f.ln2))
NonNegAt(d, l) == QAdd(d.c, QMul(d.ln2, l))[1] >= 0
FormLe(f, g) == LET d == FormSub(g, f) IN NonNegAt(d, Ln2Lo) /\ NonNegAt(d, Ln2Hi)    \* f <= g for every LN2 in the enclosure

Entry(mi, yi, ji) == [m |-> Ms[mi], y |-> Ys[yi], j |-> Js[ji]]
PatEntry(p, t) == Entry(((p + t) % Len(Ms)) + 1, ((p * 2 + t * 2 + 1) % Len(Ys)) + 1, ((p * 3 + t) % Len(Js)) + 1)

Init == stage = 0 /\ shape = << >> /\ ent = << >>

ChooseShape == /\ stage = 0 /\ \E c \in Shapes : shape' = << c \div 10, c % 10 >>
               /\ stage' = 1 /\ UNCHANGED ent
Count == shape[1] * shape[2]
ChooseEntry == /\ stage = 1 /\ Count <= FreeMax /\ Len(ent) < Count
               /\ \E mi \in 1..Len(Ms), yi \in 1..Len(Ys), ji \in 1..Len(Js) : ent' = Append(ent, Entry(mi, yi, ji))
               /\ UNCHANGED <<stage, shape>>
ChoosePattern == /\ stage = 1 /\ Count > FreeMax /\ ent = << >>
                 /\ \E p \in 1..Pats : ent' = [t \in 1..Count |-> PatEntry(p, t)]
                 /\ UNCHANGED <<stage, shape>>
Evaluate == /\ stage = 1 /\ Len(ent) = Count
            /\ stage' = 2 /\ UNCHANGED <<shape, ent>>
            /\ EMIT => PrintT(<<"EMIT", ToJson([shape |-> shape, ent |-> ent, exp |-> Nll(ent)])>>)

Next == ChooseShape \/ ChooseEntry \/ ChoosePattern \/ Evaluate
Spec == Init /\ [][Next]_vars

----------------------------------------------------------------------------
Done == stage = 2
(* predicting the target can only lower the loss (same variances) *)
MinimalAtTarget ==
  Done => \A t \in 1..Len(ent) : FormLe(Nll([ent EXCEPT ![t].m = ent[t].y]), Nll(ent))
(* proper scoring of the variance: for a single entry with squared error 2^j the loss is *)
(* minimal at log-variance j*LN2 among the neighbours (j-1)*LN2, (j+1)*LN2               *)
Sq == {[m |-> Q(1, 2), y |-> Zero], [m |-> Zero, y |-> I(-1)], [m |-> I(2), y |-> Zero], [m |-> I(2), y |-> Q(1, 2)]}
SqLog2(e) == LET d == QSq(QSub(e.m, e.y)) IN CHOOSE j \in -4..4 : Pow2(j) = d   \* only for d a power of two
ProperVariance ==
  stage \in 0..2 =>       \* (a state-level formula, so that TLC reports it as an invariant)
  \A e \in {x \in Sq : \E j \in -4..4 : Pow2(j) = QSq(QSub(x.m, x.y))} :
    LET j == SqLog2(e)
        at(jj) == Nll(<< [m |-> e.m, y |-> e.y, j |-> jj] >>)
    IN FormLe(at(j), at(j - 1)) /\ FormLe(at(j), at(j + 1))
(* the loss is the per-entry average: duplicating the batch does not change it *)
AverageNotSum == Done => Nll(ent \o ent) = Nll(ent)
=============================================================================
